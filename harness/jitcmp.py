#!/venv/bin/python
"""jitcmp: three-way execution of the numba kernels.

For one kernel and one argument tuple, run
  (a) the real numba-compiled kernel,
  (b) its interpreted `.py_func`,
  (c) the translated Jit.Lang term (coq/Gen/Kernels.v) in the extracted checked interpreter
      (/verif/ocaml/jitdriver),
and report any disagreement.  Float outputs of (a) and (b) are converted to integer nanosecond
ticks with int(round(x * 1e9)); the model computes with exact rationals.

Model-level arguments are descriptors:
    ("F", [ticks | None, ...])   1-D float array (None = NaN)      ("f", ticks | None)  float scalar
    ("I", [ints])                1-D int array                     ("i", int)           int scalar
    ("B", [0/1])                 1-D bool array                    ("b", 0/1)           bool scalar
    ("tag", "above")             string parameter (integer tag in the model)
    ("dtype",)                   a dtype parameter: np.int64 for the real kernel, absent in the model

Environment: PYTHONPATH=/repo PYTHONHASHSEED=0 PYTHONDONTWRITEBYTECODE=1 and a /verif-owned
NUMBA_CACHE_DIR are forced here when absent.  With NUMBA_BOUNDSCHECK=1 the cache directory MUST be
/verif/.cache/numba-bc (numba's disk cache is not keyed on that flag); then an IndexError of the
compiled kernel is meaningful and is compared with the model's ERR as well.
"""
import json
import os
import random
import subprocess
import sys
from fractions import Fraction

ROOT = os.path.dirname(os.path.dirname(os.path.abspath(__file__)))
BC = os.environ.get("NUMBA_BOUNDSCHECK", "0") == "1"
_want = os.path.join(ROOT, ".cache", "numba-bc" if BC else "numba-jit")
if "NUMBA_CACHE_DIR" not in os.environ:
    os.environ["NUMBA_CACHE_DIR"] = _want
if os.path.realpath(os.environ["NUMBA_CACHE_DIR"]) != os.path.realpath(_want):
    sys.exit(f"jitcmp: NUMBA_CACHE_DIR must be {_want} when NUMBA_BOUNDSCHECK={'1' if BC else 'unset'}")
os.makedirs(os.environ["NUMBA_CACHE_DIR"], exist_ok=True)
os.environ.setdefault("PYTHONHASHSEED", "0")
sys.dont_write_bytecode = True
if "/repo" not in sys.path:
    sys.path.insert(0, "/repo")

import numpy as np  # noqa: E402

DRIVER = os.path.join(ROOT, "ocaml", "jitdriver")
META = json.load(open(os.path.join(ROOT, "coq", "Gen", "kernels.json")))
TAGS = META["string_tags"]
U = 125_000_000          # lattice unit: 1/8 s in ticks, exactly representable in binary

_kernels = None


def kernels():
    """name -> numba dispatcher"""
    global _kernels
    if _kernels is None:
        import warnings
        warnings.filterwarnings("ignore")
        from pynapple.core import _jitted_functions as jf
        from pynapple.process import _process_functions as pf
        from pynapple.process import correlograms as cg
        from pynapple.process import spectrum as sp
        mods = {"pynapple/core/_jitted_functions.py": jf, "pynapple/process/_process_functions.py": pf,
                "pynapple/process/correlograms.py": cg, "pynapple/process/spectrum.py": sp}
        _kernels = {k["name"]: getattr(mods[k["file"]], k["name"]) for k in META["kernels"]}
    return _kernels


# ---------- argument conversion ----------
def _flt(t):
    return float("nan") if t is None else t / 1e9


def real_arg(d):
    k = d[0]
    if k == "F":
        return np.array([_flt(t) for t in d[1]], dtype=np.float64)
    if k == "Fcol":      # 1-D in the model, a single trailing axis of length 1 for the real kernel
        return np.array([_flt(t) for t in d[1]], dtype=np.float64).reshape(-1, 1)
    if k == "F2":
        return np.array([_flt(t) for t in d[2]], dtype=np.float64).reshape(-1, d[1])
    if k == "I":
        return np.array(d[1], dtype=np.int64)
    if k == "B":
        return np.array(d[1], dtype=np.bool_)
    if k == "f":
        return _flt(d[1])
    if k == "i":
        return int(d[1])
    if k == "b":
        return bool(d[1])
    if k == "tag":
        return d[1]
    if k == "dtype":
        return np.int64
    raise ValueError(d)


def _cell(t):
    return "nan" if t is None else str(t)


def model_arg(d):
    k = d[0]
    if k in ("F", "I", "B"):
        return k + "[" + ",".join(_cell(t) for t in d[1]) + "]"
    if k == "Fcol":
        return "F[" + ",".join(_cell(t) for t in d[1]) + "]"
    if k == "F2":
        return f"F2:{d[1]}[" + ",".join(_cell(t) for t in d[2]) + "]"
    if k in ("f", "i", "b"):
        return f"{k}:{_cell(d[1])}"
    if k == "tag":
        return f"i:{TAGS[d[1]]}"
    if k == "dtype":
        return None
    raise ValueError(d)


def model_line(name, args):
    return " ".join([name] + [a for a in map(model_arg, args) if a is not None])


# ---------- result conversion ----------
def canon_real(v):
    """real return value -> list of (kind, shape, cells) with float cells as ticks / None / 'inf'"""
    vals = v if isinstance(v, tuple) else (v,)
    out = []
    for x in vals:
        if isinstance(x, np.ndarray):
            kind = {"i": "I", "u": "I", "f": "F", "b": "B"}[x.dtype.kind]
            if x.ndim == 3 and x.shape[2] == 1:      # collapsed trailing axis
                x = x.reshape(x.shape[0], x.shape[1])
            shape = tuple(int(s) for s in x.shape)
            cells = [canon_scalar(kind, c) for c in x.reshape(-1).tolist()]
            out.append((kind, shape, cells))
        elif isinstance(x, (bool, np.bool_)):
            out.append(("b", (), [int(x)]))
        elif isinstance(x, (int, np.integer)):
            out.append(("i", (), [int(x)]))
        elif isinstance(x, (float, np.floating)):
            out.append(("f", (), [canon_scalar("F", float(x))]))
        else:
            raise ValueError(f"unexpected return value {type(x)}")
    return out


def canon_scalar(kind, c):
    if kind == "F":
        if c != c:
            return None
        if c in (float("inf"), float("-inf")):
            return "inf"
        return ("x", c)
    return int(c)


def parse_model(line):
    """driver output -> ('OK', [(kind, shape, cells)]) | ('ERR', text) | ('FUEL',) | ('BAD', text)"""
    toks = line.split()
    if not toks:
        return ("BAD", line)
    if toks[0] != "OK":
        return (toks[0], " ".join(toks[1:]))
    out = []
    for t in toks[1:]:
        if t[1] == ":" and t[0] in "ifb":
            kind = t[0]
            out.append((kind, (), [parse_cell(kind.upper(), t[2:])]))
        else:
            lb = t.index("[")
            head, body = t[:lb], t[lb + 1:-1]
            kind = head[0]
            cells = [parse_cell(kind, c) for c in body.split(",")] if body else []
            if len(head) == 1:
                shape = (len(cells),)
            else:
                _, c, r = head.split(":")
                shape = (int(r), int(c))
            out.append((kind, shape, cells))
    return ("OK", out)


def parse_cell(kind, s):
    if kind == "F":
        if s == "nan":
            return None
        if "/" in s:
            return Fraction(s)           # exact value, not in ticks
        return int(s)                    # ticks
    return int(s)


def cell_eq(kind, real, model):
    if kind != "F":
        return real == model
    if real is None or model is None:
        return real is None and model is None
    if real == "inf":
        return False
    x = real[1]
    if isinstance(model, int):
        return int(round(x * 1e9)) == model
    return abs(x - float(model)) <= 1e-9 * max(1.0, abs(x))


def values_eq(real, model):
    if len(real) != len(model):
        return False
    for (rk, rs, rc), (mk, ms, mc) in zip(real, model):
        if rk != mk or len(rc) != len(mc):
            return False
        if len(rs) == 2 and len(rc) > 0 and tuple(rs) != tuple(ms):
            return False
        if len(rs) != len(ms) and not (len(rs) == 2 and len(ms) == 2):
            return False
        if len(rs) == 2 and (rs[0] != ms[0] or (rs[0] > 0 and rs[1] != ms[1])):
            return False
        if not all(cell_eq(rk, a, b) for a, b in zip(rc, mc)):
            return False
    return True


def real_eq(a, b):
    """two real results: identical after tick conversion (NaN == NaN)"""
    def tick(kind, c):
        if kind != "F" or c is None or c == "inf":
            return c
        return int(round(c[1] * 1e9)) if abs(c[1]) < 1e6 else c[1]
    if len(a) != len(b):
        return False
    return all(x[0] == y[0] and x[1] == y[1] and
               [tick(x[0], c) for c in x[2]] == [tick(y[0], c) for c in y[2]] for x, y in zip(a, b))


def run_real(fn, args):
    try:
        return ("OK", canon_real(fn(*[np.copy(a) if isinstance(a, np.ndarray) else a for a in args])))
    except (IndexError, UnboundLocalError, NameError) as e:
        return ("ERR", f"{type(e).__name__}: {e}")
    except (ZeroDivisionError, ValueError, AssertionError) as e:
        return ("EXC", f"{type(e).__name__}: {e}")


def run_model(lines):
    p = subprocess.run([DRIVER], input="\n".join(lines) + "\n", capture_output=True, text=True, timeout=600)
    if p.returncode != 0:
        raise RuntimeError(f"jitdriver failed: {p.stderr[:500]}")
    out = p.stdout.splitlines()
    if len(out) != len(lines):
        raise RuntimeError(f"jitdriver printed {len(out)} lines for {len(lines)} cases")
    return out


def compare_many(name, cases):
    """cases: list of argument-descriptor lists.  Returns one dict per case."""
    disp = kernels()[name]
    lines = [model_line(name, a) for a in cases]
    mout = run_model(lines)
    res = []
    for args, line, ml in zip(cases, lines, mout):
        rargs = [real_arg(a) for a in args]
        model = parse_model(ml)
        py = run_real(disp.py_func, rargs)
        # without bounds checking a compiled out-of-bounds access is silent garbage (or a crash):
        # do not even run the compiled kernel when the reference legs say the case is unsafe
        unsafe = model[0] == "ERR" or py[0] == "ERR"
        comp = run_real(disp, rargs) if (BC or not unsafe) else ("SKIPPED", "unsafe case, no bounds checking")
        problems = []
        if model[0] in ("BAD", "FUEL"):
            problems.append(f"model: {ml}")
        if (model[0] == "ERR") != (py[0] == "ERR"):
            problems.append(f"model {ml!r} vs py_func {py[0]} {py[1] if py[0] != 'OK' else ''}")
        if model[0] == "OK" and py[0] == "OK" and not values_eq(py[1], model[1]):
            problems.append("py_func result differs from model")
        if comp[0] == "OK" and py[0] == "OK" and not real_eq(comp[1], py[1]):
            problems.append("compiled result differs from py_func")
        if comp[0] == "OK" and model[0] == "OK" and not values_eq(comp[1], model[1]):
            problems.append("compiled result differs from model")
        if comp[0] not in ("OK", "SKIPPED") and comp[0] != py[0]:
            problems.append(f"compiled {comp[0]} {comp[1]} vs py_func {py[0]}")
        if BC and (comp[0] == "ERR") != (model[0] == "ERR"):
            problems.append(f"bounds-checked compiled {comp[0]} vs model {ml!r}")
        res.append({"kernel": name, "args": args, "model_line": line, "model": ml,
                    "pyfunc": py, "compiled": comp, "agree": not problems, "problems": problems,
                    "unsafe": unsafe})
    return res


def compare(kernel_name, args):
    return compare_many(kernel_name, [args])[0]


# ---------- generators (public-call preconditions) ----------
def r_sorted(rng, n, hi=6):
    return sorted(rng.randrange(0, hi) * U for _ in range(n))


def r_any(rng, n, hi=6):
    return [rng.randrange(0, hi) * U for _ in range(n)]


def r_iset(rng, m, hi=7):
    """canonical interval set with m intervals on the lattice (strictly increasing endpoints)"""
    pts = sorted(rng.sample(range(0, max(hi, 2 * m + 1)), 2 * m))
    return [p * U for p in pts[0::2]], [p * U for p in pts[1::2]]


def r_iset_half(rng, m):
    """canonical interval set on the half-unit lattice, so that samples can fall strictly between"""
    pts = sorted(rng.sample(range(0, 14), 2 * m))
    return [p * U // 2 for p in pts[0::2]], [p * U // 2 for p in pts[1::2]]


def restrict_py(ta, s, e):
    idx, cnt, k = [], [0] * len(s), 0
    for i, t in enumerate(ta):
        for k in range(len(s)):
            if s[k] <= t <= e[k]:
                idx.append(i)
                cnt[k] += 1
                break
    return idx, cnt


def g_scan(rng):
    ta = r_sorted(rng, rng.randrange(0, 4)) if rng.random() < 0.8 else r_any(rng, rng.randrange(0, 4))
    m = rng.randrange(0, 4)
    if rng.random() < 0.6:
        s, e = r_iset_half(rng, m)
    else:
        s, e = r_any(rng, m), r_any(rng, m)
    return [("F", ta), ("F", s), ("F", e)]


def g_restrict_with_count(rng):
    return g_scan(rng) + [("dtype",)]


def g_valuefrom(rng):
    m = rng.randrange(0, 4)
    s, e = r_iset_half(rng, m)
    ta = r_sorted(rng, rng.randrange(0, 4))
    tt = r_sorted(rng, rng.randrange(0, 4))
    i1, c1 = restrict_py(ta, s, e)
    i2, c2 = restrict_py(tt, s, e)
    return [("F", [ta[i] for i in i1]), ("F", [tt[i] for i in i2]), ("I", c1), ("I", c2), ("F", s),
            ("i", rng.randrange(0, 3))]


def g_count(rng):
    ta = r_sorted(rng, rng.randrange(0, 4))
    m = rng.randrange(0, 4)
    if rng.random() < 0.7:
        s, e = r_iset_half(rng, m)
    else:
        s, e = r_any(rng, m), r_any(rng, m)
    b = rng.choice([U // 2, U, 2 * U, 3 * U])
    return [("F", ta), ("F", s), ("F", e), ("f", b), ("dtype",)]


def g_bin_array(rng):
    ta = r_sorted(rng, rng.randrange(0, 4))
    m = rng.randrange(0, 4)
    s, e = r_iset_half(rng, m)
    idx, cnt = restrict_py(ta, s, e)
    ta = [ta[i] for i in idx]
    d = r_any(rng, len(ta))
    b = rng.choice([U // 2, U, 2 * U, 3 * U])
    return [("I", cnt), ("F", ta), ("F", d), ("F", s), ("F", e), ("f", b)]


def g_remove_nan(rng):
    n = rng.randrange(1, 5)
    return [("F", r_sorted(rng, n)), ("B", [rng.randrange(0, 2) for _ in range(n)])]


def g_threshold(rng):
    m = rng.randrange(0, 4)
    s, e = r_iset_half(rng, m)
    ta = r_sorted(rng, rng.randrange(0, 5))
    idx, _ = restrict_py(ta, s, e)
    ta = [ta[i] for i in idx]
    d = r_any(rng, len(ta), 4)
    return [("F", ta), ("F", d), ("F", s), ("F", e), ("f", rng.randrange(0, 4) * U),
            ("tag", rng.choice(sorted(TAGS)))]


def g_two_isets(rng):
    a = r_iset_half(rng, rng.randrange(0, 4))
    b = r_iset_half(rng, rng.randrange(0, 4))
    return [("F", a[0]), ("F", a[1]), ("F", b[0]), ("F", b[1])]


def g_union_isets(rng):
    n = rng.randrange(0, 5)
    s, e = [], []
    for _ in range(n):
        a = rng.randrange(0, 6)
        b = rng.randrange(a + 1, 8)
        s.append(a * U)
        e.append(b * U)
    return [("F", s), ("F", e)]


def g_fix_iset(rng):
    n = rng.randrange(0, 5)
    if rng.random() < 0.5:
        return [("F", r_any(rng, n, 5)), ("F", r_any(rng, n, 5))]
    # microsecond-scale cases around the 1e-6 trimming.  Multiples of 2 us: a trimmed end (x - 1 us) then
    # never coincides with a lattice point, where float64 noise (3e-6 - 1e-6 > 2e-6) and the exact
    # rationals of the model legitimately differ (the float gap of DESIGN section 2, not a translation issue)
    return [("F", [rng.randrange(0, 4) * 2000 for _ in range(n)]), ("F", [rng.randrange(0, 4) * 2000 for _ in range(n)])]


def g_correlogram(rng):
    return [("F", r_sorted(rng, rng.randrange(0, 4))), ("F", r_sorted(rng, rng.randrange(0, 4))),
            ("f", rng.choice([U // 2, U, 2 * U])), ("f", rng.choice([0, U // 2, U, 2 * U, 3 * U]))]


def g_overlap_split(rng):
    s, e = r_iset_half(rng, rng.randrange(0, 4))
    return [("F", s), ("F", e), ("f", rng.choice([U // 2, U, 2 * U])),
            ("f", rng.choice([0, 250_000_000, 500_000_000, 750_000_000]))]


def g_perievent(rng):
    s, e = r_iset_half(rng, rng.randrange(0, 4))
    return [("F", r_sorted(rng, rng.randrange(0, 5))), ("F", r_sorted(rng, rng.randrange(0, 4))),
            ("F", s), ("F", e), ("I", [rng.randrange(0, 3), rng.randrange(0, 3)])]


def g_trigger_average(rng):
    m = rng.randrange(0, 3)
    s, e = r_iset_half(rng, m)
    ta = r_sorted(rng, rng.randrange(0, 5), 7)
    idx, _ = restrict_py(ta, s, e)
    ta = [ta[i] for i in idx]                       # bin centres inside the epochs
    N = rng.randrange(1, 3)
    ca = [rng.randrange(0, 3) * 1_000_000_000 for _ in range(len(ta) * N)]
    tt = r_sorted(rng, rng.randrange(0, 5), 7)
    da = r_any(rng, len(tt), 4)
    return [("F", ta), ("F2", N, ca), ("F", tt), ("Fcol", da), ("F", s), ("F", e),
            ("I", [rng.randrange(0, 3), rng.randrange(0, 3)]), ("f", rng.choice([U, 2 * U]))]


GENERATORS = {
    "jitrestrict": g_scan,
    "jitrestrict_with_count": g_restrict_with_count,
    "jitin_interval": g_scan,
    "jitunion_isets": g_union_isets,
    "_jitfix_iset": g_fix_iset,
    "jitintersect": g_two_isets,
    "jitunion": g_two_isets,
    "jitdiff": g_two_isets,
    "jitremove_nan": g_remove_nan,
    "jitthreshold": g_threshold,
    "jitcount": g_count,
    "jitvaluefrom": g_valuefrom,
    "_cross_correlogram": g_correlogram,
    "_jitcontinuous_perievent": g_perievent,
    "_jitbin_array": g_bin_array,
    "_overlap_split": g_overlap_split,
    "_jitperievent_trigger_average": g_trigger_average,
}


def self_test(names, n, seed, verbose=False):
    total_bad = 0
    report = {}
    for name in names:
        rng = random.Random(f"{seed}:{name}")
        seen, cases = set(), []
        tries = 0
        while len(cases) < n and tries < 20 * n:
            tries += 1
            a = GENERATORS[name](rng)
            key = repr(a)
            if key not in seen:
                seen.add(key)
                cases.append(a)
        res = compare_many(name, cases)
        bad = [r for r in res if not r["agree"]]
        unsafe = sum(1 for r in res if r["unsafe"])
        report[name] = {"cases": len(res), "disagreements": len(bad), "unsafe": unsafe}
        print(f"{name:28s} cases={len(res):4d} disagreements={len(bad):3d} model/py_func errors={unsafe}")
        for r in bad[:5]:
            print("   ", r["model_line"], "->", r["model"], "|", "; ".join(r["problems"]))
            if verbose:
                print("      py_func:", r["pyfunc"], "\n      compiled:", r["compiled"])
        total_bad += len(bad)
    return total_bad, report


if __name__ == "__main__":
    import argparse
    ap = argparse.ArgumentParser()
    ap.add_argument("kernels", nargs="*")
    ap.add_argument("-n", type=int, default=300)
    ap.add_argument("--seed", default="0")
    ap.add_argument("-v", action="store_true")
    ap.add_argument("--json")
    a = ap.parse_args()
    names = a.kernels or [k for k in GENERATORS]
    bad, rep = self_test(names, a.n, a.seed, a.v)
    if a.json:
        with open(a.json, "w") as fh:
            json.dump(rep, fh, indent=1, sort_keys=True)
    print("jitcmp:", "ALL AGREE" if bad == 0 else f"{bad} DISAGREEMENTS",
          "(bounds-checked compiled)" if BC else "")
    sys.exit(0 if bad == 0 else 1)
