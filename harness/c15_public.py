"""Degenerate and precondition-probing PUBLIC calls of C15.
run_calls() executes them in the current process (the caller chooses the mode: compiled with NUMBA_BOUNDSCHECK=1, or - run as a script with the
argument `pyfunc` - with every numba dispatcher of pynapple replaced by its interpreted twin `.py_func`, where an unassigned local raises
UnboundLocalError and an index past the end raises IndexError).
usage as a script: c15_public.py <out.json> pyfunc"""
import json
import sys
import warnings


def build_calls(string_probes=True):
    warnings.simplefilter("ignore")
    import numpy as np
    import pynapple as nap
    E = np.array([])
    ep = nap.IntervalSet([0.0, 10.0], [5.0, 15.0])
    ep_before = nap.IntervalSet(0.0, 1.0)
    empty_ep = nap.IntervalSet([], [])
    ts = nap.Ts(np.array([2.0, 3.0, 12.0]))
    tse = nap.Ts(E)
    tsd = nap.Tsd(np.array([2.0, 3.0, 12.0]), np.array([1.0, 2.0, 3.0]))
    tsde = nap.Tsd(E, E)
    one = nap.Ts(np.array([3.0]))
    oned = nap.Tsd(np.array([3.0]), np.array([1.0]))
    calls = {
        "empty.restrict(ep)": lambda: tse.restrict(ep), "ts.restrict(empty_ep)": lambda: ts.restrict(empty_ep), "ts.restrict(ep before data)": lambda: nap.Ts(np.array([20.0, 30.0])).restrict(ep_before),
        "empty.count(1.0, ep)": lambda: tse.count(1.0, ep), "ts.count(1.0, empty_ep)": lambda: ts.count(1.0, empty_ep), "ts.count(ep=empty_ep)": lambda: ts.count(ep=empty_ep),
        "emptytsd.bin_average(1.0, ep)": lambda: tsde.bin_average(1.0, ep), "ts.value_from(emptytsd, ep)": lambda: ts.value_from(tsde, ep), "empty.value_from(tsd, ep)": lambda: tse.value_from(tsd, ep),
        "ts.value_from(one-sample, before)": lambda: nap.Ts(np.array([0.0])).value_from(nap.Tsd(np.array([1.0, 1.0]), np.array([5.0, 6.0]))[0:1], nap.IntervalSet(0.0, 1.0), mode="before"),
        "TsGroup with an empty member": lambda: nap.TsGroup({0: ts, 1: tse, 2: ts}), "single-sample slice": lambda: one[0:1], "emptytsd.threshold": lambda: tsde.threshold(0.5),
        "one-sample tsd.threshold": lambda: oned.threshold(0.5), "zero-span tsd.threshold": lambda: nap.Tsd(np.array([3.0, 3.0]), np.array([1.0, 0.0])).threshold(0.5),
        "tsd.threshold multi-epoch": lambda: nap.Tsd(np.array([2.0, 12.0]), np.array([0.0, 1.0]), time_support=ep).threshold(0.5), "ep.in_interval(empty)": lambda: ep.in_interval(tse),
        "empty_ep.in_interval(ts)": lambda: empty_ep.in_interval(ts), "one-sample dropna": lambda: nap.Tsd(np.array([3.0, 4.0]), np.array([np.nan, 1.0])).dropna(),
        "IntervalSet(empty)": lambda: nap.IntervalSet(E, E), "ep.union(empty)": lambda: ep.union(empty_ep), "empty.intersect(ep)": lambda: empty_ep.intersect(ep), "empty.set_diff(ep)": lambda: empty_ep.set_diff(ep),
        "ep.set_diff(ep)": lambda: ep.set_diff(ep), "crosscorr with empty target": lambda: nap.compute_crosscorrelogram(nap.TsGroup({0: ts, 1: tse}, time_support=nap.IntervalSet(0.0, 20.0)), 1.0, 3.0),
        "perievent_continuous one sample": lambda: nap.compute_perievent_continuous(nap.Tsd(np.array([0.0, 1.0]), np.array([1.0, 2.0])), nap.Ts(np.array([0.5])), 1.0),
        "perievent_continuous no event": lambda: nap.compute_perievent_continuous(nap.Tsd(np.arange(5.0), np.arange(5.0)), nap.Ts(np.array([50.0])), 1.0, ep=nap.IntervalSet(0.0, 4.0)),
        # IEEE-only: a step lost to rounding at large |t| (exact rationals advance; doubles did not: fixed in d86eb2b)
        "mean_psd step absorbed by rounding": lambda: nap.compute_mean_power_spectral_density(nap.Tsd(1.7e9 + np.arange(0, 1, 0.001), np.arange(1000.0)), 1e-7),
        "_overlap_split step shrunk by rounding": lambda: __import__("pynapple.process.spectrum", fromlist=["x"])._overlap_split(np.array([1.7e9]), np.array([1.7e9 + 0.01]), 3.3e-7, 0.0),
        "mean_psd short": lambda: nap.compute_mean_power_spectral_density(nap.Tsd(np.arange(0, 2, 0.01), np.arange(200.0)), 0.5),
    }

    # precondition probes: arguments the wrappers must reject (or decode) BEFORE a kernel sees them - the kernels' safety theorems assume a decoded method / mode
    # (seed C15-5: a method name accepted case-insensitively by the validator and handed to the kernel verbatim)
    x5 = nap.Tsd(np.arange(5.0), np.array([1.0, 5.0, 2.0, 6.0, 3.0]))
    # (interpreted mode only: a compiled kernel reading an unassigned local may crash the process instead of raising)
    for m in ("Above", "BELOW", "AboveEqual", "belowEqual", "bla", "") if string_probes else ():
        calls["tsd.threshold(method=%r)" % m] = (lambda m=m: x5.threshold(2.5, m))
    for m in ("Closest", "BEFORE", "nearest", "") if string_probes else ():
        calls["ts.value_from(mode=%r)" % m] = (lambda m=m: nap.Ts(np.array([0.5, 2.5])).value_from(x5, mode=m))
    calls["tsd.threshold(numpy scalar thr)"] = lambda: x5.threshold(np.float32(2.5), "aboveequal")
    calls["count(bin_size numpy scalar)"] = lambda: ts.count(np.float64(1.0), ep)
    calls["count(bin_size int)"] = lambda: ts.count(1, ep)
    calls["bin_average(bin_size int)"] = lambda: tsd.bin_average(2, ep)
    calls["restrict twice to disjoint sets"] = lambda: tsd.restrict(nap.IntervalSet(100.0, 200.0)).restrict(ep)
    calls["group with a silent unit restricted"] = lambda: nap.TsGroup({0: ts, 1: nap.Ts(np.array([100.0]))}, time_support=nap.IntervalSet(0.0, 200.0)).restrict(ep)
    calls["empty tsd convolve(ep=)"] = lambda: tsde.convolve(np.ones(3), ep=ep)
    return calls


def run_calls(string_probes=True):
    out = []
    for label, f in build_calls(string_probes).items():
        try:
            f()
            out.append({"call": label, "outcome": "ok"})
        except (IndexError, UnboundLocalError) as ex:
            out.append({"call": label, "outcome": type(ex).__name__, "msg": str(ex)[:200]})
        except Exception as ex:
            out.append({"call": label, "outcome": "raised " + type(ex).__name__, "msg": str(ex)[:120]})
    return out


def use_pyfunc():
    """replace every numba dispatcher reachable as a module attribute of pynapple by its interpreted twin"""
    import importlib
    import pkgutil
    import pynapple
    n = 0
    for mi in pkgutil.walk_packages(pynapple.__path__, "pynapple."):
        try:
            mod = importlib.import_module(mi.name)
        except Exception:
            continue
        for k, v in list(vars(mod).items()):
            if hasattr(v, "py_func") and callable(getattr(v, "py_func")):
                setattr(mod, k, v.py_func)
                n += 1
    return n


if __name__ == "__main__":
    n = use_pyfunc()
    json.dump({"replaced": n, "public": run_calls()}, open(sys.argv[1], "w"), indent=1, default=str)
