"""C02 union / intersect / set_diff are the Boolean set operations on the time line.

Layout: (1) kernels + public wrappers on all order types (ndarray / float64 / seconds: the form the model is stated in);
(2) ARGUMENT FORMS: the same pairs with each operand handed over in a seeded form (make_form / build_iset), the operations
called positionally / by keyword / through the class, chains of two operations; (3) absorbing laws incl. the empty set in
each of its forms; (4) n-ary union through TsGroup supports.  One oracle (oracle_pub) = the statement, for every form."""
import json
import os
import random
import shutil
import tempfile
import warnings

import numpy as np

import common as C
import gen as G

LEVEL = "proof"
TRUSTED = ["models: coq/Model/Iset.v (inter_go, diff_go, union_go, union_n_go); theorems: InterDiffProofs.v, UnionProofs.v, C02Top.v, MeasureProofs.v; "
           "the public-result (wrapper) forms of the endpoint, commutativity, idempotence and duration clauses are proved in Properties/C02.v itself"]
ASSUMPTIONS = ["operands are canonical IntervalSets (C01)", "comparison/min/max-only kernels: behaviour is a function of the order type of the endpoints",
               "float_ambiguous counts ONLY the public-result interval [p - 1us, p - 1e-6] left by the constructor's un-rounded trim of an exactly 1us long interval "
               "whose end p touches a start of the other operand (zero-length on the ns grid, ~1e-22 s as floats); it is dropped before the comparison",
               "widened argument forms: every operand is first checked to denote exactly the generated tick list (whatever its unit, dtype, container, metadata, history), "
               "then the unchanged statement oracle is applied; an infinite endpoint (unbounded interval) is idealised as the tick +-10**18 (the kernels only compare, "
               "the model is over Z) and the duration clause, which says nothing about infinite durations, is not evaluated for unbounded operands; "
               "metadata carried by operands / results is outside the statement (only the time content of the results is judged)"]


def _nap():
    import pynapple as nap
    from pynapple.core import _jitted_functions as J
    return nap, J


AMB = [0]


def junctions(A, B):
    """the instants where an interval of one operand ends exactly where an interval of the other starts"""
    return (set(e for _, e in A) & set(s for s, _ in B)) | (set(e for _, e in B) & set(s for s, _ in A))


BIG = 10 ** 18          # the tick standing for an infinite endpoint (unbounded intervals [-inf, e], [s, +inf]); finite times are < 1e15 ticks


def _ns(x):
    x = float(x)
    return BIG if x == float("inf") else -BIG if x == float("-inf") else C.to_ns(x)


def tk(st, en, trims=()):
    """ticks of an interval list.  The constructor trims an end p that touches the next start to the float p - 1e-6, which is
    not rounded to ns; when the trimmed interval was exactly 1 us long, [p - 1us, p - 1e-6] stays proper as floats (a few
    1e-22 s long) while it is the zero-length [p - 1us, p - 1us] on ticks.  That interval, and nothing else, is float_ambiguous
    (dropped and counted): `trims` are the instants p at which a trim can happen.  Raw kernel outputs are never trimmed (trims = ());
    any other interval that is zero-length on ticks is kept and fails the checks."""
    out = []
    for s, e in zip(st, en):
        a, b = _ns(s), _ns(e)
        if a == b and s < e and a + 1000 in trims:
            AMB[0] += 1
            continue
        out.append((a, b))
    return out


def parse_iset(s):
    v = [int(x) for x in s.split()]
    return list(zip(v[0::2], v[1::2]))


def probes(A, B):
    """instants farther than 1us from every endpoint, one per elementary region (+ a few inside)"""
    eps = sorted(set([x for iv in A + B for x in iv]))
    if not eps:
        return [0]
    pts = [eps[0] - 5000, eps[-1] + 5000]
    for a, b in zip(eps, eps[1:]):
        if b - a > 2 * 1000 + 1:
            pts += [a + 1001, (a + b) // 2, b - 1001]
    return pts


def oracle_pub(name, A, B, R, res, inp):
    junc = junctions(A, B)
    for x in probes(A, B):
        a, b, r = G.mem(x, A), G.mem(x, B), G.mem(x, R)
        want = (a or b) if name == "union" else (a and b) if name == "intersect" else (a and not b)
        if r != want:
            res.violations.append({"key": {"op": name, "part": "membership", "operands_touch": bool(junc)},
                                   "what": "%s is not the Boolean operation at an instant farther than 1us from every endpoint" % name,
                                   "input": inp, "x": x, "impl": R})
            return False
    # every start of the result is a start or an end of an operand; every end is an endpoint of an operand, or the instant of a
    # touch (end of one operand = start of the other: the only place where the 1 us touch-separation acts) minus 1 us
    eps = set(x for iv in A + B for x in iv)
    for s, e in R:
        if s not in eps or not (e in eps or e + 1000 in junc):
            res.violations.append({"key": {"op": name, "part": "endpoints", "start_is_operand_endpoint": s in eps,
                                           "end_is_operand_endpoint_minus_1us": e + 1000 in eps, "operands_touch": bool(junc)},
                                   "what": "an endpoint of the result is not an endpoint of an operand (nor a touch instant minus 1us)",
                                   "input": inp, "impl": R})
            return False
    return True


# ----------------------------------------------------------------------------------------------------------------------
# ARGUMENT FORMS.  A `form` is a small JSON-able dict that fully determines how the operand with tick list A is handed to the
# library (no randomness inside build_iset: every random choice is made by make_form from the seeded rng, so that a replay
# file rebuilds exactly the same objects).  Whatever the form, the operand denotes the SAME instants, hence the statement's
# oracle (oracle_pub) applies unchanged.
UNIT_NS = {"s": 10 ** 9, "ms": 10 ** 6, "us": 10 ** 3}
INT_DTYPES = ["int64", "int32", "int16", "int8", "uint8", "uint16", "uint32", "uint64"]
SMALL_DTYPES = INT_DTYPES + ["float32", "float16", "bool"]
CONT_ANY = ["ndarray", "list", "tuple", "list_np", "series", "series_idx", "pd_index", "col2d", "strided", "readonly",
            "dataframe", "dataframe_rev", "iset"]
CONT_N1 = ["pairs_array", "pairs_list", "pairs_tuple"]                     # need >= 1 interval (an empty pair list is rejected)
CONT_ONE = ["one_pair", "scalar_py", "scalar_np", "zero_d"]                # exactly one interval
CONT_TS = ["tsindex", "ts_t", "ts_index_values", "ts_times"]               # another object's time index (float64 only)
HIST = ["copy_ctor", "bigger_slice", "bigger_intarr", "bigger_list", "bigger_mask", "bigger_loc", "bigger_slice_colon", "bigger_number",
        "npz", "pickle", "deepcopy", "copy", "via_dataframe", "via_units_s", "via_units_ms", "via_units_us", "via_values",
        "op_union_empty", "op_intersect_self", "op_set_diff_empty", "tsd_support", "restrict_support"]
# an infinite endpoint is not a time stamp of a series, not a whole number of microseconds, and leaves no room for a bigger set
HIST_UNBOUNDED = ["copy_ctor", "npz", "pickle", "deepcopy", "copy", "via_dataframe", "via_units_s", "via_units_ms", "via_values",
                  "op_union_empty", "op_intersect_self", "op_set_diff_empty"]
OPS = ("union", "intersect", "set_diff")
NOMETA = ("none", "none_explicit")        # metadata left out / metadata=None spelled out (the documented default)


def _dtype_ok(ticks, unit, dt):
    q = UNIT_NS[unit]
    if dt == "float64":
        return True
    if any(abs(t) >= BIG for t in ticks):
        return False
    if any(t % q for t in ticks):
        return False
    v = [t // q for t in ticks]
    if dt == "bool":
        return all(x in (0, 1) for x in v)
    if dt == "float32":
        return all(abs(x) <= 2 ** 24 for x in v)
    if dt == "float16":
        return all(abs(x) <= 2048 for x in v)
    ii = np.iinfo(dt)
    return all(ii.min <= x <= ii.max for x in v)


def _extra(A, unit):
    """the two far intervals added around A by the `bigger_*` histories (in whole units, so that integer dtypes stay possible)"""
    q = UNIT_NS[unit]
    lo = A[0][0] if A else 0
    hi = A[-1][1] if A else 0
    return (lo - 8 * q, lo - 4 * q), (hi + 4 * q, hi + 8 * q)


def make_form(rng, A, side, shared_names=True, plain=0.15):
    """draw one argument form for the operand A (`side` = 'A' / 'B' / 'C' names its private metadata columns)"""
    n = len(A)
    if rng.random() < plain:
        return {"side": side, "container": "ndarray", "unit": "s", "unit_style": "default", "arg_style": "pos", "dtype": "float64", "meta": "none",
                "meta_cols": [], "history": "direct", "before": False}
    unbounded = any(abs(x) >= BIG for iv in A for x in iv)
    hist = rng.choice(HIST_UNBOUNDED if unbounded else HIST) if rng.random() < 0.45 else "direct"
    if hist == "bigger_number" and n != 1:
        hist = "bigger_slice"
    if hist in ("bigger_list", "bigger_loc") and n == 0:      # ep[[]] is the (empty) list-of-column-names form: not an interval selection
        hist = "bigger_intarr"
    if hist == "via_values" and n == 0:
        hist = "via_dataframe"
    unit = rng.choice(["s", "ms", "us"])
    whole = [u for u in ("s", "ms", "us") if not any(x % UNIT_NS[u] for iv in A for x in iv if abs(x) < BIG)]
    if whole and rng.random() < 0.5:          # prefer a unit in which the instants are whole numbers: integer / float32 dtypes become possible
        unit = rng.choice(whole)
    if hist == "via_units_us" and any(x % 1000 for iv in A for x in iv):   # as_units('us') returns whole microseconds
        hist = "via_units_ms"
    before = hist.startswith("bigger") and rng.random() < 0.5
    ext = list(A)
    if hist.startswith("bigger"):
        b4, aft = _extra(A, unit)
        ext = ([b4] if before else []) + ext + [aft]
    ticks = [x for iv in ext for x in iv]
    dts = [d for d in SMALL_DTYPES if _dtype_ok(ticks, unit, d)]
    dtype = rng.choice(dts) if dts and rng.random() < 0.7 else "float64"
    conts = list(CONT_ANY)
    if len(ext) >= 1:
        conts += CONT_N1
    if len(ext) == 1:
        conts += CONT_ONE * 2
    if dtype == "float64" and not unbounded:
        conts += CONT_TS
    if dtype == "float16":
        conts = [c for c in conts if c not in ("pd_index",)]                 # pandas has no float16 Index
    if dtype == "bool":
        conts = [c for c in conts if c not in ("scalar_np",)]                # np.bool_ is not a number: not an accepted scalar
    cont = rng.choice(conts)
    two = cont not in CONT_N1 + ["one_pair", "dataframe", "dataframe_rev", "iset"]
    unit_style = rng.choice(["default", "pos", "kw"] if unit == "s" else ["pos", "kw"])
    arg_style = rng.choice(["pos", "kw"])
    meta = rng.choice(["none", "none_explicit"] if rng.random() < 0.5 else ["dict", "df", "set_info_kw", "set_info_df", "setitem"])
    if cont in ("dataframe", "dataframe_rev") and meta not in NOMETA:
        meta = "in_frame"
    cols = []
    if meta not in NOMETA:
        kinds = ["int", "str", "float"]
        cols.append(["lab" if shared_names else "lab" + side, rng.choice(kinds)])
        if rng.random() < 0.6:
            cols.append(["w" + side, rng.choice(kinds)])
    return {"side": side, "container": cont, "unit": unit, "unit_style": unit_style, "arg_style": arg_style if two else rng.choice(["pos", "kw"]),
            "dtype": dtype, "meta": meta, "meta_cols": cols, "history": hist, "before": before}


def _meta_vals(kind, n, salt):
    if kind == "int":
        return [salt + 10 + i for i in range(n)]
    if kind == "str":
        return ["x%d_%d" % (salt, i) for i in range(n)]
    return [salt + 0.5 * i for i in range(n)]


def build_iset(nap, A, form, tmpdir=None):
    """the IntervalSet denoting the tick list A, handed to the library in the given form"""
    import copy as _copy
    import pickle as _pickle
    import pandas as pd
    unit, dt, cont, hist = form["unit"], form["dtype"], form["container"], form["history"]
    q = UNIT_NS[unit]
    ext = list(A)
    i0 = 0
    if hist.startswith("bigger"):
        b4, aft = _extra(A, unit)
        ext = ([b4] if form["before"] else []) + ext + [aft]
        i0 = 1 if form["before"] else 0
    n = len(ext)
    st, en = [s for s, _ in ext], [e for _, e in ext]

    def vals(t):
        if dt == "float64":
            v = G.arr(t) if unit == "s" else (np.asarray(t, dtype=np.float64) / (q / 1.0) if len(t) else np.array([], dtype=np.float64))
            for i, x in enumerate(t):
                if abs(x) >= BIG:
                    v[i] = np.inf if x > 0 else -np.inf
            return v
        return np.asarray([x // q for x in t], dtype=dt)
    sv, ev = vals(st), vals(en)
    salt = {"A": 0, "B": 100, "C": 200}.get(form.get("side", "A"), 0)
    mcols = {name: _meta_vals(kind, n, salt + 1000 * k) for k, (name, kind) in enumerate(form["meta_cols"])}
    kw = {}
    if form["meta"] == "dict":
        kw["metadata"] = dict(mcols)
    elif form["meta"] == "df":
        kw["metadata"] = pd.DataFrame(mcols)
    elif form["meta"] == "none_explicit":
        kw["metadata"] = None
    # ---- the arguments
    end_given = True
    if cont == "ndarray":
        s, e = sv, ev
    elif cont == "list":
        s, e = sv.tolist(), ev.tolist()
    elif cont == "tuple":
        s, e = tuple(sv.tolist()), tuple(ev.tolist())
    elif cont == "list_np":
        s, e = list(sv), list(ev)
    elif cont == "series":
        s, e = pd.Series(sv), pd.Series(ev)
    elif cont == "series_idx":
        s, e = pd.Series(sv, index=np.arange(n)[::-1] + 5), pd.Series(ev, index=["k%d" % i for i in range(n)])
    elif cont == "pd_index":
        s, e = pd.Index(sv), pd.Index(ev)
    elif cont == "col2d":
        s, e = sv[:, None], ev[None, :]
    elif cont == "strided":
        buf = np.zeros((n, 3), dtype=sv.dtype)
        buf[:, 0], buf[:, 2] = sv, ev
        s, e = buf[:, 0], buf[:, 2]
    elif cont == "readonly":
        s, e = sv.copy(), ev.copy()
        s.flags.writeable = False
        e.flags.writeable = False
    elif cont in ("dataframe", "dataframe_rev"):
        d = {"start": sv, "end": ev}
        d.update(mcols)
        df = pd.DataFrame(d)
        if cont == "dataframe_rev":
            df = df[list(df.columns[::-1])]
        s, e, end_given = df, None, False
    elif cont == "iset":
        s, e, end_given = nap.IntervalSet(sv, ev, time_units=unit), None, False
    elif cont == "pairs_array":
        s, e, end_given = np.c_[sv, ev], None, False
    elif cont == "pairs_list":
        s, e, end_given = [list(p) for p in zip(sv.tolist(), ev.tolist())], None, False
    elif cont == "pairs_tuple":
        s, e, end_given = tuple(zip(sv.tolist(), ev.tolist())), None, False
    elif cont == "one_pair":
        s, e, end_given = (sv.tolist()[0], ev.tolist()[0]), None, False
    elif cont == "scalar_py":
        s, e = sv.tolist()[0], ev.tolist()[0]
    elif cont == "scalar_np":
        s, e = sv[0], ev[0]
    elif cont == "zero_d":
        s, e = np.array(sv[0]), np.array(ev[0])
    elif cont in CONT_TS:
        ts_s, ts_e = nap.Ts(G.arr(st)), nap.Ts(G.arr(en))
        if cont == "tsindex":
            s, e = ts_s.index, ts_e.index
        elif cont == "ts_t":
            s, e = ts_s.t, ts_e.t
        elif cont == "ts_index_values":
            s, e = ts_s.index.values, ts_e.index.values
        else:
            s, e = ts_s.times(unit), ts_e.times(unit)
    else:
        raise ValueError(cont)
    u = "s" if (cont == "iset" or (cont in CONT_TS and cont != "ts_times")) else unit     # those hold seconds already
    style = form["unit_style"]
    if u != "s" and style == "default":
        style = "kw"
    if u == "s" and unit != "s" and style == "pos":
        style = "default"
    args, kwargs = [], dict(kw)
    if form["arg_style"] == "kw":
        kwargs["start"] = s
        if end_given or style == "pos":
            kwargs["end"] = e
        if style != "default":
            kwargs["time_units"] = u
    else:
        args.append(s)
        if end_given or style == "pos":
            args.append(e)                     # end=None spelled out: the documented default
        if style == "pos":
            args.append(u)
        elif style == "kw":
            kwargs["time_units"] = u
    ep = nap.IntervalSet(*args, **kwargs)
    if form["meta"] == "set_info_kw":
        ep.set_info(**{k: np.array(v) for k, v in mcols.items()})
    elif form["meta"] == "set_info_df":
        ep.set_info(pd.DataFrame(mcols))
    elif form["meta"] == "setitem":
        for k, v in mcols.items():
            ep[k] = v
    # ---- the history
    m = len(A)
    if hist in ("direct",):
        pass
    elif hist == "copy_ctor":
        ep = nap.IntervalSet(ep)
    elif hist == "bigger_slice":
        ep = ep[i0:i0 + m]
    elif hist == "bigger_slice_colon":
        ep = ep[i0:i0 + m, :]
    elif hist == "bigger_intarr":
        ep = ep[np.arange(i0, i0 + m)]
    elif hist == "bigger_list":
        ep = ep[list(range(i0, i0 + m))]
    elif hist == "bigger_mask":
        mask = np.zeros(n, dtype=bool)
        mask[i0:i0 + m] = True
        ep = ep[mask]
    elif hist == "bigger_loc":
        ep = ep.loc[list(range(i0, i0 + m))]
    elif hist == "bigger_number":
        ep = ep[i0]
    elif hist == "npz":
        path = os.path.join(tmpdir or tempfile.gettempdir(), "wd_c02_%d.npz" % os.getpid())
        ep.save(path)
        ep = nap.load_file(path)
        os.remove(path)
    elif hist == "pickle":
        ep = _pickle.loads(_pickle.dumps(ep))
    elif hist == "deepcopy":
        ep = _copy.deepcopy(ep)
    elif hist == "copy":
        ep = _copy.copy(ep)
    elif hist == "via_dataframe":
        ep = nap.IntervalSet(ep.as_dataframe())
    elif hist.startswith("via_units_"):
        uu = hist[len("via_units_"):]
        ep = nap.IntervalSet(ep.as_units(uu), time_units=uu)
    elif hist == "via_values":
        ep = nap.IntervalSet(ep.values)
    elif hist == "op_union_empty":
        ep = ep.union(nap.IntervalSet([], []))
    elif hist == "op_intersect_self":
        ep = ep.intersect(ep)
    elif hist == "op_set_diff_empty":
        ep = ep.set_diff(nap.IntervalSet(start=np.array([]), end=np.array([])))
    elif hist == "tsd_support":
        t = G.arr([s_ for s_, _ in A])
        ep = nap.Tsd(t=t, d=np.arange(len(t)), time_support=ep).time_support
    elif hist == "restrict_support":
        t = G.arr(sorted(set([x for iv in A for x in iv] + [(A[0][0] if A else 0) - 7])))
        ep = nap.Ts(t=t).restrict(ep).time_support
    else:
        raise ValueError(hist)
    return ep


class OpFailure(Exception):
    def __init__(self, name, ex):
        Exception.__init__(self, "%s raises %s: %s" % (name, type(ex).__name__, str(ex)[:200]))
        self.name, self.exc = name, type(ex).__name__


def call_op(nap, name, a, b, style):
    """a.<name>(b) positionally / by keyword (`a` is the documented parameter name) / through the class"""
    try:
        if style == "kw":
            r = getattr(a, name)(a=b)
        elif style == "unbound":
            r = getattr(nap.IntervalSet, name)(a, b)
        else:
            r = getattr(a, name)(b)
    except Exception as ex:
        raise OpFailure(name, ex)
    if not isinstance(r, nap.IntervalSet):
        raise OpFailure(name, TypeError("result is a %s, not an IntervalSet" % type(r).__name__))
    return r


def transform(X, scale, off):
    return [(s * scale + off, e * scale + off) for s, e in X]


def unbound(rng, X):
    X = list(X)
    if X and rng.random() < 0.6:
        X[0] = (-BIG, X[0][1])
    if X and rng.random() < 0.6:
        X[-1] = (X[-1][0], BIG)
    return X


def is_unbounded(*sets):
    return any(abs(x) >= BIG for X in sets for iv in X for x in iv)


def place(rng, sets):
    """time placement of a case: scale of the lattice (us / ms / s) and offset (0, +-1e5 s, 3 s, straddling 0)"""
    scale = rng.choice([1, 1, 1000, 10 ** 6])
    eps = [x * scale for X in sets for iv in X for x in iv]
    g = 1000 * scale
    straddle = -(((min(eps) + max(eps)) // 2) // g) * g if eps else 0
    off = rng.choice([0, 0, 10 ** 14, -10 ** 14, 3 * 10 ** 9, straddle])
    name = "0" if off == 0 else "+1e5s" if off == 10 ** 14 else "-1e5s" if off == -10 ** 14 else "+3s" if off == 3 * 10 ** 9 else "straddle_0"
    return scale, off, name


def count_form(res, f):
    for k in ("container", "unit", "dtype", "meta", "history"):
        res.count("form:%s=%s" % (k, f[k]))
    res.count("form:time_units_passed=%s" % f["unit_style"])
    res.count("form:start_end_passed=%s" % f["arg_style"])


def public_checks(res, nap, A, B, a, b, o3, inp, call="pos", order=(0, 1, 2), durations=True):
    """the statement on the public results of one pair of live operands a, b (denoting the tick lists A, B): membership at far
    instants, endpoints, commutativity, durations; + agreement with the model's public results o3 = (intersect, set_diff, union).
    `order` = the order in which the three operations are called on the SAME live objects."""
    junc = junctions(A, B)
    got = {}
    for k in order:
        got[OPS[k]] = call_op(nap, OPS[k], a, b, call)
    pu, pi, pd_ = got["union"], got["intersect"], got["set_diff"]
    Ru, Ri, Rd = tk(pu.start, pu.end, junc), tk(pi.start, pi.end, junc), tk(pd_.start, pd_.end, junc)
    res.evaluations += 3
    for name, R, k in (("union", Ru, 2), ("intersect", Ri, 0), ("set_diff", Rd, 1)):
        oracle_pub(name, A, B, R, res, inp)
        if o3 is not None and R != parse_iset(o3[k]):
            res.disagreements.append({"op": name, "input": inp, "impl": R, "model": o3[k]})
    # commutativity, idempotence, durations (up to 1us per junction)
    for name, R, R2 in (("union", Ru, call_op(nap, "union", b, a, call)), ("intersect", Ri, call_op(nap, "intersect", b, a, call))):
        if tk(R2.start, R2.end, junc) != R:
            res.violations.append({"key": {"op": "commutativity", "part": name, "operands_touch": bool(junc)},
                                   "what": "%s is not commutative" % name, "input": inp, "impl": [R, tk(R2.start, R2.end, junc)]})
    # a junction is an instant where one operand ends and the other starts: the only place where 1us can go missing
    L = lambda R: sum(e - s for s, e in R)
    tol = 1000 * len(junc)
    res.count("touch_instants=%d" % min(len(junc), 3))
    if not durations:            # an unbounded operand: the durations are infinite, the statement's duration clause says nothing
        return Ru, Ri, Rd, got
    if abs(L(Ru) + L(Ri) - L(A) - L(B)) > tol:
        res.violations.append({"key": {"op": "durations", "part": "union_identity", "operands_touch": bool(junc)},
                               "what": "|A union B| + |A intersect B| differs from |A| + |B| by more than 1us per touch instant", "input": inp,
                               "impl": {"union": Ru, "inter": Ri}, "off_by_ns": L(Ru) + L(Ri) - L(A) - L(B), "touch_instants": len(junc)})
    if abs(L(Rd) - (L(A) - L(Ri))) > tol:
        res.violations.append({"key": {"op": "durations", "part": "diff_identity", "operands_touch": bool(junc)},
                               "what": "|A set_diff B| differs from |A| - |A intersect B| by more than 1us per touch instant", "input": inp,
                               "impl": {"inter": Ri, "diff": Rd}, "off_by_ns": L(Rd) - (L(A) - L(Ri)), "touch_instants": len(junc)})
    return Ru, Ri, Rd, got


def build_checked(res, nap, X, form, inp, tmpdir):
    """build the operand in its form; the operand must denote exactly the instants X (same instants in every unit / dtype / container)"""
    try:
        x = build_iset(nap, X, form, tmpdir)
    except Exception as ex:       # every generated form is one the documented signature accepts
        res.violations.append({"key": {"op": "operand", "part": "exception", "exc": type(ex).__name__, "container": form["container"],
                                       "history": form["history"], "meta": form["meta"] not in NOMETA},
                               "what": "building an operand in an accepted argument form raises: %s" % str(ex)[:200], "input": inp, "form": form})
        return None
    got = tk(x.start, x.end)
    if not isinstance(x, nap.IntervalSet) or got != [tuple(iv) for iv in X]:
        res.violations.append({"key": {"op": "operand", "part": "instants", "container": form["container"], "unit": form["unit"],
                                       "float64": form["dtype"] == "float64", "history": form["history"]},
                               "what": "an operand given in another argument form (unit / dtype / container / history) does not denote the same instants",
                               "input": inp, "form": form, "impl": got, "expected": X})
        return None
    return x


def _empty_forms():
    import pandas as pd
    return {
        "lists": lambda nap: nap.IntervalSet([], []),
        "ndarrays_kw": lambda nap: nap.IntervalSet(start=np.array([]), end=np.array([])),
        "tuples_ms": lambda nap: nap.IntervalSet((), (), "ms"),
        "series_us": lambda nap: nap.IntervalSet(pd.Series([], dtype=np.float64), pd.Series([], dtype=np.float64), time_units="us"),
        "uint8": lambda nap: nap.IntervalSet(np.array([], dtype=np.uint8), np.array([], dtype=np.uint8)),
        "dataframe": lambda nap: nap.IntervalSet(pd.DataFrame({"start": [], "end": []})),
        "with_metadata": lambda nap: nap.IntervalSet([], [], metadata={"lab": []}),
        "result_of_set_diff": lambda nap: nap.IntervalSet(0, 1).set_diff(nap.IntervalSet(0, 1)),
        "empty_selection": lambda nap: nap.IntervalSet([0, 2], [1, 3])[0:0],
    }


EMPTY_FORMS = _empty_forms()


def absorbing(res, nap, A, a, e0, call, inp):
    """A op A, A op empty, empty op A"""
    op = lambda name, x, y: call_op(nap, name, x, y, call)
    for part, R, want in (("A union A", op("union", a, a), A), ("A intersect A", op("intersect", a, a), A), ("A set_diff A", op("set_diff", a, a), []),
                          ("A union empty", op("union", a, e0), A), ("empty union A", op("union", e0, a), A), ("A intersect empty", op("intersect", a, e0), []),
                          ("empty intersect A", op("intersect", e0, a), []), ("A set_diff empty", op("set_diff", a, e0), A),
                          ("empty set_diff A", op("set_diff", e0, a), [])):
        if tk(R.start, R.end) != [tuple(iv) for iv in (A if want else [])]:
            res.violations.append({"key": {"op": "idempotence", "part": part}, "what": "%s is not %s" % (part, "A" if want else "empty"),
                                   "input": inp, "impl": tk(R.start, R.end)})


def run(res, tier, seed):
    nap, J = _nap()
    warnings.simplefilter("ignore")
    N = 8 if tier == "quick" else 9
    AMB[0] = 0
    # lattice step 2us so that 'farther than 1us from every endpoint' probes exist between lattice points
    pts = G.lattice(N, step=4000)
    S = G.canonical_isets(pts, 3 if tier == "quick" else 4)
    rng = random.Random(seed * 31 + 5)
    res.rule = ("kernels: ALL ordered pairs of canonical sets with <=3(4) intervals on an %d-point lattice [complete over endpoint order types incl. shared starts/ends, "
                "end==start touches, nested, identical, empty] compared with the extracted models (incl. parent indices) and with the point-membership oracle; "
                "+ a sample of the same pairs on a 1us-step lattice (1us/2us intervals and gaps) + seeded random larger pairs with 1ns..1us gaps and coinciding endpoints; "
                "public union/intersect/set_diff: same pairs (every 4th(3rd)): membership at far instants, endpoints (starts exact, ends exact or touch instant - 1us), "
                "commutativity and idempotence at list level, durations exact up to 1us per touch instant; TsGroup supports for 1,2,>=3 members incl. empty members. "
                "non-trivial = both non-empty; distinct = distinct (A,B)" % N)
    res.exhaustive = True
    pairs = [(A, B) for A in S for B in S]
    if tier == "quick":
        pairs = rng.sample(pairs, 5000) + [(A, A) for A in S] + [(A, []) for A in S] + [([], A) for A in S]
    # the same order types on a 1us lattice: intervals and gaps of exactly 1us / 2us, so that the constructor's 1us trim at a touch
    # empties an interval or meets the previous endpoint (no far instant between neighbouring points there: these pairs exercise
    # the endpoint, algebra, duration and model-agreement checks)
    S1 = [[(s // 4, e // 4) for s, e in A] for A in S]
    pairs += rng.sample([(A, B) for A in S1 for B in S1], 1500 if tier == "quick" else 20000)
    # + random larger
    for _ in range(300 if tier == "quick" else 5000):
        A = G.rand_canonical_iset(rng, 7)
        B = G.rand_canonical_iset(rng, 7, coincide=[x for iv in A for x in iv])
        pairs.append((A, B))
    # translate two thirds of the cases to straddle / lie below t = 0 (buffers are zero-initialised: sign matters)
    offs = [0, -4 * 4000, -40 * 4000]
    pairs = [([(s + offs[n % 3], e + offs[n % 3]) for s, e in A], [(s + offs[n % 3], e + offs[n % 3]) for s, e in B]) for n, (A, B) in enumerate(pairs)]
    lines = []
    for A, B in pairs:
        a, b = C.fmt_iset(A), C.fmt_iset(B)
        lines += [f"inter\t{a}\t{b}", f"diff\t{a}\t{b}", f"union\t{a}\t{b}", f"iset_inter\t{a}\t{b}", f"iset_diff\t{a}\t{b}", f"iset_union\t{a}\t{b}"]
    out = C.run_model(lines)
    pub_every = 3 if tier == "thorough" else 4
    for n, (A, B) in enumerate(pairs):
        s1, e1 = G.arr([s for s, _ in A]), G.arr([e for _, e in A])
        s2, e2 = G.arr([s for s, _ in B]), G.arr([e for _, e in B])
        inp = {"A": A, "B": B}
        res.case((tuple(A), tuple(B)), nontrivial=bool(A) and bool(B))
        res.count("sizes=%d,%d" % (min(len(A), 4), min(len(B), 4)))
        if set(x for iv in A for x in iv) & set(x for iv in B for x in iv):
            res.count("shared_endpoint")
        o = out[6 * n: 6 * n + 6]
        # kernels
        ns, ne, meta = J.jitintersect(s1, e1, s2, e2)
        ki = (tk(ns, ne), [int(x) for x in meta.ravel()])
        mi = o[0].split("|")
        if ki != (parse_iset(mi[0]), [int(x) for x in mi[1].split()]):
            res.disagreements.append({"op": "jitintersect", "input": inp, "impl": ki, "model": o[0]})
        ns, ne, meta = J.jitdiff(s1, e1, s2, e2)
        kd = (tk(ns, ne), [int(x) for x in meta.ravel()])
        md = o[1].split("|")
        if kd != (parse_iset(md[0]), [int(x) for x in md[1].split()]):
            res.disagreements.append({"op": "jitdiff", "input": inp, "impl": kd, "model": o[1]})
        ns, ne = J.jitunion(s1, e1, s2, e2)
        ku = tk(ns, ne)
        if ku != parse_iset(o[2]):
            res.disagreements.append({"op": "jitunion", "input": inp, "impl": ku, "model": o[2]})
        # kernel-level oracle: exact membership except the named exception points
        epsB = set(x for iv in B for x in iv)
        epsA = set(x for iv in A for x in iv)
        allp = set()
        for x in epsA | epsB:
            allp |= {x - 1, x, x + 1}
        for x in allp:
            a, b = G.mem(x, A), G.mem(x, B)
            if G.mem(x, ku) != (a or b):
                res.violations.append({"key": {"op": "jitunion"}, "what": "union kernel membership wrong", "input": inp, "x": x, "impl": ku})
                break
            if x not in epsB and G.mem(x, kd[0]) != (a and not b):
                res.violations.append({"key": {"op": "jitdiff"}, "what": "diff kernel membership wrong off B's endpoints", "input": inp, "x": x, "impl": kd[0]})
                break
            touch = (x in set(e for _, e in A) and x in set(s for s, _ in B)) or (x in set(e for _, e in B) and x in set(s for s, _ in A))
            if not touch and G.mem(x, ki[0]) != (a and b):
                res.violations.append({"key": {"op": "jitintersect"}, "what": "intersect kernel membership wrong off touch points", "input": inp, "x": x, "impl": ki[0]})
                break
        # parents
        for (s, e), i, j in zip(ki[0], ki[1][0::2], ki[1][1::2]):
            if not (i < len(A) and j < len(B) and s == max(A[i][0], B[j][0]) and e == min(A[i][1], B[j][1])):
                res.violations.append({"key": {"op": "jitintersect", "part": "parents"}, "what": "intersect parent indices wrong", "input": inp, "impl": ki})
                break
        for (s, e), i in zip(kd[0], kd[1]):
            if not (i < len(A) and A[i][0] <= s and e <= A[i][1]):
                res.violations.append({"key": {"op": "jitdiff", "part": "parents"}, "what": "diff parent index wrong", "input": inp, "impl": kd})
                break
        if n % pub_every:
            continue
        # public wrappers
        a = nap.IntervalSet(s1, e1)
        b = nap.IntervalSet(s2, e2)
        Ru, Ri, Rd, _ = public_checks(res, nap, A, B, a, b, (o[3], o[4], o[5]), inp)
        if n < 2 or n % 3001 == 0:
            res.sample({"A": A, "B": B, "union": Ru, "intersect": Ri, "set_diff": Rd})
    res.float_ambiguous = AMB[0]
    # ------------------------------------------------------------------------------------------------------------------
    # ARGUMENT FORMS: the same pairs (sampled), each operand handed to the library in a seeded form (container x unit x dtype x
    # positional/keyword x metadata x history), on a us / ms / s lattice, at offsets 0, +-1e5 s, +3 s, straddling 0; the three
    # operations called positionally / by keyword / through the class, in a seeded order on the same live objects.
    quick = tier == "quick"
    rngf = random.Random(seed * 37 + 11)
    tmpdir = tempfile.mkdtemp(prefix="wd_c02_")
    res.rule += (" || WIDENED (argument forms; every operand still denotes the same tick list, checked, and the oracle is unchanged): "
                 "axis 2 (form of the time arguments): start/end as ndarray, list, tuple, list of numpy scalars, pandas Series (default and foreign index), pandas Index, "
                 "(n,1)/(1,n) arrays, strided views of one buffer, read-only arrays, array/list/tuple of (start,end) pairs, one (start,end) pair, Python / numpy scalars, 0-d arrays, "
                 "DataFrame (both column orders), an IntervalSet, another object's TsIndex / .t / .index.values / .times(unit); dtypes float64, float32, float16, int8..int64, uint8..uint64, bool "
                 "(whenever the instants are whole numbers of the unit and fit). "
                 "axis 3: start/end/time_units positionally and by keyword, time_units at its default, end=None spelled out, the operand of union/intersect/set_diff positionally, as keyword a=, through the class; "
                 "the three operations in a seeded order. axis 4: the same instants in s / ms / us. "
                 "axis 5: lattices of 4us/1us, 4ms/1ms, 4s/1s; offsets 0, -16us, -160us, +-1e5 s, +3 s, straddling 0. "
                 "axis 6: empty / one / many intervals in every form that can express them; empty sets in 8 forms in the absorbing laws. "
                 "axis 7: operands with metadata (dict, DataFrame, DataFrame columns, set_info kwargs / DataFrame, item assignment; int / str / float columns; names shared or not between the operands). "
                 "axis 8: operands that are the product of a history (copy constructor, selection out of a bigger set by slice / integer array / list / mask / loc / number / [sl, :], save+load npz, pickle, copy, deepcopy, "
                 "as_dataframe, as_units, .values, a previous union / intersect / set_diff, a Tsd's time support, restrict); the same live object as both operands; CHAINS (A op1 B) op2 C and C op2 (A op1 B) "
                 "with the statement applied to each step. TsGroup supports: keys 0..n-1 / arbitrary unsorted ints / numeric strings / floats / numpy ints, dict or list, Ts and Tsd members. "
                 "For widened cases distinct = distinct (A, B, forms).")
    fcases, lines = [], []
    for _ in range(1400 if quick else 24000):
        A, B = rngf.choice(pairs)
        r = rngf.random()
        A, B = (A, []) if r < 0.05 else ([], B) if r < 0.10 else (A, A) if r < 0.16 else (A, B)     # more empty / identical operands
        if r > 0.995:                          # many intervals (up to 100 per operand)
            A = G.rand_canonical_iset(rngf, 100)
            B = G.rand_canonical_iset(rngf, 100, coincide=[x for iv in A for x in iv][::7])
        scale, off, oname = place(rngf, [A, B])
        A, B = transform(A, scale, off), transform(B, scale, off)
        if rngf.random() < 0.08:              # unbounded intervals: the first start at -inf and / or the last end at +inf
            A, B = unbound(rngf, A), unbound(rngf, B)
        shared = rngf.random() < 0.5
        fA, fB = make_form(rngf, A, "A", shared), make_form(rngf, B, "B", shared)
        same = A == B and rngf.random() < 0.5
        call = rngf.choice(["pos", "kw", "unbound"])
        order = rngf.choice([(0, 1, 2), (2, 1, 0), (1, 0, 2), (1, 2, 0), (0, 2, 1), (2, 0, 1)])
        fcases.append((A, B, fA, fB, same, call, order, scale, oname))
        a, b = C.fmt_iset(A), C.fmt_iset(B)
        lines += [f"iset_inter\t{a}\t{b}", f"iset_diff\t{a}\t{b}", f"iset_union\t{a}\t{b}"]
    out = C.run_model(lines)
    for n, (A, B, fA, fB, same, call, order, scale, oname) in enumerate(fcases):
        forms = {"A": fA, "B": fA if same else fB, "same_object": same, "call": call, "order": list(order)}
        inp = {"A": A, "B": B, "forms": forms}
        res.case((tuple(A), tuple(B), json.dumps(forms, sort_keys=True)), nontrivial=bool(A) and bool(B))
        res.count("form:cases")
        res.count("form:lattice_scale=%s" % {1: "us", 1000: "ms", 10 ** 6: "s"}[scale])
        res.count("form:offset=%s" % oname)
        res.count("form:call=%s" % call)
        res.count("form:same_live_object", int(same))
        res.count("form:unbounded_operand", int(is_unbounded(A, B)))
        res.count("form:many_intervals(>=30)", int(max(len(A), len(B)) >= 30))
        res.count("form:both_with_metadata", int(fA["meta"] not in NOMETA and forms["B"]["meta"] not in NOMETA))
        res.count("form:sizes=%d,%d" % (min(len(A), 4), min(len(B), 4)))
        count_form(res, fA)
        if not same:
            count_form(res, fB)
        a = build_checked(res, nap, A, fA, inp, tmpdir)
        b = a if same else build_checked(res, nap, B, fB, inp, tmpdir)
        if a is None or b is None:
            continue
        try:
            public_checks(res, nap, A, B, a, b, out[3 * n: 3 * n + 3], inp, call, order, durations=not is_unbounded(A, B))
        except OpFailure as ex:
            res.violations.append({"key": {"op": ex.name, "part": "exception", "exc": ex.exc, "call": call,
                                           "self_has_metadata": fA["meta"] not in NOMETA, "arg_has_metadata": forms["B"]["meta"] not in NOMETA},
                                   "what": str(ex), "input": inp})
        if n < 3:
            res.sample({"A": A, "B": B, "forms": forms})
    # CHAINS: (A op1 B) op2 C and C op2 (A op1 B): the statement applied to each step (the operands of the second step are the
    # library's own result R1 and C); 4us / 4ms / 4s lattice only, so that no interval is float-ambiguous
    chains = []
    for _ in range(280 if quick else 5000):
        A, B, Cc = rngf.choice(S), rngf.choice(S), rngf.choice(S)
        scale, off, oname = place(rngf, [A, B, Cc])
        A, B, Cc = transform(A, scale, off), transform(B, scale, off), transform(Cc, scale, off)
        shared = rngf.random() < 0.5
        forms = {"A": make_form(rngf, A, "A", shared), "B": make_form(rngf, B, "B", shared), "C": make_form(rngf, Cc, "C", shared),
                 "call": rngf.choice(["pos", "kw", "unbound"]), "op1": rngf.choice(OPS), "op2": rngf.choice(OPS)}
        chains.append((A, B, Cc, forms))
    step2, lines = [], []
    for A, B, Cc, forms in chains:
        inp = {"A": A, "B": B, "C": Cc, "forms": forms}
        res.case((tuple(A), tuple(B), tuple(Cc), json.dumps(forms, sort_keys=True)), nontrivial=bool(A) and bool(B) and bool(Cc))
        res.count("chain:cases")
        res.count("chain:%s_then_%s" % (forms["op1"], forms["op2"]))
        objs = [build_checked(res, nap, X, forms[k], inp, tmpdir) for k, X in (("A", A), ("B", B), ("C", Cc))]
        if any(x is None for x in objs):
            continue
        a, b, c = objs
        try:
            r1 = call_op(nap, forms["op1"], a, b, forms["call"])
        except OpFailure as ex:
            res.violations.append({"key": {"op": ex.name, "part": "exception", "exc": ex.exc, "call": forms["call"], "self_has_metadata": forms["A"]["meta"] not in NOMETA,
                                           "arg_has_metadata": forms["B"]["meta"] not in NOMETA}, "what": str(ex), "input": inp})
            continue
        R1 = tk(r1.start, r1.end, junctions(A, B))
        res.evaluations += 1
        if not oracle_pub(forms["op1"], A, B, R1, res, inp):
            continue
        if not G.canonical(R1):
            res.count("chain:first_result_not_canonical")        # outside the quantifier (C01): nothing to check
            continue
        res.count("chain:first_result_has_metadata", int(len(r1.metadata_columns) > 0))
        step2.append((R1, Cc, r1, c, forms, inp))
        x, y = C.fmt_iset(R1), C.fmt_iset(Cc)
        k = {"intersect": "iset_inter", "set_diff": "iset_diff", "union": "iset_union"}[forms["op2"]]
        lines += [f"{k}\t{x}\t{y}", f"{k}\t{y}\t{x}"]
    out = C.run_model(lines) if lines else []
    for n, (R1, Cc, r1, c, forms, inp) in enumerate(step2):
        junc = junctions(R1, Cc)
        for X, Y, x, y, m, side in ((R1, Cc, r1, c, out[2 * n], "result_is_self"), (Cc, R1, c, r1, out[2 * n + 1], "result_is_argument")):
            inp2 = {"A": X, "B": Y, "chain": {"A": inp["A"], "B": inp["B"], "C": inp["C"], "forms": forms, "second_step": side}}
            try:
                r2 = call_op(nap, forms["op2"], x, y, forms["call"])
            except OpFailure as ex:
                res.violations.append({"key": {"op": ex.name, "part": "exception", "exc": ex.exc, "call": forms["call"], "chain": True,
                                               "self_has_metadata": len(x.metadata_columns) > 0, "arg_has_metadata": len(y.metadata_columns) > 0},
                                       "what": str(ex), "input": inp2})
                continue
            R2 = tk(r2.start, r2.end, junc)
            res.evaluations += 1
            oracle_pub(forms["op2"], X, Y, R2, res, inp2)
            if R2 != parse_iset(m):
                res.disagreements.append({"op": forms["op2"], "input": inp2, "impl": R2, "model": m})
    res.float_ambiguous = AMB[0]
    # idempotence / absorbing, n-ary union via TsGroup supports
    sub = S + S1 if tier == "thorough" else rng.sample(S, 45) + rng.sample(S1, 15)
    lines = []
    trip = []
    for A in sub:
        a = nap.IntervalSet(G.arr([s for s, _ in A]), G.arr([e for _, e in A]))
        res.evaluations += 1
        e0 = nap.IntervalSet([], [])
        absorbing(res, nap, A, a, e0, "pos", {"A": A})
        # the same laws with A in a seeded argument form / placement and the empty set in each of its forms
        for _ in range(2):
            scale, off, oname = place(rngf, [A])
            A2 = transform(A, scale, off)
            fA = make_form(rngf, A2, "A", plain=0.0)
            ek = rngf.choice(sorted(EMPTY_FORMS))
            call = rngf.choice(["pos", "kw", "unbound"])
            inp = {"A": A2, "forms": {"A": fA, "empty": ek, "call": call}}
            res.count("absorbing:empty_form=%s" % ek)
            res.count("absorbing:A_form_cases")
            res.evaluations += 1
            a2 = build_checked(res, nap, A2, fA, inp, tmpdir)
            if a2 is None:
                continue
            try:
                absorbing(res, nap, A2, a2, EMPTY_FORMS[ek](nap), call, inp)
            except OpFailure as ex:
                res.violations.append({"key": {"op": ex.name, "part": "exception", "exc": ex.exc, "call": call, "with_empty_set": True,
                                               "self_has_metadata": fA["meta"] not in NOMETA}, "what": str(ex), "input": inp})
        for _ in range(2):
            Bs = [rng.choice(S) if rng.random() > 0.2 else [] for _ in range(rng.randint(1, 3))]
            allsets = [A] + Bs
            flat = [iv for X in allsets for iv in X]
            if not flat:
                continue
            trip.append(allsets)
            lines.append("union_n\t" + C.fmt_iset(flat))
    mo = C.run_model(lines) if lines else []
    for allsets, m in zip(trip, mo):
        flat = [iv for X in allsets for iv in X]
        st, en = J.jitunion_isets(G.arr([s for s, _ in flat]), G.arr([e for _, e in flat]))
        R = tk(st, en)
        res.evaluations += 1
        if R != parse_iset(m):
            res.disagreements.append({"op": "jitunion_isets", "input": {"sets": allsets}, "impl": R, "model": m})
        for x in set(v + d for iv in flat for v in iv for d in (-1, 0, 1)):
            if G.mem(x, R) != G.mem(x, flat):
                res.violations.append({"key": {"op": "jitunion_isets"}, "what": "n-ary union membership wrong", "input": {"sets": allsets}, "x": x, "impl": R})
                break
        # TsGroup time support = union of member supports
        members = {}
        # keys: 0..n-1 / arbitrary unsorted ints / numeric strings / floats / numpy ints; members Ts or Tsd; supports in a seeded form;
        # the group built from a dict or (keys 0..n-1) from a list
        kstyle = rngf.choice(["range", "range", "ints", "strings", "floats", "npints"])
        raw = list(range(len(allsets))) if kstyle == "range" else rngf.sample(range(2, 40), len(allsets))
        keys = {"range": raw, "ints": raw, "strings": [str(k) for k in raw], "floats": [float(k) for k in raw], "npints": [np.int64(k) for k in raw]}[kstyle]
        aslist = kstyle == "range" and rngf.random() < 0.4
        res.count("group:keys=%s" % kstyle)
        res.count("group:from_list", int(aslist))
        bypass = rngf.random() < 0.3
        res.count("group:bypass_check", int(bypass))
        for k, X in zip(keys, allsets):
            if rngf.random() < 0.5:
                sup = nap.IntervalSet(G.arr([s for s, _ in X]), G.arr([e for _, e in X]))
            else:
                fX = make_form(rngf, X, "A", plain=0.0)
                sup = build_checked(res, nap, X, fX, {"sets": allsets, "form": fX}, tmpdir)
                res.count("group:support_in_a_form")
                if sup is None:
                    continue
            t = G.arr([X[0][0]] if X else [])
            if rngf.random() < 0.5:
                members[k] = nap.Ts(t, time_support=sup)     # X = []: a member with an empty support
            else:
                members[k] = nap.Tsd(t, d=np.zeros(len(t)), time_support=sup)
                res.count("group:member_is_Tsd")
            res.count("group_member_with_empty_support", int(not X))
        if len(members) == len(allsets):
            try:
                g = nap.TsGroup(list(members.values()) if aslist else members, **({"bypass_check": True} if bypass else {}))
            except Exception as ex:
                res.violations.append({"key": {"op": "TsGroup.time_support", "part": "exception", "exc": type(ex).__name__, "keys": kstyle, "from_list": aslist},
                                       "what": "building a group of members with non-empty supports raises: %s" % str(ex)[:200], "input": {"sets": allsets, "keys": [str(k) for k in keys]}})
                continue
            Rg = tk(g.time_support.start, g.time_support.end)
            fl = [iv for k, X in enumerate(allsets) if X for iv in X]
            for x in probes(fl, []):
                if G.mem(x, Rg) != G.mem(x, fl):
                    res.violations.append({"key": {"op": "TsGroup.time_support"}, "what": "group support is not the union of member supports",
                                           "input": {"sets": allsets}, "x": x, "impl": Rg})
                    break
    shutil.rmtree(tmpdir, ignore_errors=True)


def search(res, seed):
    r2 = C.Result()
    run(r2, "thorough", seed)
    return r2.violations[0] if r2.violations else None


def replay(payload):
    nap, J = _nap()
    warnings.simplefilter("ignore")
    v = payload.get("violation") or (payload.get("disagreements") or [{}])[0]
    inp = v.get("input", {})
    r = C.Result()
    T = lambda X: [tuple(x) for x in X]
    tmpdir = tempfile.mkdtemp(prefix="wd_c02_")
    try:
        if "chain" in inp:
            ch = inp["chain"]
            f = ch["forms"]
            A, B, Cc = T(ch["A"]), T(ch["B"]), T(ch["C"])
            a, b, c = build_iset(nap, A, f["A"], tmpdir), build_iset(nap, B, f["B"], tmpdir), build_iset(nap, Cc, f["C"], tmpdir)
            r1 = call_op(nap, f["op1"], a, b, f["call"])
            R1 = tk(r1.start, r1.end, junctions(A, B))
            print("chain: A=%s %s B=%s -> %s ; forms=%s" % (A, f["op1"], B, R1, json.dumps(f)))
            X, Y, x, y = (R1, Cc, r1, c) if ch["second_step"] == "result_is_self" else (Cc, R1, c, r1)
            r2 = call_op(nap, f["op2"], x, y, f["call"])
            R2 = tk(r2.start, r2.end, junctions(X, Y))
            print("second step:", f["op2"], "self=%s arg=%s ->" % (X, Y), R2)
            oracle_pub(f["op2"], X, Y, R2, r, inp)
        elif "forms" in inp and "B" in inp and "C" not in inp:
            f = inp["forms"]
            A, B = T(inp["A"]), T(inp["B"])
            print("forms:", json.dumps(f))
            a = build_checked(r, nap, A, f["A"], inp, tmpdir)
            b = a if f.get("same_object") else build_checked(r, nap, B, f["B"], inp, tmpdir)
            if a is not None and b is not None:
                Ru, Ri, Rd, _ = public_checks(r, nap, A, B, a, b, None, inp, f["call"], tuple(f["order"]), durations=not is_unbounded(A, B))
                print("A=%s B=%s -> union %s intersect %s set_diff %s" % (A, B, Ru, Ri, Rd))
        elif "forms" in inp and "C" in inp:
            f = inp["forms"]
            A, B = T(inp["A"]), T(inp["B"])
            a, b = build_checked(r, nap, A, f["A"], inp, tmpdir), build_checked(r, nap, B, f["B"], inp, tmpdir)
            if a is not None and b is not None:
                r1 = call_op(nap, f["op1"], a, b, f["call"])
                R1 = tk(r1.start, r1.end, junctions(A, B))
                print("first step of a chain:", f["op1"], "A=%s B=%s ->" % (A, B), R1)
                oracle_pub(f["op1"], A, B, R1, r, inp)
        elif "forms" in inp:
            f = inp["forms"]
            A = T(inp["A"])
            print("forms:", json.dumps(f))
            a = build_checked(r, nap, A, f["A"], inp, tmpdir)
            if a is not None:
                absorbing(r, nap, A, a, EMPTY_FORMS[f["empty"]](nap), f["call"], inp)
        else:
            A, B = T(inp.get("A", [])), T(inp.get("B", []))
            a = nap.IntervalSet(G.arr([s for s, _ in A]), G.arr([e for _, e in A]))
            b = nap.IntervalSet(G.arr([s for s, _ in B]), G.arr([e for _, e in B]))
            for name, R in (("union", a.union(b)), ("intersect", a.intersect(b)), ("set_diff", a.set_diff(b))):
                Rt = tk(R.start, R.end, junctions(A, B))
                print(name, "A=%s B=%s ->" % (A, B), Rt)
                oracle_pub(name, A, B, Rt, r, inp)
    except OpFailure as ex:
        r.violations.append({"key": {"op": ex.name, "part": "exception", "exc": ex.exc}, "what": str(ex)})
    finally:
        shutil.rmtree(tmpdir, ignore_errors=True)
    print("violations:", r.violations)
    return 1 if r.violations else 0

# --- Glue layer (DESIGN.md 10.11): the Python between the API and the kernels, tied by proof in Properties/C02c.v; this is the
# executable tie of its trusted parts (translator tools/py2glue.py + primitive semantics Glue/Interp.v): the TRANSLATED term run by the
# extracted evaluator (ocaml/gluedriver) against the REAL routine of pynapple on the same inputs (harness/gluecmp.py).
import gluecmp  # noqa: E402

DRIVERS = list(globals().get("DRIVERS", ["driver"])) + ["gluedriver"]
GLUE_ROUTINES = ['IntervalSet.union', 'IntervalSet.intersect', 'IntervalSet.set_diff', 'IntervalSet.time_span', 'IntervalSet.tot_length', 'IntervalSet.__getitem__', 'IntervalSet.drop_short_intervals', 'IntervalSet.drop_long_intervals', 'IntervalSet.merge_close_intervals']
_run_without_glue = run


def run(res, tier, seed):
    _run_without_glue(res, tier, seed)
    gluecmp.check(res, GLUE_ROUTINES, tier, seed)
    res.rule += (" | glue: for each of %s the translated Glue.Lang term (coq/Gen/Glue.v) is evaluated by the extracted Glue/Interp.v and compared with the "
                 "real pynapple routine on canonical sets of a dyadic lattice (incl. negative times, empty, touching, duplicates, unsorted/improper "
                 "constructor input, thresholds equal to a length or gap); exceptions must match the model's error kind" % ", ".join(GLUE_ROUTINES))
