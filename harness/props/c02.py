"""C02 union / intersect / set_diff are the Boolean set operations on the time line."""
import random
import warnings

import numpy as np

import common as C
import gen as G

LEVEL = "proof"
TRUSTED = ["models: coq/Model/Iset.v (inter_go, diff_go, union_go, union_n_go); theorems: InterDiffProofs.v, UnionProofs.v, C02Top.v, MeasureProofs.v; "
           "the public-result (wrapper) forms of the endpoint, commutativity, idempotence and duration clauses are proved in Properties/C02.v itself"]
ASSUMPTIONS = ["operands are canonical IntervalSets (C01)", "comparison/min/max-only kernels: behaviour is a function of the order type of the endpoints",
               "float_ambiguous counts ONLY the public-result interval [p - 1us, p - 1e-6] left by the constructor's un-rounded trim of an exactly 1us long interval "
               "whose end p touches a start of the other operand (zero-length on the ns grid, ~1e-22 s as floats); it is dropped before the comparison"]


def _nap():
    import pynapple as nap
    from pynapple.core import _jitted_functions as J
    return nap, J


AMB = [0]


def junctions(A, B):
    """the instants where an interval of one operand ends exactly where an interval of the other starts"""
    return (set(e for _, e in A) & set(s for s, _ in B)) | (set(e for _, e in B) & set(s for s, _ in A))


def tk(st, en, trims=()):
    """ticks of an interval list.  The constructor trims an end p that touches the next start to the float p - 1e-6, which is
    not rounded to ns; when the trimmed interval was exactly 1 us long, [p - 1us, p - 1e-6] stays proper as floats (a few
    1e-22 s long) while it is the zero-length [p - 1us, p - 1us] on ticks.  That interval, and nothing else, is float_ambiguous
    (dropped and counted): `trims` are the instants p at which a trim can happen.  Raw kernel outputs are never trimmed (trims = ());
    any other interval that is zero-length on ticks is kept and fails the checks."""
    out = []
    for s, e in zip(st, en):
        a, b = C.to_ns(s), C.to_ns(e)
        if a == b and s < e and a + 1000 in trims:
            AMB[0] += 1
            continue
        out.append((a, b))
    return out


def parse_iset(s):
    v = [int(x) for x in s.split()]
    return list(zip(v[0::2], v[1::2]))


def probes(A, B):
    """instants farther than 1us from every endpoint, one per elementary region (+ a few inside)"""
    eps = sorted(set([x for iv in A + B for x in iv]))
    if not eps:
        return [0]
    pts = [eps[0] - 5000, eps[-1] + 5000]
    for a, b in zip(eps, eps[1:]):
        if b - a > 2 * 1000 + 1:
            pts += [a + 1001, (a + b) // 2, b - 1001]
    return pts


def oracle_pub(name, A, B, R, res, inp):
    junc = junctions(A, B)
    for x in probes(A, B):
        a, b, r = G.mem(x, A), G.mem(x, B), G.mem(x, R)
        want = (a or b) if name == "union" else (a and b) if name == "intersect" else (a and not b)
        if r != want:
            res.violations.append({"key": {"op": name, "part": "membership", "operands_touch": bool(junc)},
                                   "what": "%s is not the Boolean operation at an instant farther than 1us from every endpoint" % name,
                                   "input": inp, "x": x, "impl": R})
            return False
    # every start of the result is a start or an end of an operand; every end is an endpoint of an operand, or the instant of a
    # touch (end of one operand = start of the other: the only place where the 1 us touch-separation acts) minus 1 us
    eps = set(x for iv in A + B for x in iv)
    for s, e in R:
        if s not in eps or not (e in eps or e + 1000 in junc):
            res.violations.append({"key": {"op": name, "part": "endpoints", "start_is_operand_endpoint": s in eps,
                                           "end_is_operand_endpoint_minus_1us": e + 1000 in eps, "operands_touch": bool(junc)},
                                   "what": "an endpoint of the result is not an endpoint of an operand (nor a touch instant minus 1us)",
                                   "input": inp, "impl": R})
            return False
    return True


def run(res, tier, seed):
    nap, J = _nap()
    warnings.simplefilter("ignore")
    N = 8 if tier == "quick" else 9
    AMB[0] = 0
    # lattice step 2us so that 'farther than 1us from every endpoint' probes exist between lattice points
    pts = G.lattice(N, step=4000)
    S = G.canonical_isets(pts, 3 if tier == "quick" else 4)
    rng = random.Random(seed * 31 + 5)
    res.rule = ("kernels: ALL ordered pairs of canonical sets with <=3(4) intervals on an %d-point lattice [complete over endpoint order types incl. shared starts/ends, "
                "end==start touches, nested, identical, empty] compared with the extracted models (incl. parent indices) and with the point-membership oracle; "
                "+ a sample of the same pairs on a 1us-step lattice (1us/2us intervals and gaps) + seeded random larger pairs with 1ns..1us gaps and coinciding endpoints; "
                "public union/intersect/set_diff: same pairs (every 4th(3rd)): membership at far instants, endpoints (starts exact, ends exact or touch instant - 1us), "
                "commutativity and idempotence at list level, durations exact up to 1us per touch instant; TsGroup supports for 1,2,>=3 members incl. empty members. "
                "non-trivial = both non-empty; distinct = distinct (A,B)" % N)
    res.exhaustive = True
    pairs = [(A, B) for A in S for B in S]
    if tier == "quick":
        pairs = rng.sample(pairs, 5000) + [(A, A) for A in S] + [(A, []) for A in S] + [([], A) for A in S]
    # the same order types on a 1us lattice: intervals and gaps of exactly 1us / 2us, so that the constructor's 1us trim at a touch
    # empties an interval or meets the previous endpoint (no far instant between neighbouring points there: these pairs exercise
    # the endpoint, algebra, duration and model-agreement checks)
    S1 = [[(s // 4, e // 4) for s, e in A] for A in S]
    pairs += rng.sample([(A, B) for A in S1 for B in S1], 1500 if tier == "quick" else 20000)
    # + random larger
    for _ in range(300 if tier == "quick" else 5000):
        A = G.rand_canonical_iset(rng, 7)
        B = G.rand_canonical_iset(rng, 7, coincide=[x for iv in A for x in iv])
        pairs.append((A, B))
    # translate two thirds of the cases to straddle / lie below t = 0 (buffers are zero-initialised: sign matters)
    offs = [0, -4 * 4000, -40 * 4000]
    pairs = [([(s + offs[n % 3], e + offs[n % 3]) for s, e in A], [(s + offs[n % 3], e + offs[n % 3]) for s, e in B]) for n, (A, B) in enumerate(pairs)]
    lines = []
    for A, B in pairs:
        a, b = C.fmt_iset(A), C.fmt_iset(B)
        lines += [f"inter\t{a}\t{b}", f"diff\t{a}\t{b}", f"union\t{a}\t{b}", f"iset_inter\t{a}\t{b}", f"iset_diff\t{a}\t{b}", f"iset_union\t{a}\t{b}"]
    out = C.run_model(lines)
    pub_every = 3 if tier == "thorough" else 4
    for n, (A, B) in enumerate(pairs):
        s1, e1 = G.arr([s for s, _ in A]), G.arr([e for _, e in A])
        s2, e2 = G.arr([s for s, _ in B]), G.arr([e for _, e in B])
        inp = {"A": A, "B": B}
        res.case((tuple(A), tuple(B)), nontrivial=bool(A) and bool(B))
        res.count("sizes=%d,%d" % (min(len(A), 4), min(len(B), 4)))
        if set(x for iv in A for x in iv) & set(x for iv in B for x in iv):
            res.count("shared_endpoint")
        o = out[6 * n: 6 * n + 6]
        # kernels
        ns, ne, meta = J.jitintersect(s1, e1, s2, e2)
        ki = (tk(ns, ne), [int(x) for x in meta.ravel()])
        mi = o[0].split("|")
        if ki != (parse_iset(mi[0]), [int(x) for x in mi[1].split()]):
            res.disagreements.append({"op": "jitintersect", "input": inp, "impl": ki, "model": o[0]})
        ns, ne, meta = J.jitdiff(s1, e1, s2, e2)
        kd = (tk(ns, ne), [int(x) for x in meta.ravel()])
        md = o[1].split("|")
        if kd != (parse_iset(md[0]), [int(x) for x in md[1].split()]):
            res.disagreements.append({"op": "jitdiff", "input": inp, "impl": kd, "model": o[1]})
        ns, ne = J.jitunion(s1, e1, s2, e2)
        ku = tk(ns, ne)
        if ku != parse_iset(o[2]):
            res.disagreements.append({"op": "jitunion", "input": inp, "impl": ku, "model": o[2]})
        # kernel-level oracle: exact membership except the named exception points
        epsB = set(x for iv in B for x in iv)
        epsA = set(x for iv in A for x in iv)
        allp = set()
        for x in epsA | epsB:
            allp |= {x - 1, x, x + 1}
        for x in allp:
            a, b = G.mem(x, A), G.mem(x, B)
            if G.mem(x, ku) != (a or b):
                res.violations.append({"key": {"op": "jitunion"}, "what": "union kernel membership wrong", "input": inp, "x": x, "impl": ku})
                break
            if x not in epsB and G.mem(x, kd[0]) != (a and not b):
                res.violations.append({"key": {"op": "jitdiff"}, "what": "diff kernel membership wrong off B's endpoints", "input": inp, "x": x, "impl": kd[0]})
                break
            touch = (x in set(e for _, e in A) and x in set(s for s, _ in B)) or (x in set(e for _, e in B) and x in set(s for s, _ in A))
            if not touch and G.mem(x, ki[0]) != (a and b):
                res.violations.append({"key": {"op": "jitintersect"}, "what": "intersect kernel membership wrong off touch points", "input": inp, "x": x, "impl": ki[0]})
                break
        # parents
        for (s, e), i, j in zip(ki[0], ki[1][0::2], ki[1][1::2]):
            if not (i < len(A) and j < len(B) and s == max(A[i][0], B[j][0]) and e == min(A[i][1], B[j][1])):
                res.violations.append({"key": {"op": "jitintersect", "part": "parents"}, "what": "intersect parent indices wrong", "input": inp, "impl": ki})
                break
        for (s, e), i in zip(kd[0], kd[1]):
            if not (i < len(A) and A[i][0] <= s and e <= A[i][1]):
                res.violations.append({"key": {"op": "jitdiff", "part": "parents"}, "what": "diff parent index wrong", "input": inp, "impl": kd})
                break
        if n % pub_every:
            continue
        # public wrappers
        a = nap.IntervalSet(s1, e1)
        b = nap.IntervalSet(s2, e2)
        pu, pi, pd_ = a.union(b), a.intersect(b), a.set_diff(b)
        junc = junctions(A, B)
        Ru, Ri, Rd = tk(pu.start, pu.end, junc), tk(pi.start, pi.end, junc), tk(pd_.start, pd_.end, junc)
        res.evaluations += 3
        for name, R, k in (("union", Ru, 5), ("intersect", Ri, 3), ("set_diff", Rd, 4)):
            oracle_pub(name, A, B, R, res, inp)
            if R != parse_iset(o[k]):
                res.disagreements.append({"op": name, "input": inp, "impl": R, "model": o[k]})
        # commutativity, idempotence, durations (up to 1us per junction)
        for name, R, R2 in (("union", Ru, b.union(a)), ("intersect", Ri, b.intersect(a))):
            if tk(R2.start, R2.end, junc) != R:
                res.violations.append({"key": {"op": "commutativity", "part": name, "operands_touch": bool(junc)},
                                       "what": "%s is not commutative" % name, "input": inp, "impl": [R, tk(R2.start, R2.end, junc)]})
        # a junction is an instant where one operand ends and the other starts: the only place where 1us can go missing
        L = lambda R: sum(e - s for s, e in R)
        tol = 1000 * len(junc)
        res.count("touch_instants=%d" % min(len(junc), 3))
        if abs(L(Ru) + L(Ri) - L(A) - L(B)) > tol:
            res.violations.append({"key": {"op": "durations", "part": "union_identity", "operands_touch": bool(junc)},
                                   "what": "|A union B| + |A intersect B| differs from |A| + |B| by more than 1us per touch instant", "input": inp,
                                   "impl": {"union": Ru, "inter": Ri}, "off_by_ns": L(Ru) + L(Ri) - L(A) - L(B), "touch_instants": len(junc)})
        if abs(L(Rd) - (L(A) - L(Ri))) > tol:
            res.violations.append({"key": {"op": "durations", "part": "diff_identity", "operands_touch": bool(junc)},
                                   "what": "|A set_diff B| differs from |A| - |A intersect B| by more than 1us per touch instant", "input": inp,
                                   "impl": {"inter": Ri, "diff": Rd}, "off_by_ns": L(Rd) - (L(A) - L(Ri)), "touch_instants": len(junc)})
        if n < 2 or n % 3001 == 0:
            res.sample({"A": A, "B": B, "union": Ru, "intersect": Ri, "set_diff": Rd})
    res.float_ambiguous = AMB[0]
    # idempotence / absorbing, n-ary union via TsGroup supports
    sub = S + S1 if tier == "thorough" else rng.sample(S, 45) + rng.sample(S1, 15)
    lines = []
    trip = []
    for A in sub:
        a = nap.IntervalSet(G.arr([s for s, _ in A]), G.arr([e for _, e in A]))
        res.evaluations += 1
        e0 = nap.IntervalSet([], [])
        for part, R, want in (("A union A", a.union(a), A), ("A intersect A", a.intersect(a), A), ("A set_diff A", a.set_diff(a), []),
                              ("A union empty", a.union(e0), A), ("empty union A", e0.union(a), A), ("A intersect empty", a.intersect(e0), []),
                              ("empty intersect A", e0.intersect(a), []), ("A set_diff empty", a.set_diff(e0), A), ("empty set_diff A", e0.set_diff(a), [])):
            if tk(R.start, R.end) != want:
                res.violations.append({"key": {"op": "idempotence", "part": part}, "what": "%s is not %s" % (part, "A" if want else "empty"),
                                       "input": {"A": A}, "impl": tk(R.start, R.end)})
        for _ in range(2):
            Bs = [rng.choice(S) if rng.random() > 0.2 else [] for _ in range(rng.randint(1, 3))]
            allsets = [A] + Bs
            flat = [iv for X in allsets for iv in X]
            if not flat:
                continue
            trip.append(allsets)
            lines.append("union_n\t" + C.fmt_iset(flat))
    mo = C.run_model(lines) if lines else []
    for allsets, m in zip(trip, mo):
        flat = [iv for X in allsets for iv in X]
        st, en = J.jitunion_isets(G.arr([s for s, _ in flat]), G.arr([e for _, e in flat]))
        R = tk(st, en)
        res.evaluations += 1
        if R != parse_iset(m):
            res.disagreements.append({"op": "jitunion_isets", "input": {"sets": allsets}, "impl": R, "model": m})
        for x in set(v + d for iv in flat for v in iv for d in (-1, 0, 1)):
            if G.mem(x, R) != G.mem(x, flat):
                res.violations.append({"key": {"op": "jitunion_isets"}, "what": "n-ary union membership wrong", "input": {"sets": allsets}, "x": x, "impl": R})
                break
        # TsGroup time support = union of member supports
        members = {}
        for k, X in enumerate(allsets):
            sup = nap.IntervalSet(G.arr([s for s, _ in X]), G.arr([e for _, e in X]))
            members[k] = nap.Ts(G.arr([X[0][0]] if X else []), time_support=sup)     # X = []: a member with an empty support
            res.count("group_member_with_empty_support", int(not X))
        if members:
            g = nap.TsGroup(members)
            Rg = tk(g.time_support.start, g.time_support.end)
            fl = [iv for k, X in enumerate(allsets) if X for iv in X]
            for x in probes(fl, []):
                if G.mem(x, Rg) != G.mem(x, fl):
                    res.violations.append({"key": {"op": "TsGroup.time_support"}, "what": "group support is not the union of member supports",
                                           "input": {"sets": allsets}, "x": x, "impl": Rg})
                    break


def search(res, seed):
    r2 = C.Result()
    run(r2, "thorough", seed)
    return r2.violations[0] if r2.violations else None


def replay(payload):
    nap, J = _nap()
    warnings.simplefilter("ignore")
    v = payload.get("violation") or (payload.get("disagreements") or [{}])[0]
    inp = v.get("input", {})
    A = [tuple(x) for x in inp.get("A", [])]
    B = [tuple(x) for x in inp.get("B", [])]
    a = nap.IntervalSet(G.arr([s for s, _ in A]), G.arr([e for _, e in A]))
    b = nap.IntervalSet(G.arr([s for s, _ in B]), G.arr([e for _, e in B]))
    r = C.Result()
    for name, R in (("union", a.union(b)), ("intersect", a.intersect(b)), ("set_diff", a.set_diff(b))):
        Rt = tk(R.start, R.end, junctions(A, B))
        print(name, "A=%s B=%s ->" % (A, B), Rt)
        oracle_pub(name, A, B, Rt, r, inp)
    print("violations:", r.violations)
    return 1 if r.violations else 0
