"""C06 value_from and interpolate pick the right neighbour and never cross an epoch."""
import itertools
import random
import warnings
from fractions import Fraction

import numpy as np

import common as C
import gen as G

LEVEL = "proof"
TRUSTED = ["model: coq/Model/ValueFrom.v (vf_inner/vf_query/vf_interval/vf_all cursor machine); theorems: Proofs/ValueFromProofs.v",
           "interpolate: np.interp is an oracle (piecewise linear through its arguments, edge values held); pynapple's per-interval slicing is what is checked"]
ASSUMPTIONS = ["exhaustive cases on the dyadic lattice 2^-9 s (float subtraction exact, equidistant ties deterministic); on decimal lattices an exactly "
               "equidistant pair may resolve either way (float_ambiguous) - both satisfy the statement",
               "interpolate is labelled partial: the numeric interpolation is NumPy's"]

U = 1953125
MODES = ["before", "closest", "after"]


def _nap():
    import pynapple as nap
    from pynapple.core import _core_functions as CF
    from pynapple.core import _jitted_functions as J
    return nap, CF, J


def oracle_times(q, src, ep, mode):
    """per query in ep: the set of acceptable source TIMES (None = NaN expected)"""
    out = []
    for x in q:
        iv = [(s, e) for s, e in ep if s <= x <= e]
        if not iv:
            continue
        s, e = iv[0]
        cand = [y for y in src if s <= y <= e]
        if mode == "before":
            c = [y for y in cand if y <= x]
            out.append((x, {max(c)} if c else None))
        elif mode == "after":
            c = [y for y in cand if y >= x]
            out.append((x, {min(c)} if c else None))
        else:
            if cand:
                d = min(abs(y - x) for y in cand)
                out.append((x, {y for y in cand if abs(y - x) == d}))
            else:
                out.append((x, None))
    return out


def cases(tier, seed):
    N = 6
    pts = G.lattice(N, step=U)
    eps = [[(0, 5 * U)], [(0, 2 * U), (3 * U, 5 * U)], [(0, U), (2 * U, 3 * U), (4 * U, 5 * U)], [(U, 2 * U)], [(U, 4 * U)], [(0, U), (4 * U, 5 * U)]]
    qn = 3
    sn = 3 if tier == "quick" else 4
    qs_all = G.sorted_multisets(pts, qn)
    src_all = G.sorted_multisets(pts, sn)
    out = [(q, s, ep, "dyadic") for ep in eps for q in qs_all for s in src_all]
    rng = random.Random(seed * 13 + 7)
    if tier == "quick":
        out = rng.sample(out, 7000)
    for _ in range(500 if tier == "quick" else 5000):
        ep = G.rand_canonical_iset(rng, 4, gaps=(1000, 2000, 5000, 10000, 30000))
        if not ep:
            continue
        src = G.rand_sorted_ts(rng, 10, ep, span=200000)
        q = G.rand_sorted_ts(rng, 8, ep, span=200000)
        if rng.random() < 0.5 and src:
            q = sorted(q + [rng.choice(src)] + [(a + b) // 2 for a, b in zip(src, src[1:])][:3])
        out.append((q, src, ep, "decimal"))
    return out


def run(res, tier, seed):
    nap, CF, J = _nap()
    warnings.simplefilter("ignore")
    res.rule = ("_value_from kernel path and public value_from/interpolate: (<=3 queries, <=3(4) sources incl. duplicates, 6 IntervalSets incl. intervals with queries but no or one source, "
                "3 modes) on a 6-point dyadic lattice [seeded subsample of the complete product in quick; complete in thorough] + random decimal cases; compared with the extracted "
                "cursor-machine model (exact index) and with the statement (acceptable source times per query, NaN iff none). non-trivial = >=1 query and >=1 source in ep")
    res.exhaustive = tier == "thorough"
    cs = cases(tier, seed)
    offs = [0, -3 * U, -1000 * U]
    cs = [([x + offs[n % 3] for x in q], [y + offs[n % 3] for y in s_], [(a + offs[n % 3], b + offs[n % 3]) for a, b in ep], kind) for n, (q, s_, ep, kind) in enumerate(cs)]
    lines = []
    for q, s, ep, kind in cs:
        for m in (0, 1, 2):
            lines.append("value_from\t%d\t%s\t%s\t%s" % (m, C.fmt_ints(q), C.fmt_ints(s), C.fmt_iset(ep)))
    out = C.run_model(lines)
    for n, (q, s, ep, kind) in enumerate(cs):
        st, en = G.arr([a for a, _ in ep]), G.arr([b for _, b in ep])
        src = G.arr(s)
        d = np.arange(len(s)) + 100.0
        idx_t = [int(i) for i in J.jitrestrict(src, st, en)]
        nontriv = any(G.mem(x, ep) for x in q) and any(G.mem(y, ep) for y in s)
        res.case((tuple(q), tuple(s), tuple(ep)), nontrivial=nontriv)
        res.count("kind=" + kind)
        for m in (0, 1, 2):
            inp = {"q": q, "src": s, "ep": ep, "mode": MODES[m]}
            t, v = CF._value_from(G.arr(q), src, d, st, en, mode=MODES[m])
            impl_idx = [None if np.isnan(x) else int(x - 100) for x in v]
            exp = oracle_times(q, s, ep, MODES[m])
            # statement-level oracle
            ok = len(impl_idx) == len(exp) and [C.to_ns(x) for x in t] == [e_[0] for e_ in exp]
            if ok:
                for j, (x, acc) in zip(impl_idx, exp):
                    if (j is None) != (acc is None) or (j is not None and s[j] not in acc):
                        ok = False
                    # never from another interval
                    if j is not None and not any(a <= x <= b and a <= s[j] <= b for a, b in ep):
                        ok = False
            if not ok:
                res.violations.append({"key": {"op": "_value_from", "mode": MODES[m]}, "what": "value_from picked a wrong neighbour / crossed an epoch / wrong NaN",
                                       "input": inp, "impl": impl_idx, "expected_times": [(x, sorted(a) if a else None) for x, a in exp]})
            # exact correspondence with the model (index into the restricted source array)
            mo = out[3 * n + m].split()
            impl_r = ["nan" if j is None else str(idx_t.index(j)) for j in impl_idx]
            if impl_r != mo:
                tie = m == 1 and kind == "decimal"
                if tie:
                    res.float_ambiguous += 1
                else:
                    res.disagreements.append({"op": "_value_from", "input": inp, "impl": impl_r, "model": mo})
        if n % 2003 == 0:
            res.sample({"q": q, "src": s, "ep": ep, "before": out[3 * n], "closest": out[3 * n + 1], "after": out[3 * n + 2]})
        if n % (6 if tier == "quick" else 3) == 0 and q and s:
            try:
                v = public_case(nap, q, s, ep)
            except Exception as ex:
                v = {"key": {"op": "public", "part": "exception"}, "what": "public value_from/interpolate raised %s: %s" % (type(ex).__name__, str(ex)[:120]), "input": {"q": q, "src": s, "ep": ep}}
            res.evaluations += 1
            if v:
                res.violations.append(v)


def public_case(nap, q, s, ep):
    epo = nap.IntervalSet(G.arr([a for a, _ in ep]), G.arr([b for _, b in ep]))
    a = nap.Ts(G.arr(q))
    n = len(s)
    srcs = {
        "Tsd_int": nap.Tsd(G.arr(s), np.arange(n) + 100),
        "Tsd_float": nap.Tsd(G.arr(s), np.arange(n) + 100.0),
        "TsdFrame": nap.TsdFrame(G.arr(s), np.stack([np.arange(n) + 100.0, np.arange(n) + 200.0], 1), columns=["a", "b"]),
        "TsdTensor": nap.TsdTensor(G.arr(s), (np.arange(n * 4).reshape(n, 2, 2) // 4) + 100.0),
    }
    for mode in MODES:
        exp = oracle_times(q, s, ep, mode)
        for name, b in srcs.items():
            inp = {"q": q, "src": s, "ep": ep, "mode": mode, "source": name}
            r = a.value_from(b, epo, mode=mode)
            if type(r) is not type(b) or len(r) != len(exp):
                return {"key": {"op": "value_from", "source": name}, "what": "wrong class/length", "input": inp}
            vals = np.asarray(r.values).reshape(len(r), -1)[:, 0] if len(r) else np.array([])
            for val, (x, acc) in zip(vals, exp):
                j = None if (isinstance(val, float) or np.issubdtype(type(val), np.floating)) and np.isnan(val) else int(val - 100)
                if (j is None) != (acc is None) or (j is not None and s[j] not in acc):
                    return {"key": {"op": "value_from", "source": name, "mode": mode}, "what": "public value_from picked a wrong neighbour", "input": inp,
                            "impl": vals.tolist()}
            if name == "Tsd_int":
                anynan = any(acc is None for _, acc in exp)
                if (not anynan and len(exp)) and not np.issubdtype(r.values.dtype, np.integer):
                    return {"key": {"op": "value_from", "part": "dtype"}, "what": "integer dtype not kept although no NaN", "input": inp}
        # TsGroup.value_from = member-wise
    wide = nap.IntervalSet(min(q + s) / 1e9 - 1.0, max(q + s) / 1e9 + 1.0)
    g = nap.TsGroup({4: nap.Ts(G.arr(q)), 1: nap.Ts(G.arr(q[::2]))}, time_support=wide)
    rg = g.value_from(srcs["Tsd_float"], epo, mode="closest")
    r4 = a.value_from(srcs["Tsd_float"], epo, mode="closest")
    if list(rg.keys()) != [1, 4] or not np.array_equal(rg[4].values, r4.values, equal_nan=True):
        return {"key": {"op": "TsGroup.value_from"}, "what": "group value_from differs from member result", "input": {"q": q, "src": s, "ep": ep}}
    # interpolate: per interval piecewise-linear, edges held, NaN if no source in the interval
    b = nap.Tsd(G.arr(s), np.array([(k * 37) % 11 for k in range(n)], dtype=float) * 64)
    try:
        ri = b.interpolate(a, epo)
    except Exception as ex:
        return {"key": {"op": "interpolate", "part": "exception"}, "what": "interpolate raised " + type(ex).__name__, "input": {"q": q, "src": s, "ep": ep}}
    qq = [x for x in q if G.mem(x, ep)]
    if [C.to_ns(x) for x in ri.t] != qq:
        return {"key": {"op": "interpolate", "part": "times"}, "what": "interpolate timestamps are not the queries in ep", "input": {"q": q, "src": s, "ep": ep}}
    for x, val in zip(qq, ri.values):
        a0, b0 = [(u, w) for u, w in ep if u <= x <= w][0]
        pts = [(y, float(b.values[k])) for k, y in enumerate(s) if a0 <= y <= b0]
        if not pts:
            if not np.isnan(val):
                return {"key": {"op": "interpolate", "part": "nan"}, "what": "interval without source sample is not NaN", "input": {"q": q, "src": s, "ep": ep}}
            continue
        # np.interp semantics on duplicates is NumPy's; compare only where source times in the interval are distinct
        if len(set(y for y, _ in pts)) != len(pts):
            continue
        if x <= pts[0][0]:
            want = Fraction(pts[0][1])
        elif x >= pts[-1][0]:
            want = Fraction(pts[-1][1])
        else:
            k = max(i for i, (y, _) in enumerate(pts) if y <= x)
            (y0, v0), (y1, v1) = pts[k], pts[k + 1]
            want = Fraction(v0) + Fraction(v1 - v0) * Fraction(x - y0, y1 - y0)
        if np.isnan(val) or abs(Fraction(float(val)) - want) > Fraction(1, 10**6):
            return {"key": {"op": "interpolate", "part": "value", "zero_span_series": bool(q[0] == q[-1] or s[0] == s[-1])},
                    "what": "interpolated value is not the piecewise-linear value within the same interval",
                    "input": {"q": q, "src": s, "ep": ep}, "x": x, "impl": float(val), "expected": float(want)}
    return None


def search(res, seed):
    r2 = C.Result()
    run(r2, "thorough", seed)
    return r2.violations[0] if r2.violations else None


def replay(payload):
    nap, CF, J = _nap()
    warnings.simplefilter("ignore")
    v = payload.get("violation") or (payload.get("disagreements") or [{}])[0]
    inp = v.get("input", {})
    q, s, ep = inp.get("q", []), inp.get("src", []), [tuple(x) for x in inp.get("ep", [])]
    bad = 0
    for mode in ([inp["mode"]] if "mode" in inp else MODES):
        t, vals = CF._value_from(G.arr(q), G.arr(s), np.arange(len(s)) + 100.0, G.arr([a for a, _ in ep]), G.arr([b for _, b in ep]), mode=mode)
        impl = [None if np.isnan(x) else int(x - 100) for x in vals]
        exp = oracle_times(q, s, ep, mode)
        print(mode, "impl idx", impl, "expected times", [(x, sorted(a) if a else None) for x, a in exp])
        for j, (x, acc) in zip(impl, exp):
            if (j is None) != (acc is None) or (j is not None and s[j] not in acc):
                bad = 1
    pv = public_case(nap, q, s, ep) if q and s else None
    print("public:", pv)
    return 1 if bad or pv else 0
