"""C06 value_from and interpolate pick the right neighbour and never cross an epoch."""
import itertools
import random
import warnings
from fractions import Fraction

import numpy as np

import common as C
import gen as G

LEVEL = "proof"
TRUSTED = ["model: coq/Model/ValueFrom.v (vf_inner/vf_query/vf_interval/vf_all cursor machine); theorems: Proofs/ValueFromProofs.v",
           "interpolate: np.interp is an oracle (piecewise linear through its arguments, edge values held; a section variable in C06_interp_slices); pynapple's per-interval "
           "slicing is what is proved (over C08's get theorems) and checked"]
ASSUMPTIONS = ["exhaustive cases on the dyadic lattice 2^-9 s (float subtraction exact, equidistant ties deterministic); on decimal lattices a query exactly "
               "equidistant (in ticks) from two distinct source times may resolve either way (float_ambiguous, counted only at such a tie) - both satisfy the statement",
               "interpolate is labelled partial: the numeric interpolation is NumPy's; its values are compared with the exact rational piecewise-linear value up to a "
               "float64 rounding bound 2^-50 * (max|v| + |v1-v0| * max|t| / (t1-t0)); at a query equal to a duplicated source time any sample of that time is accepted"]

U = 1953125
MODES = ["before", "closest", "after"]


def _nap():
    import pynapple as nap
    from pynapple.core import _core_functions as CF
    from pynapple.core import _jitted_functions as J
    return nap, CF, J


def oracle_times(q, src, ep, mode):
    """per query in ep: the set of acceptable source TIMES (None = NaN expected)"""
    out = []
    for x in q:
        iv = [(s, e) for s, e in ep if s <= x <= e]
        if not iv:
            continue
        s, e = iv[0]
        cand = [y for y in src if s <= y <= e]
        if mode == "before":
            c = [y for y in cand if y <= x]
            out.append((x, {max(c)} if c else None))
        elif mode == "after":
            c = [y for y in cand if y >= x]
            out.append((x, {min(c)} if c else None))
        else:
            if cand:
                d = min(abs(y - x) for y in cand)
                out.append((x, {y for y in cand if abs(y - x) == d}))
            else:
                out.append((x, None))
    return out


def cases(tier, seed):
    N = 6
    pts = G.lattice(N, step=U)
    eps = [[(0, 5 * U)], [(0, 2 * U), (3 * U, 5 * U)], [(0, U), (2 * U, 3 * U), (4 * U, 5 * U)], [(U, 2 * U)], [(U, 4 * U)], [(0, U), (4 * U, 5 * U)]]
    qn = 3
    sn = 3 if tier == "quick" else 4
    qs_all = G.sorted_multisets(pts, qn)
    src_all = G.sorted_multisets(pts, sn)
    out = [(q, s, ep, "dyadic") for ep in eps for q in qs_all for s in src_all]
    rng = random.Random(seed * 13 + 7)
    if tier == "quick":
        out = rng.sample(out, 7000)
    for _ in range(500 if tier == "quick" else 5000):
        ep = G.rand_canonical_iset(rng, 4, gaps=(1000, 2000, 5000, 10000, 30000))
        if not ep:
            continue
        src = G.rand_sorted_ts(rng, 10, ep, span=200000)
        q = G.rand_sorted_ts(rng, 8, ep, span=200000)
        if rng.random() < 0.5 and src:
            q = sorted(q + [rng.choice(src)] + [(a + b) // 2 for a, b in zip(src, src[1:])][:3])
        out.append((q, src, ep, "decimal"))
    return out


def run(res, tier, seed):
    nap, CF, J = _nap()
    warnings.simplefilter("ignore")
    res.rule = ("_value_from kernel path and public value_from/interpolate: (<=3 queries, <=3(4) sources incl. duplicates and EMPTY query/source series, 6 IntervalSets incl. intervals "
                "with queries but no or one source, 3 modes) on a 6-point dyadic lattice [seeded subsample of the complete product in quick; complete in thorough] + random decimal cases; "
                "compared with the extracted cursor-machine model (exact index; a closest-mode difference is float_ambiguous only at an exact tick tie) and with the statement "
                "(acceptable source times per query, NaN iff none). Public path (every 8th(6th) case, empties included): Tsd int/float, TsdFrame float/int, TsdTensor sources x 3 modes: "
                "class, row shape, result timestamps, EVERY cell of the returned row decodes to one acceptable source row; TsGroup.value_from every member (3, one empty or shorter) x 3 modes (Tsd / TsdFrame / TsdTensor source by mode); "
                "interpolate for the same 5 source kinds, every column, duplicates included (at a duplicated time any of its samples is acceptable), float rounding bound instead of a "
                "fixed tolerance. non-trivial = >=1 query and >=1 source in ep")
    res.exhaustive = tier == "thorough"
    cs = cases(tier, seed)
    offs = [0, -3 * U, -1000 * U]
    cs = [([x + offs[n % 3] for x in q], [y + offs[n % 3] for y in s_], [(a + offs[n % 3], b + offs[n % 3]) for a, b in ep], kind) for n, (q, s_, ep, kind) in enumerate(cs)]
    lines = []
    for q, s, ep, kind in cs:
        for m in (0, 1, 2):
            lines.append("value_from\t%d\t%s\t%s\t%s" % (m, C.fmt_ints(q), C.fmt_ints(s), C.fmt_iset(ep)))
    out = C.run_model(lines)
    for n, (q, s, ep, kind) in enumerate(cs):
        st, en = G.arr([a for a, _ in ep]), G.arr([b for _, b in ep])
        src = G.arr(s)
        d = np.arange(len(s)) + 100.0
        idx_t = [int(i) for i in J.jitrestrict(src, st, en)]
        nontriv = any(G.mem(x, ep) for x in q) and any(G.mem(y, ep) for y in s)
        res.case((tuple(q), tuple(s), tuple(ep)), nontrivial=nontriv)
        res.count("kind=" + kind)
        for m in (0, 1, 2):
            inp = {"q": q, "src": s, "ep": ep, "mode": MODES[m]}
            t, v = CF._value_from(G.arr(q), src, d, st, en, mode=MODES[m])
            impl_idx = [None if np.isnan(x) else int(x - 100) for x in v]
            exp = oracle_times(q, s, ep, MODES[m])
            # statement-level oracle
            ok = len(impl_idx) == len(exp) and [C.to_ns(x) for x in t] == [e_[0] for e_ in exp]
            if ok:
                for j, (x, acc) in zip(impl_idx, exp):
                    if (j is None) != (acc is None) or (j is not None and s[j] not in acc):
                        ok = False
                    # never from another interval
                    if j is not None and not any(a <= x <= b and a <= s[j] <= b for a, b in ep):
                        ok = False
            if not ok:
                res.violations.append({"key": {"op": "_value_from", "mode": MODES[m]}, "what": "value_from picked a wrong neighbour / crossed an epoch / wrong NaN",
                                       "input": inp, "impl": impl_idx, "expected_times": [(x, sorted(a) if a else None) for x, a in exp]})
            # exact correspondence with the model (index into the restricted source array)
            mo = out[3 * n + m].split()
            impl_r = ["nan" if j is None else str(idx_t.index(j)) for j in impl_idx]
            if impl_r != mo:
                # closest mode only: a query EXACTLY equidistant (in ticks) from two distinct source times may resolve either way in float64
                # when the times are not dyadic; the differing positions must all be such ties, anything else is a disagreement
                tie = (m == 1 and kind == "decimal" and len(impl_r) == len(mo) == len(exp)
                       and all(a_ == b_ or (acc is not None and len(acc) > 1) for a_, b_, (_, acc) in zip(impl_r, mo, exp)))
                if tie:
                    res.float_ambiguous += 1
                else:
                    res.disagreements.append({"op": "_value_from", "input": inp, "impl": impl_r, "model": mo})
        if n % 2003 == 0:
            res.sample({"q": q, "src": s, "ep": ep, "before": out[3 * n], "closest": out[3 * n + 1], "after": out[3 * n + 2]})
        if n % (8 if tier == "quick" else 6) == 0:
            res.count("public_cases")
            if not q or not s:
                res.count("public_empty_query_or_source")
            res.evaluations += 1
            res.violations.extend(public_case(nap, q, s, ep))


def _decode(row):
    """index of the source row a returned row is, from every cell (cell k of source row j holds j + 100*(k+1)); None = all NaN; -1 = mixed"""
    row = np.asarray(row, dtype=float).reshape(-1)
    if np.all(np.isnan(row)):
        return None
    if np.any(np.isnan(row)):
        return -1
    js = {int(v) - 100 * (k + 1) for k, v in enumerate(row)}
    if len(js) != 1 or any(float(int(v)) != float(v) for v in row):
        return -1
    return js.pop()


def _cells(n, k, dtype):
    """(n, k) source values: cell c of row j = j + 100*(c+1): every cell identifies its row"""
    return (np.arange(n)[:, None] + 100 * (np.arange(k)[None, :] + 1)).astype(dtype)


def interp_expect(x, pts):
    """statement: piecewise-linear through the samples pts (time order) of x's interval, edge values held, None = NaN.
    Returns None or (set of acceptable exact values, float rounding bound). At a query equal to a sample time any sample at that
    time is acceptable (duplicates: the broken line is vertical there); before the first / after the last time likewise any
    sample at that extreme time; strictly between two distinct consecutive times the segment joins the LAST sample of the left
    time to the FIRST sample of the right one, which is single-valued."""
    if not pts:
        return None
    at = [v for y, v in pts if y == x]
    eps = 2.0 ** -50
    if at:
        return {Fraction(v) for v in at}, 0.0
    if x < pts[0][0]:
        return {Fraction(v) for y, v in pts if y == pts[0][0]}, 0.0
    if x > pts[-1][0]:
        return {Fraction(v) for y, v in pts if y == pts[-1][0]}, 0.0
    k = max(i for i, (y, _) in enumerate(pts) if y < x)
    (y0, v0), (y1, v1) = pts[k], pts[k + 1]
    want = Fraction(v0) + Fraction(v1 - v0) * Fraction(x - y0, y1 - y0)
    # float64 evaluation of v0 + (v1-v0)/(t1-t0)*(t-t0) on times known to 1 ulp: relative error of the time differences
    # <= 2 ulp(max|t|)/(y1-y0), everything else a few ulps of the values
    tol = eps * (max(abs(v0), abs(v1)) + abs(v1 - v0) * max(abs(x), abs(y0), abs(y1), 1) / (y1 - y0))
    return {want}, tol


def public_case(nap, q, s, ep):
    """every violation found on the public path for this input (one per source kind / mode / op at most)"""
    epo = nap.IntervalSet(G.arr([a for a, _ in ep]), G.arr([b for _, b in ep]))
    a = nap.Ts(G.arr(q))
    n = len(s)
    base = {"q": q, "src": s, "ep": ep}
    srcs = {
        "Tsd_int": nap.Tsd(G.arr(s), _cells(n, 1, np.int64)[:, 0]),
        "Tsd_float": nap.Tsd(G.arr(s), _cells(n, 1, float)[:, 0]),
        "TsdFrame": nap.TsdFrame(G.arr(s), _cells(n, 2, float), columns=["a", "b"]),
        "TsdFrame_int": nap.TsdFrame(G.arr(s), _cells(n, 3, np.int64), columns=["a", "b", "c"]),
        "TsdTensor": nap.TsdTensor(G.arr(s), _cells(n, 4, float).reshape(n, 2, 2)),
    }
    wide = nap.IntervalSet(min(q + s + [0]) / 1e9 - 1.0, max(q + s + [0]) / 1e9 + 1.0)
    members = {4: q, 1: q[::2], 9: q[1:]}
    g = nap.TsGroup({k_: nap.Ts(G.arr(m_)) for k_, m_ in members.items()}, time_support=wide)

    def vf(name, b, mode, exp):
        inp = dict(base, mode=mode, source=name)
        r = a.value_from(b, epo, mode=mode)
        if type(r) is not type(b) or len(r) != len(exp) or r.values.shape[1:] != b.values.shape[1:]:
            return {"key": {"op": "value_from", "part": "class_length", "source": name}, "what": "wrong class/length/row shape", "input": inp}
        if [C.to_ns(x) for x in r.t] != [x for x, _ in exp]:
            return {"key": {"op": "value_from", "part": "times", "source": name}, "what": "result timestamps are not the queries lying in ep", "input": inp,
                    "impl": [C.to_ns(x) for x in r.t]}
        rows = np.asarray(r.values).reshape(len(r), -1) if len(r) else []
        for row, (x, acc) in zip(rows, exp):
            j = _decode(row)
            if j == -1 or (j is None) != (acc is None) or (j is not None and not (0 <= j < n and s[j] in acc)):
                return {"key": {"op": "value_from", "part": "row", "source": name, "mode": mode},
                        "what": "public value_from: the returned row is not (the whole of) an acceptable source row / NaN iff no candidate", "input": inp,
                        "x": x, "impl": np.asarray(row).tolist()}
        if name in ("Tsd_int", "TsdFrame_int"):
            anynan = any(acc is None for _, acc in exp)
            if (not anynan and len(exp)) and not np.issubdtype(r.values.dtype, np.integer):
                return {"key": {"op": "value_from", "part": "dtype", "source": name}, "what": "integer dtype not kept although no NaN", "input": inp}
        return None

    def grp(name, mode):
        # TsGroup.value_from = member-wise, every member
        rg = g.value_from(srcs[name], epo, mode=mode)
        if list(rg.keys()) != sorted(members):
            return {"key": {"op": "TsGroup.value_from", "part": "keys"}, "what": "group value_from lost/reordered members", "input": dict(base, mode=mode, source=name)}
        for k_, m_ in members.items():
            rm = nap.Ts(G.arr(m_)).value_from(srcs[name], epo, mode=mode)
            if type(rg[k_]) is not type(rm) or not np.array_equal(rg[k_].t, rm.t) or not np.array_equal(rg[k_].values, rm.values, equal_nan=True):
                return {"key": {"op": "TsGroup.value_from", "part": "member", "mode": mode}, "what": "group value_from differs from the member's own value_from",
                        "input": dict(base, mode=mode, source=name, member=k_)}
        return None

    # interpolate: per interval piecewise-linear, edges held, NaN if no source in the interval; every source class, int and float
    qq = [x for x in q if G.mem(x, ep)]
    zero_span = bool((len(q) > 0 and q[0] == q[-1]) or (len(s) > 0 and s[0] == s[-1]))
    isrc = {
        "Tsd_float": (1, float, lambda v: nap.Tsd(G.arr(s), v[:, 0])),
        "Tsd_int": (1, np.int64, lambda v: nap.Tsd(G.arr(s), v[:, 0])),
        "TsdFrame": (2, float, lambda v: nap.TsdFrame(G.arr(s), v, columns=["a", "b"])),
        "TsdFrame_int": (2, np.int64, lambda v: nap.TsdFrame(G.arr(s), v)),
        "TsdTensor": (4, float, lambda v: nap.TsdTensor(G.arr(s), v.reshape(n, 2, 2))),
    }

    def interp(name):
        kc, dt, mk = isrc[name]
        vals = np.array([[((k * 37 + c * 5) % 11) * 64 for c in range(kc)] for k in range(n)], dtype=dt).reshape(n, kc)
        b = mk(vals)
        inp = dict(base, source=name)
        ri = b.interpolate(a, epo)
        if type(ri) is not type(b) or ri.values.shape[1:] != b.values.shape[1:]:
            return {"key": {"op": "interpolate", "part": "class", "source": name}, "what": "interpolate changed the class / row shape", "input": inp}
        if [C.to_ns(x) for x in ri.t] != qq:
            return {"key": {"op": "interpolate", "part": "times", "source": name}, "what": "interpolate timestamps are not the queries in ep", "input": inp}
        got = np.asarray(ri.values, dtype=float).reshape(len(qq), -1) if qq else []
        for x, row in zip(qq, got):
            a0, b0 = [(u, w) for u, w in ep if u <= x <= w][0]
            for c in range(kc):
                val = float(row[c])
                e_ = interp_expect(x, [(y, int(vals[k, c])) for k, y in enumerate(s) if a0 <= y <= b0])
                if e_ is None:
                    if not np.isnan(val):
                        return {"key": {"op": "interpolate", "part": "nan", "source": name}, "what": "interval without source sample is not NaN", "input": inp, "x": x}
                    continue
                acc, tol = e_
                if np.isnan(val) or not any(abs(Fraction(val) - w) <= Fraction(tol) for w in acc):
                    # got_nan & zero_span_series: the one recorded finding (a series whose timestamps all coincide has an empty default support)
                    return {"key": {"op": "interpolate", "part": "value", "source": name, "zero_span_series": zero_span, "got_nan": bool(np.isnan(val))},
                            "what": "interpolated value is not the piecewise-linear value within the same interval",
                            "input": inp, "x": x, "column": c, "impl": val, "expected": sorted(float(w) for w in acc)}
        return None

    V = []

    def guard(op, f, *args):
        try:
            v = f(*args)
        except Exception as ex:
            v = {"key": {"op": op, "part": "exception"}, "what": "public %s raised %s: %s" % (op, type(ex).__name__, str(ex)[:120]),
                 "input": dict(base, args=[x for x in args if isinstance(x, str)])}
        if v:
            V.append(v)

    for mode in MODES:
        exp = oracle_times(q, s, ep, mode)
        for name, b in srcs.items():
            guard("value_from", vf, name, b, mode, exp)
        guard("TsGroup.value_from", grp, {"before": "Tsd_float", "closest": "TsdFrame", "after": "TsdTensor"}[mode], mode)
    for name in isrc:
        guard("interpolate", interp, name)
    return V


def search(res, seed):
    r2 = C.Result()
    run(r2, "thorough", seed)
    return r2.violations[0] if r2.violations else None


def replay(payload):
    nap, CF, J = _nap()
    warnings.simplefilter("ignore")
    v = payload.get("violation") or (payload.get("disagreements") or [{}])[0]
    inp = v.get("input", {})
    q, s, ep = inp.get("q", []), inp.get("src", []), [tuple(x) for x in inp.get("ep", [])]
    bad = 0
    for mode in ([inp["mode"]] if "mode" in inp else MODES):
        t, vals = CF._value_from(G.arr(q), G.arr(s), np.arange(len(s)) + 100.0, G.arr([a for a, _ in ep]), G.arr([b for _, b in ep]), mode=mode)
        impl = [None if np.isnan(x) else int(x - 100) for x in vals]
        exp = oracle_times(q, s, ep, mode)
        print(mode, "impl idx", impl, "expected times", [(x, sorted(a) if a else None) for x, a in exp])
        for j, (x, acc) in zip(impl, exp):
            if (j is None) != (acc is None) or (j is not None and s[j] not in acc):
                bad = 1
    pv = [v_ for v_ in public_case(nap, q, s, ep) if C.match_known("C06", v_) is None]
    print("public (violations not matching a known finding):", pv)
    return 1 if bad or pv else 0

# --- Glue layer (DESIGN.md 10.11): the Python between the API and the kernels, tied by proof in Properties/C06c.v; this is the
# executable tie of its trusted parts (translator tools/py2glue.py + primitive semantics Glue/Interp.v): the TRANSLATED term run by the
# extracted evaluator (ocaml/gluedriver) against the REAL routine of pynapple on the same inputs (harness/gluecmp.py).
import gluecmp  # noqa: E402

DRIVERS = list(globals().get("DRIVERS", ["driver"])) + ["gluedriver"]
GLUE_ROUTINES = ['_value_from', '_Base.value_from']
_run_without_glue = run


def run(res, tier, seed):
    _run_without_glue(res, tier, seed)
    gluecmp.check(res, GLUE_ROUTINES, tier, seed)
    res.rule += (" | glue: for each of %s the translated Glue.Lang term (coq/Gen/Glue.v) is evaluated by the extracted Glue/Interp.v and compared with the "
                 "real pynapple routine on canonical sets of a dyadic lattice (incl. negative times, empty, touching, duplicates, unsorted/improper "
                 "constructor input, thresholds equal to a length or gap); exceptions must match the model's error kind" % ", ".join(GLUE_ROUTINES))
