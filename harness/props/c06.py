"""C06 value_from and interpolate pick the right neighbour and never cross an epoch."""
import itertools
import random
import warnings
from fractions import Fraction

import numpy as np

import common as C
import gen as G

LEVEL = "proof"
TRUSTED = ["model: coq/Model/ValueFrom.v (vf_inner/vf_query/vf_interval/vf_all cursor machine); theorems: Proofs/ValueFromProofs.v",
           "interpolate: np.interp is an oracle (piecewise linear through its arguments, edge values held; a section variable in C06_interp_slices); pynapple's per-interval "
           "slicing is what is proved (over C08's get theorems) and checked"]
ASSUMPTIONS = ["exhaustive cases on the dyadic lattice 2^-9 s (float subtraction exact, equidistant ties deterministic); on decimal lattices a query exactly "
               "equidistant (in ticks) from two distinct source times may resolve either way (float_ambiguous, counted only at such a tie) - both satisfy the statement",
               "interpolate is labelled partial: the numeric interpolation is NumPy's; its values are compared with the exact rational piecewise-linear value up to a "
               "float64 rounding bound 2^-50 * (max|v| + |v1-v0| * max|t| / (t1-t0)); at a query equal to a duplicated source time any sample of that time is accepted"]

U = 1953125
MODES = ["before", "closest", "after"]


def _nap():
    import pynapple as nap
    from pynapple.core import _core_functions as CF
    from pynapple.core import _jitted_functions as J
    return nap, CF, J


def oracle_times(q, src, ep, mode):
    """per query in ep: the set of acceptable source TIMES (None = NaN expected)"""
    out = []
    for x in q:
        iv = [(s, e) for s, e in ep if s <= x <= e]
        if not iv:
            continue
        s, e = iv[0]
        cand = [y for y in src if s <= y <= e]
        if mode == "before":
            c = [y for y in cand if y <= x]
            out.append((x, {max(c)} if c else None))
        elif mode == "after":
            c = [y for y in cand if y >= x]
            out.append((x, {min(c)} if c else None))
        else:
            if cand:
                d = min(abs(y - x) for y in cand)
                out.append((x, {y for y in cand if abs(y - x) == d}))
            else:
                out.append((x, None))
    return out


def cases(tier, seed):
    N = 6
    pts = G.lattice(N, step=U)
    eps = [[(0, 5 * U)], [(0, 2 * U), (3 * U, 5 * U)], [(0, U), (2 * U, 3 * U), (4 * U, 5 * U)], [(U, 2 * U)], [(U, 4 * U)], [(0, U), (4 * U, 5 * U)]]
    qn = 3
    sn = 3 if tier == "quick" else 4
    qs_all = G.sorted_multisets(pts, qn)
    src_all = G.sorted_multisets(pts, sn)
    out = [(q, s, ep, "dyadic") for ep in eps for q in qs_all for s in src_all]
    rng = random.Random(seed * 13 + 7)
    if tier == "quick":
        out = rng.sample(out, 7000)
    for _ in range(500 if tier == "quick" else 5000):
        ep = G.rand_canonical_iset(rng, 4, gaps=(1000, 2000, 5000, 10000, 30000))
        if not ep:
            continue
        src = G.rand_sorted_ts(rng, 10, ep, span=200000)
        q = G.rand_sorted_ts(rng, 8, ep, span=200000)
        if rng.random() < 0.5 and src:
            q = sorted(q + [rng.choice(src)] + [(a + b) // 2 for a, b in zip(src, src[1:])][:3])
        out.append((q, src, ep, "decimal"))
    return out


def run(res, tier, seed):
    nap, CF, J = _nap()
    warnings.simplefilter("ignore")
    res.rule = ("_value_from kernel path and public value_from/interpolate: (<=3 queries, <=3(4) sources incl. duplicates and EMPTY query/source series, 6 IntervalSets incl. intervals "
                "with queries but no or one source, 3 modes) on a 6-point dyadic lattice [seeded subsample of the complete product in quick; complete in thorough] + random decimal cases; "
                "compared with the extracted cursor-machine model (exact index; a closest-mode difference is float_ambiguous only at an exact tick tie) and with the statement "
                "(acceptable source times per query, NaN iff none). Public path (every 8th(6th) case, empties included): Tsd int/float, TsdFrame float/int, TsdTensor sources x 3 modes: "
                "class, row shape, result timestamps, EVERY cell of the returned row decodes to one acceptable source row; TsGroup.value_from every member (3, one empty or shorter) x 3 modes (Tsd / TsdFrame / TsdTensor source by mode); "
                "interpolate for the same 5 source kinds, every column, duplicates included (at a duplicated time any of its samples is acceptable), float rounding bound instead of a "
                "fixed tolerance. non-trivial = >=1 query and >=1 source in ep. " + FORMS_RULE)
    res.exhaustive = tier == "thorough"
    cs = cases(tier, seed)
    offs = [0, -3 * U, -1000 * U]
    cs = [([x + offs[n % 3] for x in q], [y + offs[n % 3] for y in s_], [(a + offs[n % 3], b + offs[n % 3]) for a, b in ep], kind) for n, (q, s_, ep, kind) in enumerate(cs)]
    n_orig = len(cs)
    cs = cs + extra_cases(tier, seed)
    lines = []
    for q, s, ep, kind in cs:
        for m in (0, 1, 2):
            lines.append("value_from\t%d\t%s\t%s\t%s" % (m, C.fmt_ints(q), C.fmt_ints(s), C.fmt_iset(ep)))
    out = C.run_model(lines)
    for n, (q, s, ep, kind) in enumerate(cs):
        st, en = G.arr([a for a, _ in ep]), G.arr([b for _, b in ep])
        src = G.arr(s)
        d = np.arange(len(s)) + 100.0
        idx_t = [int(i) for i in J.jitrestrict(src, st, en)]
        nontriv = any(G.mem(x, ep) for x in q) and any(G.mem(y, ep) for y in s)
        res.case((tuple(q), tuple(s), tuple(ep)), nontrivial=nontriv)
        res.count("kind=" + kind)
        for m in (0, 1, 2):
            inp = {"q": q, "src": s, "ep": ep, "mode": MODES[m]}
            t, v = CF._value_from(G.arr(q), src, d, st, en, mode=MODES[m])
            impl_idx = [None if np.isnan(x) else int(x - 100) for x in v]
            exp = oracle_times(q, s, ep, MODES[m])
            # statement-level oracle
            ok = len(impl_idx) == len(exp) and [C.to_ns(x) for x in t] == [e_[0] for e_ in exp]
            if ok:
                for j, (x, acc) in zip(impl_idx, exp):
                    if (j is None) != (acc is None) or (j is not None and s[j] not in acc):
                        ok = False
                    # never from another interval
                    if j is not None and not any(a <= x <= b and a <= s[j] <= b for a, b in ep):
                        ok = False
            if not ok:
                res.violations.append({"key": {"op": "_value_from", "mode": MODES[m]}, "what": "value_from picked a wrong neighbour / crossed an epoch / wrong NaN",
                                       "input": inp, "impl": impl_idx, "expected_times": [(x, sorted(a) if a else None) for x, a in exp]})
            # exact correspondence with the model (index into the restricted source array)
            mo = out[3 * n + m].split()
            impl_r = ["nan" if j is None else str(idx_t.index(j)) for j in impl_idx]
            if impl_r != mo:
                # closest mode only: a query EXACTLY equidistant (in ticks) from two distinct source times may resolve either way in float64
                # when the times are not dyadic; the differing positions must all be such ties, anything else is a disagreement
                tie = (m == 1 and kind.startswith("decimal") and len(impl_r) == len(mo) == len(exp)
                       and all(a_ == b_ or (acc is not None and len(acc) > 1) for a_, b_, (_, acc) in zip(impl_r, mo, exp)))
                if tie:
                    res.float_ambiguous += 1
                else:
                    res.disagreements.append({"op": "_value_from", "input": inp, "impl": impl_r, "model": mo})
        if n % 2003 == 0:
            res.sample({"q": q, "src": s, "ep": ep, "before": out[3 * n], "closest": out[3 * n + 1], "after": out[3 * n + 2]})
        if (n % (8 if tier == "quick" else 6) == 0) if n < n_orig else ((n - n_orig) % (16 if tier == "quick" else 12) == 0):
            res.count("public_cases")
            if n >= n_orig:
                res.count("public_cases_kind=" + kind)
            if not q or not s:
                res.count("public_empty_query_or_source")
            res.evaluations += 1
            res.violations.extend(public_case(nap, q, s, ep))
    run_forms(res, nap, tier, seed, cs, n_orig)


def run_forms(res, nap, tier, seed, cs, n_orig):
    """the argument-form cases: each takes one input (q, s, ep) of the kernel cases and ONE sampled combination of forms"""
    import shutil
    import tempfile
    frng = random.Random(seed * 29 + 11)
    orig, extra = cs[:n_orig], cs[n_orig:]
    nontriv = [c for c in orig if any(G.mem(x, c[2]) for x in c[0]) and any(G.mem(y, c[2]) for y in c[1])]
    tmp = tempfile.mkdtemp(prefix="c06_forms_")
    try:
        for i in range(FORMS_QUICK if tier == "quick" else FORMS_THOROUGH):
            r = frng.random()
            if r < 0.4 and nontriv:
                q, s, ep, kind = frng.choice(nontriv)
            elif r < 0.8:
                q, s, ep, kind = frng.choice(extra)
            elif r < 0.9:
                q, s, ep, kind = frng.choice(orig)
            else:
                q, s, ep, kind = frng.choice(nontriv + extra)
                q, kind = list(s), "self"
            if len(s) > P13:
                s = s[:P13]
            case_seed = seed * 1000003 + 31 * i + 11
            res.count("forms_cases")
            res.count("forms_family=" + kind)
            res.case(("forms", case_seed, tuple(q), tuple(s), tuple(ep)), nontrivial=any(G.mem(x, ep) for x in q) and any(G.mem(y, ep) for y in s))
            res.violations.extend(forms_case(nap, case_seed, q, s, ep, kind, res, tmp))
    finally:
        shutil.rmtree(tmp, ignore_errors=True)


def _decode(row):
    """index of the source row a returned row is, from every cell (cell k of source row j holds j + 100*(k+1)); None = all NaN; -1 = mixed"""
    row = np.asarray(row, dtype=float).reshape(-1)
    if np.all(np.isnan(row)):
        return None
    if np.any(np.isnan(row)):
        return -1
    js = {int(v) - 100 * (k + 1) for k, v in enumerate(row)}
    if len(js) != 1 or any(float(int(v)) != float(v) for v in row):
        return -1
    return js.pop()


def _cells(n, k, dtype):
    """(n, k) source values: cell c of row j = j + 100*(c+1): every cell identifies its row"""
    return (np.arange(n)[:, None] + 100 * (np.arange(k)[None, :] + 1)).astype(dtype)


def interp_expect(x, pts, left=None, right=None):
    """statement: piecewise-linear through the samples pts (time order) of x's interval, edge values held, None = NaN.
    Returns None or (set of acceptable exact values, float rounding bound). At a query equal to a sample time any sample at that
    time is acceptable (duplicates: the broken line is vertical there); before the first / after the last time likewise any
    sample at that extreme time; strictly between two distinct consecutive times the segment joins the LAST sample of the left
    time to the FIRST sample of the right one, which is single-valued."""
    if not pts:
        return None
    at = [v for y, v in pts if y == x]
    eps = 2.0 ** -50
    if at:
        return {Fraction(v) for v in at}, 0.0
    if x < pts[0][0]:
        if left is not None:        # documented parameter: the value for queries before the first sample (default None = first value held)
            return {Fraction(float(left))}, 0.0
        return {Fraction(v) for y, v in pts if y == pts[0][0]}, 0.0
    if x > pts[-1][0]:
        if right is not None:
            return {Fraction(float(right))}, 0.0
        return {Fraction(v) for y, v in pts if y == pts[-1][0]}, 0.0
    k = max(i for i, (y, _) in enumerate(pts) if y < x)
    (y0, v0), (y1, v1) = pts[k], pts[k + 1]
    want = Fraction(v0) + Fraction(v1 - v0) * Fraction(x - y0, y1 - y0)
    # float64 evaluation of v0 + (v1-v0)/(t1-t0)*(t-t0) on times known to 1 ulp: relative error of the time differences
    # <= 2 ulp(max|t|)/(y1-y0), everything else a few ulps of the values
    tol = eps * (max(abs(v0), abs(v1)) + abs(v1 - v0) * max(abs(x), abs(y0), abs(y1), 1) / (y1 - y0))
    return {want}, tol


def public_case(nap, q, s, ep):
    """every violation found on the public path for this input (one per source kind / mode / op at most)"""
    epo = nap.IntervalSet(G.arr([a for a, _ in ep]), G.arr([b for _, b in ep]))
    a = nap.Ts(G.arr(q))
    n = len(s)
    base = {"q": q, "src": s, "ep": ep}
    srcs = {
        "Tsd_int": nap.Tsd(G.arr(s), _cells(n, 1, np.int64)[:, 0]),
        "Tsd_float": nap.Tsd(G.arr(s), _cells(n, 1, float)[:, 0]),
        "TsdFrame": nap.TsdFrame(G.arr(s), _cells(n, 2, float), columns=["a", "b"]),
        "TsdFrame_int": nap.TsdFrame(G.arr(s), _cells(n, 3, np.int64), columns=["a", "b", "c"]),
        "TsdTensor": nap.TsdTensor(G.arr(s), _cells(n, 4, float).reshape(n, 2, 2)),
    }
    wide = nap.IntervalSet(min(q + s + [0]) / 1e9 - 1.0, max(q + s + [0]) / 1e9 + 1.0)
    members = {4: q, 1: q[::2], 9: q[1:]}
    g = nap.TsGroup({k_: nap.Ts(G.arr(m_)) for k_, m_ in members.items()}, time_support=wide)

    def vf(name, b, mode, exp):
        inp = dict(base, mode=mode, source=name)
        r = a.value_from(b, epo, mode=mode)
        if type(r) is not type(b) or len(r) != len(exp) or r.values.shape[1:] != b.values.shape[1:]:
            return {"key": {"op": "value_from", "part": "class_length", "source": name}, "what": "wrong class/length/row shape", "input": inp}
        if [C.to_ns(x) for x in r.t] != [x for x, _ in exp]:
            return {"key": {"op": "value_from", "part": "times", "source": name}, "what": "result timestamps are not the queries lying in ep", "input": inp,
                    "impl": [C.to_ns(x) for x in r.t]}
        rows = np.asarray(r.values).reshape(len(r), -1) if len(r) else []
        for row, (x, acc) in zip(rows, exp):
            j = _decode(row)
            if j == -1 or (j is None) != (acc is None) or (j is not None and not (0 <= j < n and s[j] in acc)):
                return {"key": {"op": "value_from", "part": "row", "source": name, "mode": mode},
                        "what": "public value_from: the returned row is not (the whole of) an acceptable source row / NaN iff no candidate", "input": inp,
                        "x": x, "impl": np.asarray(row).tolist()}
        if name in ("Tsd_int", "TsdFrame_int"):
            anynan = any(acc is None for _, acc in exp)
            if (not anynan and len(exp)) and not np.issubdtype(r.values.dtype, np.integer):
                return {"key": {"op": "value_from", "part": "dtype", "source": name}, "what": "integer dtype not kept although no NaN", "input": inp}
        return None

    def grp(name, mode):
        # TsGroup.value_from = member-wise, every member
        rg = g.value_from(srcs[name], epo, mode=mode)
        if list(rg.keys()) != sorted(members):
            return {"key": {"op": "TsGroup.value_from", "part": "keys"}, "what": "group value_from lost/reordered members", "input": dict(base, mode=mode, source=name)}
        for k_, m_ in members.items():
            rm = nap.Ts(G.arr(m_)).value_from(srcs[name], epo, mode=mode)
            if type(rg[k_]) is not type(rm) or not np.array_equal(rg[k_].t, rm.t) or not np.array_equal(rg[k_].values, rm.values, equal_nan=True):
                return {"key": {"op": "TsGroup.value_from", "part": "member", "mode": mode}, "what": "group value_from differs from the member's own value_from",
                        "input": dict(base, mode=mode, source=name, member=k_)}
        return None

    # interpolate: per interval piecewise-linear, edges held, NaN if no source in the interval; every source class, int and float
    qq = [x for x in q if G.mem(x, ep)]
    zero_span = bool((len(q) > 0 and q[0] == q[-1]) or (len(s) > 0 and s[0] == s[-1]))
    isrc = {
        "Tsd_float": (1, float, lambda v: nap.Tsd(G.arr(s), v[:, 0])),
        "Tsd_int": (1, np.int64, lambda v: nap.Tsd(G.arr(s), v[:, 0])),
        "TsdFrame": (2, float, lambda v: nap.TsdFrame(G.arr(s), v, columns=["a", "b"])),
        "TsdFrame_int": (2, np.int64, lambda v: nap.TsdFrame(G.arr(s), v)),
        "TsdTensor": (4, float, lambda v: nap.TsdTensor(G.arr(s), v.reshape(n, 2, 2))),
    }

    def interp(name):
        kc, dt, mk = isrc[name]
        vals = np.array([[((k * 37 + c * 5) % 11) * 64 for c in range(kc)] for k in range(n)], dtype=dt).reshape(n, kc)
        b = mk(vals)
        inp = dict(base, source=name)
        ri = b.interpolate(a, epo)
        if type(ri) is not type(b) or ri.values.shape[1:] != b.values.shape[1:]:
            return {"key": {"op": "interpolate", "part": "class", "source": name}, "what": "interpolate changed the class / row shape", "input": inp}
        if [C.to_ns(x) for x in ri.t] != qq:
            return {"key": {"op": "interpolate", "part": "times", "source": name}, "what": "interpolate timestamps are not the queries in ep", "input": inp}
        got = np.asarray(ri.values, dtype=float).reshape(len(qq), -1) if qq else []
        for x, row in zip(qq, got):
            a0, b0 = [(u, w) for u, w in ep if u <= x <= w][0]
            for c in range(kc):
                val = float(row[c])
                e_ = interp_expect(x, [(y, int(vals[k, c])) for k, y in enumerate(s) if a0 <= y <= b0])
                if e_ is None:
                    if not np.isnan(val):
                        return {"key": {"op": "interpolate", "part": "nan", "source": name}, "what": "interval without source sample is not NaN", "input": inp, "x": x}
                    continue
                acc, tol = e_
                if np.isnan(val) or not any(abs(Fraction(val) - w) <= Fraction(tol) for w in acc):
                    # got_nan & zero_span_series: the one recorded finding (a series whose timestamps all coincide has an empty default support)
                    return {"key": {"op": "interpolate", "part": "value", "source": name, "zero_span_series": zero_span, "got_nan": bool(np.isnan(val))},
                            "what": "interpolated value is not the piecewise-linear value within the same interval",
                            "input": inp, "x": x, "column": c, "impl": val, "expected": sorted(float(w) for w in acc)}
        return None

    V = []

    def guard(op, f, *args):
        try:
            v = f(*args)
        except Exception as ex:
            v = {"key": {"op": op, "part": "exception"}, "what": "public %s raised %s: %s" % (op, type(ex).__name__, str(ex)[:120]),
                 "input": dict(base, args=[x for x in args if isinstance(x, str)])}
        if v:
            V.append(v)

    for mode in MODES:
        exp = oracle_times(q, s, ep, mode)
        for name, b in srcs.items():
            guard("value_from", vf, name, b, mode, exp)
        guard("TsGroup.value_from", grp, {"before": "Tsd_float", "closest": "TsdFrame", "after": "TsdTensor"}[mode], mode)
    for name in isrc:
        guard("interpolate", interp, name)

    # self lookup (theorem C06_self_lookup): a query that IS a source timestamp gets the source row AT that timestamp, in every mode
    def selfq(name, b, mode):
        sub = s[::2]
        r = nap.Ts(G.arr(sub)).value_from(b, epo, mode=mode)
        want = [x for x in sub if G.mem(x, ep)]
        inp = dict(base, mode=mode, source=name, queries=sub)
        if [C.to_ns(x) for x in r.t] != want:
            return {"key": {"op": "value_from", "part": "self_times", "source": name}, "what": "self lookup: result timestamps are not the source's own instants lying in ep", "input": inp}
        rows = np.asarray(r.values).reshape(len(r), -1) if len(r) else []
        for row, x in zip(rows, want):
            j = _decode(row)
            if j is None or j == -1 or not (0 <= j < n) or s[j] != x:
                return {"key": {"op": "value_from", "part": "self_row", "source": name, "mode": mode},
                        "what": "self lookup: a query equal to a source timestamp did not get the source row at that timestamp", "input": inp, "x": x,
                        "impl": np.asarray(row).tolist()}
        return None

    if len(s) > 0:
        for mode in MODES:
            for name in ("Tsd_int", "TsdFrame", "TsdTensor"):
                guard("value_from", selfq, name, srcs[name], mode)
    return V


# ======================================================================================
# widened ARGUMENT FORMS (same statement, same oracles; only the way the operands and the call are written varies)
FORMS_QUICK, FORMS_THOROUGH = 1500, 12000
FAR = 51200000 * U          # 1e5 s, a multiple of the dyadic unit
SEC = 10 ** 9
DTYPES = ["float64", "float32", "float64", "float32", "int64", "int32", "int16", "int8", "uint8", "uint16", "uint32", "uint64", "bool"]
P13 = 13
_EPS6 = [[(0, 5)], [(0, 2), (3, 5)], [(0, 1), (2, 3), (4, 5)], [(1, 2)], [(1, 4)], [(0, 1), (4, 5)]]


def extra_cases(tier, seed):
    """further (q, s, ep, kind) for the kernel / model path, already at their final place on the time axis:
    dyadic lattice 1e5 s away from 0 (both signs) and with an interval END exactly at 0; whole-second lattice (integer time forms);
    many intervals (up to 12) with up to 13 sources; the EMPTY IntervalSet"""
    rng = random.Random(seed * 17 + 3)
    k = 1 if tier == "quick" else 8
    out = []
    for step, kind, offs in ((U, "dyadic_far", [FAR, -FAR, -2 * U, -5 * U]), (SEC, "seconds", [0, -3 * SEC, 100000 * SEC, -100000 * SEC])):
        pts = G.lattice(6, step=step)
        for _ in range(220 * k):
            ep = [(a * step, b * step) for a, b in rng.choice(_EPS6)]
            q = sorted(rng.choices(pts, k=rng.randint(0, 4)))
            s = sorted(rng.choices(pts, k=rng.randint(0, 4)))
            o = rng.choice(offs)
            out.append(([x + o for x in q], [y + o for y in s], [(a + o, b + o) for a, b in ep], kind))
    for _ in range(160 * k):
        o = rng.choice([0, -150000, 10 ** 14])
        ep = G.rand_canonical_iset(rng, 12, lo=o, gaps=(1000, 2000, 5000, 10000, 30000))
        if not ep:
            continue
        src = G.rand_sorted_ts(rng, 13, ep, lo=o, span=300000)
        q = G.rand_sorted_ts(rng, 10, ep, lo=o, span=300000)
        if rng.random() < 0.5 and src:
            q = sorted(q + [rng.choice(src)] + [(a + b) // 2 for a, b in zip(src, src[1:])][:3])
        out.append((q, src, ep, "decimal_many"))
    pts = G.lattice(6, step=U)
    for _ in range(30 * k):
        o = rng.choice([0, -3 * U, FAR])
        out.append((sorted(o + x for x in rng.choices(pts, k=rng.randint(0, 3))), sorted(o + x for x in rng.choices(pts, k=rng.randint(0, 3))), [], "empty_ep"))
    return out


def _vals(n, rowshape, dtype, pattern, rng):
    """(n, *rowshape) source data. ident: cell c of row j = ((37 j + 5 c) mod 13) * m: every cell identifies its row (n <= 13) and the
    sequence is not linear in j (a wrong interpolation neighbour shows); nonfinite: some cells NaN / +inf / -inf; const; zeros"""
    k = int(np.prod(rowshape)) if rowshape else 1
    base = (np.arange(n)[:, None] * 37 + np.arange(k)[None, :] * 5) % P13
    if dtype == "bool":
        v = (base % 2).astype(bool)
    else:
        m = 8 if dtype in ("int8", "uint8") else 64
        v = (base * m).astype(dtype)
    if pattern == "const":
        v = np.full((n, k), 1 if dtype == "bool" else 24, dtype=dtype)
    elif pattern == "zeros":
        v = np.zeros((n, k), dtype=dtype)
    elif pattern == "nonfinite":
        v = v.copy()
        for _ in range(max(1, (n * k) // 3)):
            if n:
                v[rng.randrange(n), rng.randrange(k)] = rng.choice([np.nan, np.inf, -np.inf])
    return v.reshape((n,) + tuple(rowshape))


def _layout(v, how):
    if how == "F" and v.ndim >= 2:
        return np.asfortranarray(v)
    if how == "strided":
        return np.repeat(v, 2, axis=0)[::2]
    return v


def _time_arg(nap, rng, ticks, res, who, allow_unsorted=False, no_series=False):
    """the same instants written in one of the accepted forms -> (argument, time_units)"""
    import pandas as pd
    x = G.arr(ticks)
    forms = ["ndarray", "list", "tuple", "pd.Series", "pd.Index", "TsIndex", "t", "ms", "us", "strided"]
    if len(ticks) and all(v % SEC == 0 for v in ticks):
        forms += ["int64", "int32", "pyint"] * 2
        if min(ticks) >= 0:
            forms += ["uint64", "uint32"] + (["uint8"] if max(ticks) < 256 * SEC else [])
    if len(ticks) and all(float(np.float32(v)) == float(v) for v in x):
        forms += ["float32"]
    if len(ticks) == 1:
        forms += ["pyfloat", "np.float64"]
    if allow_unsorted and len(set(ticks)) > 1:
        forms += ["unsorted_list"]
    if no_series:       # Tsd(t=pandas.Series) means "a Series holding the data, indexed by time" (see the pandas_object form of the callers)
        forms.remove("pd.Series")
    f = rng.choice(forms)
    res.count("form:%s_time=%s" % (who, f))
    unit = "s"
    if f == "list":
        arg = [float(v) for v in x]
    elif f == "tuple":
        arg = tuple(float(v) for v in x)
    elif f == "pd.Series":
        arg = pd.Series(x, dtype=float)
    elif f == "pd.Index":
        arg = pd.Index(x, dtype=float)
    elif f == "TsIndex":
        arg = nap.Ts(x).index
    elif f == "t":
        arg = nap.Ts(x).t
    elif f in ("ms", "us"):
        unit = f
        arg = np.asarray(ticks, dtype=np.float64) / (1e6 if f == "ms" else 1e3) if len(ticks) else np.array([], dtype=np.float64)
    elif f == "strided":
        arg = np.repeat(x, 2)[::2]
    elif f in ("int64", "int32", "uint64", "uint32", "uint8"):
        arg = np.array([v // SEC for v in ticks], dtype=f)
    elif f == "pyint":
        arg = [int(v // SEC) for v in ticks]
    elif f == "float32":
        arg = x.astype(np.float32)
    elif f == "pyfloat":
        arg = float(x[0])
    elif f == "np.float64":
        arg = np.float64(x[0])
    elif f == "unsorted_list":
        arg = [float(v) for v in x]
        rng.shuffle(arg)
    else:
        arg = x
    return arg, unit


def _ep_obj(nap, rng, ep, res, tmp):
    """the IntervalSet ep written in one of the accepted forms (+ a history step)"""
    import pandas as pd
    st, en = G.arr([a for a, _ in ep]), G.arr([b for _, b in ep])
    forms = ["two_ndarray", "two_lists", "keywords", "DataFrame", "two_pd.Series", "copy_ctor"]
    if ep:
        forms += ["two_tuples", "pairs_array", "pairs_list", "ms", "us", "metadata", "unsorted"]
        if all(v % SEC == 0 for iv in ep for v in iv):
            forms += ["int64", "int32", "pyint"] * 2 + ((["uint64"] + (["uint16"] if ep[-1][1] < 65536 * SEC else [])) if ep[0][0] >= 0 else [])
        if len(ep) == 1:
            forms += ["scalars_float", "scalars_np", "scalars_0d"]
    f = rng.choice(forms)
    res.count("form:ep=%s" % f)
    I = nap.IntervalSet
    if f == "two_lists":
        o = I([float(v) for v in st], [float(v) for v in en])
    elif f == "keywords":
        o = I(start=st, end=en, time_units="s", metadata=None)
    elif f == "DataFrame":
        o = I(pd.DataFrame({"start": st, "end": en}))
    elif f == "two_pd.Series":
        o = I(pd.Series(st, dtype=float), pd.Series(en, dtype=float))
    elif f == "copy_ctor":
        o = I(I(st, en))
    elif f == "two_tuples":
        o = I(tuple(float(v) for v in st), tuple(float(v) for v in en))
    elif f == "pairs_array":
        o = I(np.stack([st, en], axis=1))
    elif f == "pairs_list":
        o = I([(float(a), float(b)) for a, b in zip(st, en)])
    elif f in ("ms", "us"):
        k = 1e6 if f == "ms" else 1e3
        o = I(np.array([a for a, _ in ep], dtype=np.float64) / k, end=np.array([b for _, b in ep], dtype=np.float64) / k, time_units=f)
    elif f == "metadata":
        o = I(st, en, metadata={"label": ["iv%d" % i for i in range(len(ep))], "w": np.arange(len(ep)) * 2.5})
    elif f == "unsorted":
        perm = list(range(len(ep)))
        rng.shuffle(perm)
        o = I(st[perm], en[perm])
    elif f in ("int64", "int32", "uint64", "uint16"):
        o = I(np.array([a // SEC for a, _ in ep], dtype=f), np.array([b // SEC for _, b in ep], dtype=f))
    elif f == "pyint":
        o = I([int(a // SEC) for a, _ in ep], [int(b // SEC) for _, b in ep])
    elif f == "scalars_float":
        o = I(float(st[0]), float(en[0]))
    elif f == "scalars_np":
        a32 = np.float32(st[0])
        o = I(a32 if float(a32) == float(st[0]) else np.float64(st[0]), np.float64(en[0]))
    elif f == "scalars_0d":
        o = I(np.array(st[0]), np.array(en[0]))
    else:
        o = I(st, en)
    h = rng.choice(["none", "none", "intersect_wide", "slice_all", "index_list", "saveload", "union_self"])
    res.count("form:ep_history=%s" % h)
    if h == "intersect_wide" and ep:
        o = o.intersect(I(ep[0][0] / 1e9 - 2.0, ep[-1][1] / 1e9 + 2.0))
    elif h == "slice_all":
        o = o[0:len(o)]
    elif h == "index_list" and ep:
        o = o[list(range(len(o)))]
    elif h == "saveload":
        o.save(tmp + "/ep.npz")
        o = nap.load_file(tmp + "/ep.npz")
    elif h == "union_self" and ep:
        o = o.union(o)
    return o


def _row_ok(row, acc, s, vals):
    """statement: the returned row IS the row of one acceptable source sample (every cell, NaN / inf cells included); all NaN iff no candidate"""
    row = np.asarray(row, dtype=float).reshape(-1)
    if acc is None:
        return bool(np.all(np.isnan(row)))
    return any(s[j] in acc and np.array_equal(row, np.asarray(vals[j], dtype=float).reshape(-1), equal_nan=True) for j in range(len(s)))


def _vf_check(op, r, b, s, vals, exp, inp, tag, res=None):
    """the public value_from result r against the statement (exp from oracle_times); s / vals = times and values of b's samples"""
    key = dict(tag, op=op)
    if type(r) is not type(b) or len(r) != len(exp) or r.values.shape[1:] != b.values.shape[1:]:
        return {"key": dict(key, part="class_length"), "what": "wrong class/length/row shape", "input": inp}
    if hasattr(b, "columns") and list(r.columns) != list(b.columns):
        return {"key": dict(key, part="columns"), "what": "the returned samples do not carry b's column labels", "input": inp, "impl": [str(c) for c in r.columns]}
    if [C.to_ns(x) for x in r.t] != [x for x, _ in exp]:
        return {"key": dict(key, part="times"), "what": "result timestamps are not the queries lying in ep", "input": inp, "impl": [C.to_ns(x) for x in r.t]}
    rows = np.asarray(r.values).reshape(len(r), -1) if len(r) else []
    if res is not None:
        res.count("forms_rows_checked_value", sum(acc is not None for _, acc in exp))
        res.count("forms_rows_checked_nan", sum(acc is None for _, acc in exp))
    for row, (x, acc) in zip(rows, exp):
        if not _row_ok(row, acc, s, vals):
            return {"key": dict(key, part="row"), "what": "public value_from: the returned row is not (the whole of) an acceptable source row / NaN iff no candidate",
                    "input": inp, "x": x, "impl": np.asarray(row, dtype=float).tolist()}
    if len(exp):
        anynan = any(acc is None for _, acc in exp)
        bd, rd = np.asarray(b.values).dtype, np.asarray(r.values).dtype
        if (not anynan and rd != bd) or (anynan and not (rd == bd if np.issubdtype(bd, np.floating) else np.issubdtype(rd, np.floating))):
            return {"key": dict(key, part="dtype"), "what": "values are b's samples: b's dtype must be kept (a non-float dtype may only become float when a NaN has to be stored)",
                    "input": inp, "impl": str(rd), "expected": str(bd)}
    return None


def _interp_check(ri, b, a_ticks, s, vals, ep, left, right, inp, tag, res):
    key = dict(tag, op="interpolate")
    qq = [x for x in a_ticks if G.mem(x, ep)]
    if type(ri) is not type(b) or ri.values.shape[1:] != b.values.shape[1:]:
        return {"key": dict(key, part="class"), "what": "interpolate changed the class / row shape", "input": inp}
    if hasattr(b, "columns") and list(ri.columns) != list(b.columns):
        return {"key": dict(key, part="columns"), "what": "interpolate lost b's column labels", "input": inp, "impl": [str(c) for c in ri.columns]}
    if [C.to_ns(x) for x in ri.t] != qq:
        return {"key": dict(key, part="times"), "what": "interpolate timestamps are not the queries in ep", "input": inp, "impl": [C.to_ns(x) for x in ri.t]}
    got = np.asarray(ri.values, dtype=float).reshape(len(qq), -1) if qq else []
    fv = np.asarray(vals, dtype=float).reshape(len(s), int(np.prod(np.asarray(vals).shape[1:])))
    for x, row in zip(qq, got):
        a0, b0 = [(u, w) for u, w in ep if u <= x <= w][0]
        inside = [k for k, y in enumerate(s) if a0 <= y <= b0]
        for c in range(fv.shape[1]):
            val = float(row[c])
            pts = [(s[k], float(fv[k, c])) for k in inside]
            if not pts:
                if not np.isnan(val):
                    return {"key": dict(key, part="nan"), "what": "interval without source sample is not NaN", "input": inp, "x": x}
                continue
            # the samples the statement's value depends on
            at = [v for y, v in pts if y == x]
            if at:
                dep = at
            elif x < pts[0][0]:
                dep = [] if left is not None else [v for y, v in pts if y == pts[0][0]]
            elif x > pts[-1][0]:
                dep = [] if right is not None else [v for y, v in pts if y == pts[-1][0]]
            else:
                k0 = max(i for i, (y, _) in enumerate(pts) if y < x)
                dep = [pts[k0][1], pts[k0 + 1][1]]
            if all(np.isfinite(v) for v in dep):
                acc, tol = interp_expect(x, pts, left=left, right=right)
                good = (not np.isnan(val)) and np.isfinite(val) and any(abs(Fraction(val) - w) <= Fraction(tol) for w in acc)
                expd = sorted(float(w) for w in acc)
            elif at or x < pts[0][0] or x > pts[-1][0]:
                # a held / coinciding sample that is NaN or infinite: the value is that sample's
                good = any((np.isnan(v) and np.isnan(val)) or v == val for v in dep)
                expd = [repr(v) for v in dep]
            else:
                res.count("interp_between_nonfinite_samples_not_determined")
                continue
            res.count("forms_interp_cells_checked")
            if not good:
                return {"key": dict(key, part="value", got_nan=bool(np.isnan(val))), "what": "interpolated value is not the piecewise-linear value within the same interval",
                        "input": inp, "x": x, "column": c, "impl": repr(val), "expected": expd}
    return None


FORMS_RULE = (
    "WIDENED ARGUMENT FORMS. Further kernel/model cases (kind=dyadic_far: the dyadic lattice +-1e5 s away from 0 and with an interval end exactly at 0; kind=seconds: whole-second "
    "lattice at 0, -3 s, +-1e5 s; kind=decimal_many: up to 12 intervals, 13 sources, at 0 / straddling 0 / 1e5 s; kind=empty_ep: the EMPTY IntervalSet), each also through the full "
    "public battery every 16th(12th). forms_cases: one input of those families (or 'self': the source queried with itself) x ONE seeded combination of forms, checked by the same "
    "statement oracles (acceptable source ROW by exact cell equality incl. NaN/inf cells, NaN iff no candidate, result times, class, row shape, column labels, dtype kept unless NaN must be stored; "
    "interpolate: exact rational piecewise-linear value with the float rounding bound). "
    "Axis 1 (data): float64/float32/int64/int32/int16/int8/uint8..uint64/bool sources; NaN, +inf, -inf cells (value_from: copied; interpolate: checked wherever the samples the value "
    "depends on are finite or the query coincides with / is held from a non-finite sample, else counted interp_between_nonfinite_samples_not_determined), all-equal data, zeros; C / Fortran / strided layouts. "
    "Axis 2 (time forms): the instants of query, source and ep written as ndarray, list, tuple, pandas Series / Index, another object's TsIndex or .t, strided view, float32, "
    "int64/int32/uint8/uint32/uint64 arrays and Python ints (whole-second families), Python / numpy scalars and 0-d arrays (single sample / single interval), unsorted lists; "
    "Tsd / TsdFrame sources also from a pandas Series / DataFrame; ep as two arrays / lists / tuples / Series, array or list of pairs, DataFrame, copy constructor, unsorted, with metadata. "
    "Axis 3 (parameters): value_from(data, ep, mode) and TsGroup.value_from(tsd, ep, mode) positional / keyword / mixed order, mode at its default, as numpy.str_, in another letter case "
    "(clean exception or the statement for the mode it spells), ep None / omitted / everything defaulted (ep := the source's time support at the call); interpolate(ts, ep, left, right) "
    "positional / keyword, ep None / omitted, left / right None, given alone, given together, as int / float / numpy scalars (a query before the first / after the last sample of its interval "
    "then takes the given value, the documented meaning; everything else as in the statement). "
    "Axis 4 (units): query, source, ep and raw TsGroup members given in ms / us must behave as the same instants in s. "
    "Axis 5 (placement): negative times, intervals straddling 0 or ending at 0, +-1e5 s offsets, samples on interval ends. "
    "Axis 6 (degenerate): empty / single / all-equal-time query and source (explicit time support), duplicates, empty IntervalSet, 1..12 intervals, intervals with zero or one sample, "
    "empty TsGroup, group with an empty member, group keys unsorted / multi-digit strings / integral floats / numpy ints / large. "
    "Axis 7 (classes): query Ts / Tsd / TsdFrame / TsdTensor, source Tsd / TsdFrame (1-3 columns; default, string, unsorted string, integer not 0..n-1, unsorted integer, mixed labels) / "
    "TsdTensor (row shapes (2,2), (1,3), (2,1,2), (1,1)), group members Ts / Tsd / raw arrays, ep with and without metadata. "
    "Axis 8 (histories): operands after restrict / slice / get / *1 / numpy.positive / save+load / column re-selection / a previous value_from, ep after intersect / slice / index list / "
    "save+load / union with itself, group after restrict / index list / bypass_check=True / metadata; the same live objects used twice; the source used as its own query (shared memory).")
MODE_VARIANTS = {"before": ["Before", "BEFORE"], "closest": ["Closest", "CLOSEST"], "after": ["After", "AFTER"]}


def forms_case(nap, case_seed, q, s, ep, fam, res, tmp):
    try:
        return _forms_case(nap, case_seed, q, s, ep, fam, res, tmp)
    except Exception as ex:
        import traceback
        return [{"key": {"op": "value_from", "part": "exception", "where": "building_operands", "forms": True},
                 "what": "building an operand in an accepted form raised %s: %s" % (type(ex).__name__, str(ex)[:160]),
                 "input": {"q": q, "src": s, "ep": ep, "family": fam, "form_seed": case_seed}, "trace": traceback.format_exc()[-600:]}]


def _forms_case(nap, case_seed, q, s, ep, fam, res, tmp):
    """ONE sampled combination of argument forms for value_from, interpolate and (every third case) TsGroup.value_from on the input (q, s, ep);
    every random choice derives from case_seed (stored in the violation's input: replay rebuilds the very same objects)"""
    rng = random.Random(case_seed)
    V = []
    n = len(s)
    allt = q + s + [v for iv in ep for v in iv] + [0]
    wide_t = (min(allt) - SEC, max(allt) + SEC)
    wide = nap.IntervalSet(wide_t[0] / 1e9, wide_t[1] / 1e9)
    F = {}          # the chosen forms (goes into the violation's input)

    def pick(name, options):
        F[name] = rng.choice(options)
        res.count("form:%s=%s" % (name, F[name]))
        return F[name]

    # ---- ep
    epo = _ep_obj(nap, rng, ep, res, tmp)
    implicit = bool(ep) and rng.random() < 0.2          # ep omitted / None: the source's time support is used
    F["ep_implicit"] = implicit
    # ---- source b
    cls = pick("source_class", ["Tsd", "TsdFrame", "TsdFrame", "TsdTensor"])
    dtype = pick("dtype", DTYPES)
    pattern = rng.choice(["ident"] * 6 + (["nonfinite"] * 3 if dtype.startswith("float") else []) + ["const", "zeros"])
    res.count("form:data=%s" % pattern)
    F["data"] = pattern
    cols = None
    if cls == "Tsd":
        rowshape = ()
    elif cls == "TsdFrame":
        k = rng.choice([1, 2, 3])
        rowshape = (k,)
        style = pick("columns", ["default", "strings", "strings_unsorted", "ints_not_0n", "ints_unsorted", "mixed"])
        cols = {"default": None, "strings": ["a", "b", "c"][:k], "strings_unsorted": ["z", "m", "b"][:k], "ints_not_0n": [3, 7, 20][:k],
                "ints_unsorted": [12, 5, 9][:k], "mixed": [5, "x", 2.5][:k]}[style]
    else:
        rowshape = pick("tensor_shape", [(2, 2), (1, 3), (2, 1, 2), (1, 1)])
    vals0 = _layout(_vals(n, rowshape, dtype, pattern, rng), pick("layout", ["C", "C", "F", "strided"]))
    keep = [j for j in range(n) if G.mem(s[j], ep)] if implicit else list(range(n))
    s_eff = [s[j] for j in keep]
    zero_b = len(set(s)) <= 1
    pandas_obj = cls in ("Tsd", "TsdFrame") and rng.random() < 0.12
    targ, unit = _time_arg(nap, rng, s, res, "source", no_series=(cls == "Tsd")) if not pandas_obj else (None, "s")
    kw = {}
    if unit != "s":
        kw["time_units"] = unit
    if implicit:
        kw["time_support"] = epo
    elif zero_b or rng.random() < 0.5:
        kw["time_support"] = wide
    ctor = pick("source_ctor", ["positional", "keywords"]) if not pandas_obj else pick("source_ctor", ["pandas_object"])
    if pandas_obj:
        import pandas as pd
        kw.pop("time_units", None)
        b = nap.Tsd(pd.Series(vals0, index=G.arr(s)), **kw) if cls == "Tsd" else nap.TsdFrame(pd.DataFrame(vals0, index=G.arr(s), columns=cols), **kw)
    elif cls == "Tsd":
        b = nap.Tsd(targ, vals0, **kw) if ctor == "positional" else nap.Tsd(t=targ, d=vals0, **kw)
    elif cls == "TsdFrame":
        ck = {} if cols is None else {"columns": cols}
        b = nap.TsdFrame(targ, vals0, **kw, **ck) if ctor == "positional" else nap.TsdFrame(t=targ, d=vals0, **kw, **ck)
    else:
        b = nap.TsdTensor(targ, vals0, **kw) if ctor == "positional" else nap.TsdTensor(t=targ, d=vals0, **kw)
    hb = pick("source_history", ["none", "none", "restrict_wide", "slice_all", "get_wide", "times_one", "np_positive", "saveload", "own_value_from", "loc_columns"])
    if hb == "restrict_wide" and not implicit:
        b = b.restrict(wide)
    elif hb == "slice_all":
        b = b[0:len(b)]
    elif hb == "get_wide":
        b = b.get(wide_t[0] / 1e9, wide_t[1] / 1e9)
    elif hb == "times_one" and dtype != "bool":
        b = b * 1
    elif hb == "np_positive" and dtype != "bool":
        b = np.positive(b)
    elif hb == "saveload" and not (cls == "TsdFrame" and cols is not None and F.get("columns") == "mixed"):
        b.save(tmp + "/b.npz")
        b = nap.load_file(tmp + "/b.npz")
    elif hb == "own_value_from" and not implicit and len(set(s_eff)) == len(s_eff) and len(s_eff) > 1:
        b = nap.Ts(G.arr(s_eff)).value_from(b, wide, "closest")      # a result fed into the next operation
    elif hb == "loc_columns" and cls == "TsdFrame" and rowshape[0] > 1:
        b = b.loc[list(b.columns)[::-1]]
    vals = np.asarray(b.values)
    base = {"q": q, "src": s, "ep": ep, "family": fam, "form_seed": case_seed}
    if implicit:
        # "If None, the time support of the (source) object is used": the statement's ep is b.time_support as it stands at the call
        ep_given, ep = ep, [(C.to_ns(u), C.to_ns(w)) for u, w in b.time_support.values]
        base["ep_used"] = ep
        if not ep:
            res.count("form:implicit_ep_is_empty_support")
    tag = {"source": cls, "forms": True}
    if [C.to_ns(x) for x in b.t] != s_eff or len(vals) != len(s_eff):
        V.append({"key": {"op": "value_from", "part": "operand_times", "operand": "source", "forms": True},
                  "what": "the source built from the same instants in another form does not hold them", "input": dict(base, forms=dict(F)), "impl": [C.to_ns(x) for x in b.t]})
        return V
    # ---- query a
    if fam == "self":
        a, q_eff = b, list(s_eff)
        F["query_class"] = "the_source_itself"
        res.count("form:query_class=the_source_itself")
    else:
        acls = pick("query_class", ["Ts", "Ts", "Ts", "Tsd", "TsdFrame", "TsdTensor"])
        qarg, qunit = _time_arg(nap, rng, q, res, "query", allow_unsorted=(acls == "Ts"), no_series=(acls == "Tsd"))
        kwq = {} if qunit == "s" else {"time_units": qunit}
        if len(set(q)) <= 1 or rng.random() < 0.4:
            kwq["time_support"] = wide
        if acls == "Ts":
            a = nap.Ts(qarg, **kwq) if rng.random() < 0.5 else nap.Ts(t=qarg, **kwq)
        elif acls == "Tsd":
            a = nap.Tsd(qarg, np.arange(len(q)) * 7 - 3, **kwq)
        elif acls == "TsdFrame":
            a = nap.TsdFrame(qarg, np.ones((len(q), 2)), columns=["u", "v"], **kwq)
        else:
            a = nap.TsdTensor(qarg, np.zeros((len(q), 2, 2)), **kwq)
        ha = pick("query_history", ["none", "none", "none", "restrict_wide", "slice_all", "saveload", "get_wide"])
        if ha == "restrict_wide":
            a = a.restrict(wide)
        elif ha == "slice_all":
            a = a[0:len(a)]
        elif ha == "saveload":
            a.save(tmp + "/a.npz")
            a = nap.load_file(tmp + "/a.npz")
        elif ha == "get_wide":
            a = a.get(wide_t[0] / 1e9, wide_t[1] / 1e9)
        q_eff = list(q)
        if [C.to_ns(x) for x in a.t] != q_eff:
            V.append({"key": {"op": "value_from", "part": "operand_times", "operand": "query", "forms": True},
                      "what": "the query series built from the same instants in another form does not hold them", "input": dict(base, forms=dict(F)), "impl": [C.to_ns(x) for x in a.t]})
            return V
    if [(C.to_ns(u), C.to_ns(w)) for u, w in epo.values] != [tuple(iv) for iv in (ep_given if implicit else ep)]:
        V.append({"key": {"op": "value_from", "part": "operand_times", "operand": "ep", "forms": True},
                  "what": "the IntervalSet built from the same instants in another form does not hold them", "input": dict(base, forms=dict(F)), "impl": np.asarray(epo.values).tolist()})
        return V

    def guard(op, f):
        try:
            v = f()
        except Exception as ex:
            v = {"key": {"op": op, "part": "exception", "forms": True}, "what": "public %s raised %s: %s" % (op, type(ex).__name__, str(ex)[:160]), "input": dict(base, forms=dict(F))}
        if v:
            V.append(v)

    # ---- value_from
    def do_vf():
        mode = rng.choice(MODES)
        call = pick("vf_call", ["positional", "keywords", "mixed", "mode_default", "mode_np_str", "mode_other_case"]) if not implicit else \
            pick("vf_call_implicit_ep", ["ep_None_positional", "ep_None_keyword", "ep_omitted", "all_defaults"])
        if call in ("mode_default", "all_defaults"):
            mode = "closest"
        F["mode"] = mode
        inp = dict(base, mode=mode, forms=dict(F))
        exp = oracle_times(q_eff, s_eff, ep, mode)
        if call == "mode_other_case":
            # not one of the three documented strings: a clean exception, or the statement for the mode it spells
            mv = rng.choice(MODE_VARIANTS[mode])
            try:
                r = a.value_from(b, epo, mv)
            except (ValueError, TypeError, KeyError):
                res.count("mode_other_case_rejected")
                return None
            return _vf_check("value_from", r, b, s_eff, vals, exp, dict(inp, mode_given=mv), dict(tag, mode_other_case=True), res)
        if call == "positional":
            r = a.value_from(b, epo, mode)
        elif call == "keywords":
            r = a.value_from(data=b, ep=epo, mode=mode)
        elif call == "mixed":
            r = a.value_from(b, mode=mode, ep=epo)
        elif call == "mode_default":
            r = a.value_from(b, epo)
        elif call == "mode_np_str":
            r = a.value_from(b, epo, np.str_(mode))
        elif call == "ep_None_positional":
            r = a.value_from(b, None, mode)
        elif call == "ep_None_keyword":
            r = a.value_from(b, ep=None, mode=mode)
        elif call == "ep_omitted":
            r = a.value_from(b, mode=mode)
        else:
            r = a.value_from(b)
        v = _vf_check("value_from", r, b, s_eff, vals, exp, inp, dict(tag, mode=mode), res)
        if v is None and rng.random() < 0.3:
            # the same live objects used a second time
            res.count("form:live_objects_used_twice")
            r2 = a.value_from(b, b.time_support if implicit else epo, mode)
            if not (np.array_equal(r.t, r2.t) and np.array_equal(np.asarray(r.values, dtype=float), np.asarray(r2.values, dtype=float), equal_nan=True)):
                return {"key": dict(tag, op="value_from", part="second_use"), "what": "the same call on the same live objects gives another result", "input": inp}
        return v

    guard("value_from", do_vf)

    # ---- interpolate
    def do_interp():
        left = right = None
        call = pick("interp_call", ["positional", "keywords", "left_right_None", "left_pos", "right_kw", "both_pos", "both_kw"]) if not implicit else \
            pick("interp_call_implicit_ep", ["ep_None_positional", "ep_None_keyword", "ep_omitted", "ep_omitted_right_kw"])
        def num():
            f = pick("edge_value_form", ["int", "float", "np.float64", "np.float32", "np.int64", "np.uint8", "negative_float"])
            return {"int": 7, "float": 2.5, "np.float64": np.float64(-1.25), "np.float32": np.float32(0.5), "np.int64": np.int64(-4), "np.uint8": np.uint8(9), "negative_float": -1e6}[f]
        if call == "positional":
            ri = b.interpolate(a, epo)
        elif call == "keywords":
            ri = b.interpolate(ts=a, ep=epo)
        elif call == "left_right_None":
            ri = b.interpolate(a, epo, left=None, right=None)
        elif call == "left_pos":
            left = num()
            ri = b.interpolate(a, epo, left)
        elif call == "right_kw":
            right = num()
            ri = b.interpolate(a, epo, right=right)
        elif call == "both_pos":
            left, right = num(), num()
            ri = b.interpolate(a, epo, left, right)
        elif call == "both_kw":
            left, right = num(), num()
            ri = b.interpolate(ts=a, right=right, left=left, ep=epo)
        elif call == "ep_None_positional":
            ri = b.interpolate(a, None)
        elif call == "ep_None_keyword":
            ri = b.interpolate(a, ep=None)
        elif call == "ep_omitted":
            ri = b.interpolate(a)
        else:
            right = num()
            ri = b.interpolate(a, right=right)
        inp = dict(base, forms=dict(F), left=None if left is None else float(left), right=None if right is None else float(right))
        return _interp_check(ri, b, q_eff, s_eff, vals, ep, left, right, inp, dict(tag, left_given=left is not None, right_given=right is not None), res)

    guard("interpolate", do_interp)

    # ---- TsGroup.value_from, every third case
    def do_group():
        mode = rng.choice(MODES)
        members = rng.choice([[q_eff, q_eff[::2], q_eff[1:]], [q_eff, []], [q_eff], []])
        res.count("form:group_size=%d" % len(members))
        if any(len(m_) == 0 for m_ in members):
            res.count("form:group_with_empty_member")
        kstyle = pick("group_keys", ["ints_unsorted", "strings_multidigit", "list_0n", "floats_integral", "np.int64", "large"])
        keys = {"ints_unsorted": [4, 1, 9], "strings_multidigit": ["10", "9", "102"], "list_0n": [0, 1, 2], "floats_integral": [2.0, 7.0, 5.0],
                "np.int64": [np.int64(3), np.int64(11), np.int64(2)], "large": [100000, 7, 65536]}[kstyle][:len(members)]
        mform = pick("group_member", ["Ts", "Tsd", "raw_ndarray", "raw_list_ms", "raw_us"])
        tu = "s"

        def member(m_):
            if mform == "Ts":
                return nap.Ts(G.arr(m_), time_support=wide)
            if mform == "Tsd":
                return nap.Tsd(G.arr(m_), np.arange(len(m_)) + 0.5, time_support=wide)
            if mform == "raw_ndarray":
                return G.arr(m_)
            if mform == "raw_list_ms":
                return [v / 1e6 for v in m_]
            return np.asarray(m_, dtype=np.float64) / 1e3
        tu = {"raw_list_ms": "ms", "raw_us": "us"}.get(mform, "s")
        objs = [member(m_) for m_ in members]
        data = objs if kstyle == "list_0n" else dict(zip(keys, objs))
        gform = pick("group_ctor", ["support_kw", "support_pos", "bypass_check", "metadata"])
        raw = mform.startswith("raw")
        if gform == "support_pos":
            g = nap.TsGroup(data, wide, tu)
        elif gform == "bypass_check" and not raw:
            g = nap.TsGroup(data, time_support=wide, bypass_check=True)
        elif gform == "metadata" and len(members):
            g = nap.TsGroup(data, time_support=wide, time_units=tu, metadata={"lab": ["m%d" % i for i in range(len(members))]})
        else:
            g = nap.TsGroup(data, time_support=wide, time_units=tu)
        hg = pick("group_history", ["none", "none", "restrict_wide", "index_all"])
        if hg == "restrict_wide":
            g = g.restrict(wide)
        elif hg == "index_all" and len(members):
            g = g[list(g.keys())]
        ikeys = [int(k_) for k_ in keys]
        call = pick("group_call", ["positional", "keywords", "mode_default"]) if not implicit else pick("group_call_implicit_ep", ["ep_omitted", "ep_None", "all_defaults"])
        if call in ("mode_default", "all_defaults"):
            mode = "closest"
        inp = dict(base, mode=mode, forms=dict(F), members=members)
        if call == "positional":
            rg = g.value_from(b, epo, mode)
        elif call == "keywords":
            rg = g.value_from(tsd=b, ep=epo, mode=mode)
        elif call == "mode_default":
            rg = g.value_from(b, epo)
        elif call == "ep_omitted":
            rg = g.value_from(b, mode=mode)
        elif call == "ep_None":
            rg = g.value_from(b, None, mode)
        else:
            rg = g.value_from(b)
        if type(rg) is not nap.TsGroup or list(rg.keys()) != sorted(ikeys):
            return {"key": {"op": "TsGroup.value_from", "part": "keys", "forms": True}, "what": "group value_from lost/reordered members", "input": inp,
                    "impl": [int(k_) for k_ in rg.keys()] if hasattr(rg, "keys") else str(type(rg))}
        for k_, m_ in zip(ikeys, members):
            v = _vf_check("TsGroup.value_from", rg[k_], b, s_eff, vals, oracle_times(m_, s_eff, ep, mode), dict(inp, member=k_), dict(tag, mode=mode), res)
            if v:
                return v
        return None

    if case_seed % 3 == 0:
        guard("TsGroup.value_from", do_group)
    return V


def search(res, seed):
    r2 = C.Result()
    run(r2, "thorough", seed)
    return r2.violations[0] if r2.violations else None


def replay(payload):
    nap, CF, J = _nap()
    warnings.simplefilter("ignore")
    v = payload.get("violation") or (payload.get("disagreements") or [{}])[0]
    inp = v.get("input", {})
    q, s, ep = inp.get("q", []), inp.get("src", []), [tuple(x) for x in inp.get("ep", [])]
    if "form_seed" in inp:
        # an argument-form case: the seed rebuilds the very same operands and calls
        import shutil
        import tempfile
        tmp = tempfile.mkdtemp(prefix="c06_forms_")
        try:
            fv = [v_ for v_ in forms_case(nap, int(inp["form_seed"]), q, s, ep, inp.get("family", "dyadic"), C.Result(), tmp) if C.match_known("C06", v_) is None]
        finally:
            shutil.rmtree(tmp, ignore_errors=True)
        for v_ in fv:
            print("forms violation:", {k_: v_[k_] for k_ in v_ if k_ != "trace"})
        return 1 if fv else 0
    bad = 0
    for mode in ([inp["mode"]] if "mode" in inp else MODES):
        t, vals = CF._value_from(G.arr(q), G.arr(s), np.arange(len(s)) + 100.0, G.arr([a for a, _ in ep]), G.arr([b for _, b in ep]), mode=mode)
        impl = [None if np.isnan(x) else int(x - 100) for x in vals]
        exp = oracle_times(q, s, ep, mode)
        print(mode, "impl idx", impl, "expected times", [(x, sorted(a) if a else None) for x, a in exp])
        for j, (x, acc) in zip(impl, exp):
            if (j is None) != (acc is None) or (j is not None and s[j] not in acc):
                bad = 1
    pv = [v_ for v_ in public_case(nap, q, s, ep) if C.match_known("C06", v_) is None]
    print("public (violations not matching a known finding):", pv)
    return 1 if bad or pv else 0

# --- Glue layer (DESIGN.md 10.11): the Python between the API and the kernels, tied by proof in Properties/C06c.v; this is the
# executable tie of its trusted parts (translator tools/py2glue.py + primitive semantics Glue/Interp.v): the TRANSLATED term run by the
# extracted evaluator (ocaml/gluedriver) against the REAL routine of pynapple on the same inputs (harness/gluecmp.py).
import gluecmp  # noqa: E402

DRIVERS = list(globals().get("DRIVERS", ["driver"])) + ["gluedriver"]
GLUE_ROUTINES = ['_value_from', '_Base.value_from']
_run_without_glue = run


def run(res, tier, seed):
    _run_without_glue(res, tier, seed)
    gluecmp.check(res, GLUE_ROUTINES, tier, seed)
    res.rule += " | self lookup (C06_self_lookup): on every public case, every other source timestamp as query, 3 source classes x 3 modes, must return the source row at that timestamp"
    res.rule += (" | glue: for each of %s the translated Glue.Lang term (coq/Gen/Glue.v) is evaluated by the extracted Glue/Interp.v and compared with the "
                 "real pynapple routine on canonical sets of a dyadic lattice (incl. negative times, empty, touching, duplicates, unsorted/improper "
                 "constructor input, thresholds equal to a length or gap); exceptions must match the model's error kind" % ", ".join(GLUE_ROUTINES))
