"""C17 tuning curves are spikes per occupancy; decoding is their Bayes posterior (partial)."""
import itertools
import math
import random
import warnings
from fractions import Fraction as Fr

import numpy as np

import common as C
import gen as G

LEVEL = "proof"
DRIVERS = ["driver_c17"]
TRUSTED = ["model: coq/Model/Tuning.v (hist/bin_of/dig/hist2d, discrete_tc, attributed via Model/ValueFrom.v value_from mode 1, tc1d/tc2d, cont_tc/cont_tc2, "
           "prior/likelihood/expo/weights/posterior/argmax, count_rows over Model/Count.v, decode_binned/decode2d_post/decode2d_decoded/unravel, edges4/decode_occ); theorems: Proofs/TuningProofs.v, Proofs/DecodingProofs.v",
           "PARTIAL - oracle laws visible as Section hypotheses in the closed theorems: np.histogram = hist, np.histogram2d = hist2d (half-open bins, last bin closed), "
           "np.digitize - 1 = dig (all bins half-open), exp = a positive function E (respecting equality); np.prod / ** are exact on the small integers used",
           "not modelled, checked by the statement oracle only: which unit sits at which position (keys of the tuning curves vs keys of the group; witness C17_decode_pairing_by_position_refuted), "
           "NaN signal values in the continuous variants, the value written in a visited bin without signal sample (model: n = 0; witness C17_cont_empty_visited_bin_refuted), "
           "the rate factor (free variable of tc1d/tc2d; the statement's reading is C17_tc1d_value_feature_rate)",
           "the real-valued factor exp(-bin_size * sum of rates) is compared through log(p_i) - log(occ_i prod r^c) + bin_size sum_j r_ij being constant in i (1e-9): the only real-valued comparison"]
ASSUMPTIONS = ["feature values are integers, bin edges np.linspace(lo, hi, nb+1) have a dyadic step (exact in float64); times on the dyadic lattice 2^-9 s",
               "a spike / signal sample equidistant from two feature samples (or duplicate feature timestamps) may be attributed to either by the statement; the oracle accepts every "
               "attribution to a nearest sample of the same epoch (ALL combinations are enumerated, for spikes and for the continuous variants), the extracted model fixes the kernel's choice",
               "'the feature sampling rate' is read as pynapple's .rate (samples / support duration) of the feature AS PASSED (not restricted to ep), for the 1-d and the 2-d function alike; "
               "a result that is right only with the rate of the feature restricted to ep is reported with key part=rate, rate_of_feature_restricted_to_ep=True",
               "inferred minmax (the statement does not say from which samples it is inferred) = min/max of the whole feature for compute_1d_tuning_curves, of the feature restricted to ep for the other three "
               "(pinned per function; only the bin labels depend on it)",
               "'the mean signal over samples whose feature falls in the bin' of a visited bin holding NO signal sample, or holding a NaN signal value, is NaN (the arithmetic mean as np.mean defines it); 0.0 is not accepted",
               "decode: each unit's rate is paired with the count of the unit of the SAME key; when the keys of the tuning curves and of the group are not the same sequence the only accepted outcomes are the "
               "documented RuntimeError or (same key set) the posterior paired by key; different key sets must raise RuntimeError",
               "tuning curves passed to decode are positive rationals with a small common denominator; counts are integers (pre-binned TsdFrame holds integer counts)"]

U = 1953125  # 2^-9 s in ticks


def _nap():
    import pynapple as nap
    return nap


# ----------------------------------------------------------------------------------------------------------------
# statement-level oracles (brute force, independent of the model)
def obin(v, lo, hi, nb):
    """bin of value v for nb equal bins over [lo, hi]: half-open, last closed; None outside"""
    if v < lo or v > hi:
        return None
    if v == hi:
        return nb - 1
    return int(Fr(v - lo) * nb // Fr(hi - lo))


def interval_of(x, ep):
    for s, e in ep:
        if s <= x <= e:
            return (s, e)
    return None


def choices(x, ft, rows, ep):
    """admissible attributed rows for a sample at time x: rows of the feature samples nearest in time within
    the same epoch; [None] when the epoch holds no feature sample; None when x is outside ep"""
    iv = interval_of(x, ep)
    if iv is None:
        return None
    cand = [(abs(t - x), r) for t, r in zip(ft, rows) if iv[0] <= t <= iv[1]]
    if not cand:
        return [None]
    d = min(c[0] for c in cand)
    out = []
    for dd, r in cand:
        if dd == d and r not in out:
            out.append(r)
    return out


def achievable(chs, key):
    """set of count vectors (as sorted tuples of (key, count)) reachable by choosing one admissible row per sample;
    built incrementally over the samples (the set of distinct vectors stays small), so there is no cap"""
    outs = {()}
    for c in chs:
        ks = []
        for r in c:
            k = key(r)
            if k not in ks:
                ks.append(k)
        if ks == [None]:
            continue
        nxt = set()
        for v in outs:
            for k in ks:
                if k is None:
                    nxt.add(v)
                else:
                    d = dict(v)
                    d[k] = d.get(k, 0) + 1
                    nxt.add(tuple(sorted(d.items())))
        outs = nxt
    return outs


def recover_counts(vals, occ, rate):
    """vals, occ: flat lists. tc x occupancy / rate per bin: an integer, None for a NaN in an unvisited bin, or a string naming what is wrong"""
    rec = []
    for x, o in zip(vals, occ):
        if o == 0:
            rec.append(None if np.isnan(x) else "not-nan")
        else:
            v = x * o / rate
            rec.append(int(round(v)) if np.isfinite(v) and abs(v - round(v)) < 1e-6 else "non-integer")
    return rec


def edges_of(lo, hi, nb):
    return [Fr(lo) + Fr(hi - lo) * k / nb for k in range(nb + 1)]


def centres_of(lo, hi, nb):
    e = edges_of(lo, hi, nb)
    return [float((e[k] + e[k + 1]) / 2) for k in range(nb)]


def dyadic(lo, hi, nb):
    return hi > lo and ((hi - lo) * 64) % nb == 0


def count_grid(ep, b):
    out = []
    for s, e in ep:
        l = s
        while 2 * l + b <= 2 * e:
            out.append((s, e, l))
            l += b
    return out


def iset_obj(nap, ep):
    return nap.IntervalSet(G.arr([s for s, _ in ep]), G.arr([e for _, e in ep]))


def ep_ticks(x):
    return [(C.to_ns(s), C.to_ns(e)) for s, e in x.values]


def restrict_ts(ts, ep):
    return [t for t in ts if G.mem(t, ep)]


# ----------------------------------------------------------------------------------------------------------------
# generators
def rand_iset(rng, pts, max_m):
    m = rng.randint(1, max_m)
    k = sorted(rng.sample(range(len(pts)), 2 * m))
    return [(pts[k[2 * i]], pts[k[2 * i + 1]]) for i in range(m)]


def rand_units(rng, grid, ep):
    allpos = list(grid)
    inside = [t for t in grid if G.mem(t, ep)]
    outside = [t for t in grid if not G.mem(t, ep)]
    u0 = sorted(allpos + rng.sample(allpos, 2))                       # every alignment, with duplicates
    u1 = sorted(rng.sample(allpos, rng.randint(1, max(1, len(allpos) // 2))))
    u2 = rng.choice([[], outside, outside[:1], inside[:1]])           # silent / only outside the epochs
    return [u0, u1, list(u2)]


def rand_feature(rng, fpos, kmax, vals):
    k = rng.randint(2, kmax)
    ft = sorted(rng.sample(fpos, k))
    if rng.random() < 0.15:
        ft[rng.randrange(1, k)] = ft[0] if k == 2 else ft[rng.randrange(0, k - 1)]
        ft = sorted(ft)
    fv = [rng.choice(vals) for _ in ft]
    return ft, fv


def pick_bins(rng, vals_for_inferred):
    """(lo, hi, nb, explicit?)"""
    for _ in range(50):
        nb = rng.choice([1, 2, 2, 3, 4])
        if rng.random() < 0.5:
            lo, hi = rng.choice([(0, 4), (1, 3), (0, 3), (0, 6), (-1, 3), (0, 2), (1, 2)])
            if dyadic(lo, hi, nb):
                return lo, hi, nb, True
        else:
            if len(set(vals_for_inferred)) >= 2:
                lo, hi = min(vals_for_inferred), max(vals_for_inferred)
                if dyadic(lo, hi, nb):
                    return lo, hi, nb, False
    return None


# ----------------------------------------------------------------------------------------------------------------
def part_hist(res, tier):
    """oracle laws: np.histogram / np.histogram2d / np.digitize against the executable hist / bin_of / dig / hist2d
    on a complete small space (values on half-integers so that edges are hit exactly)"""
    cases = []
    for lo2 in (0, 1, 2):
        for w2 in range(1, 9):
            for nb in (1, 2, 3, 4):
                hi2 = lo2 + w2
                if not dyadic(lo2, hi2, nb * 2):
                    continue
                cases.append((lo2, hi2, nb))
    lines = []
    meta = []
    for lo2, hi2, nb in cases:
        xs = list(range(lo2 - 2, hi2 + 3))
        lines.append("edges\t%d %d %d" % (lo2, hi2, nb))
        meta.append((lo2, hi2, nb, xs))
    out = C.run_model(lines, driver="driver_c17")
    lines2 = []
    for (lo2, hi2, nb, xs), o in zip(meta, out):
        e = o.split("|")[0]
        sx = C.fmt_ints([x * nb for x in xs])
        lines2 += ["hist\t%s\t%s" % (e, sx), "bin_of\t%s\t%s" % (e, sx), "dig\t%s\t%s" % (e, sx),
                   "hist2d\t%s\t%s\t%s\t%s" % (e, e, sx, C.fmt_ints([x * nb for x in reversed(xs)]))]
    out2 = C.run_model(lines2, driver="driver_c17")
    for n, (lo2, hi2, nb, xs) in enumerate(meta):
        res.case(("hist", lo2, hi2, nb), nontrivial=True)
        res.count("part=hist_law")
        bins = np.linspace(lo2 / 2, hi2 / 2, nb + 1)
        x = np.array(xs, dtype=float) / 2
        inp = {"lo": lo2 / 2, "hi": hi2 / 2, "nb": nb, "xs": [v / 2 for v in xs]}
        h = [int(v) for v in np.histogram(x, bins)[0]]
        mh = [int(v) for v in out2[4 * n].split()]
        per = [None if obin(Fr(v, 2), Fr(lo2, 2), Fr(hi2, 2), nb) is None else obin(Fr(v, 2), Fr(lo2, 2), Fr(hi2, 2), nb) for v in xs]
        oh = [sum(1 for p in per if p == k) for k in range(nb)]
        if h != oh:
            res.violations.append({"key": {"op": "np.histogram"}, "what": "np.histogram differs from half-open bins / last bin closed", "input": inp, "impl": h, "expected": oh})
        if mh != h:
            res.disagreements.append({"op": "hist", "input": inp, "impl": h, "model": mh})
        mb = [None if v == "nan" else int(v) for v in out2[4 * n + 1].split()]
        if mb != per:
            res.disagreements.append({"op": "bin_of vs statement", "input": inp, "model": mb, "expected": per})
        d = [int(v) - 1 for v in np.digitize(x, bins)]
        d = [v if 0 <= v < nb else None for v in d]
        md = [None if v == "nan" else int(v) for v in out2[4 * n + 2].split()]
        if md != d:
            res.disagreements.append({"op": "dig", "input": inp, "impl": d, "model": md})
        h2 = np.histogram2d(x, x[::-1], [bins, bins])[0].astype(int).tolist()
        mh2 = [[int(v) for v in r.split()] for r in out2[4 * n + 3].split("|")]
        if mh2 != h2:
            res.disagreements.append({"op": "hist2d", "input": inp, "impl": h2, "model": mh2})


# ----------------------------------------------------------------------------------------------------------------
def part_discrete(res, tier, rng, nap):
    grid = [i * U for i in range(12)]
    n_cases = 250 if tier == "quick" else 3000
    cases = []
    for _ in range(n_cases):
        eps = {}
        for name in rng.sample(["b", "a", "c"], rng.randint(1, 3)):
            eps[name] = rand_iset(rng, grid, 3)
        units = rand_units(rng, grid, [iv for v in eps.values() for iv in v])
        cases.append((eps, units))
    lines = []
    for eps, units in cases:
        for name in eps:
            for sp in units:
                lines.append("discrete\t%s\t%s" % (C.fmt_ints(sp), C.fmt_iset(eps[name])))
    out = C.run_model(lines, driver="driver_c17")
    pos = 0
    wide = nap.IntervalSet(-1.0, 1.0)
    for eps, units in cases:
        keys = [7, 2, 5]
        g = nap.TsGroup({k: nap.Ts(G.arr(sp)) for k, sp in zip(keys, units)}, time_support=wide)
        d = {name: iset_obj(nap, ep) for name, ep in eps.items()}
        tc = nap.compute_discrete_tuning_curves(g, d)
        inp = {"dict_ep": eps, "units": dict(zip(keys, units))}
        res.case(("discrete", tuple(sorted((k, tuple(v)) for k, v in eps.items())), tuple(map(tuple, units))),
                 nontrivial=any(0 < len(restrict_ts(sp, ep)) < len(sp) for sp in units for ep in eps.values()))
        res.count("part=discrete")
        if list(tc.index) != sorted(eps) or list(tc.columns) != sorted(keys):
            res.violations.append({"key": {"op": "compute_discrete_tuning_curves", "part": "labels"}, "what": "rows are not the sorted epoch keys / columns not the unit keys",
                                   "input": inp, "impl": [list(tc.index), list(tc.columns)]})
        for name in eps:
            tot = sum(e - s for s, e in eps[name])
            for k, sp in zip(keys, units):
                m = out[pos].split("|")
                pos += 1
                want = sum(1 for t in sp if G.mem(t, eps[name]))
                if int(m[0]) != want or Fr(m[1]) != Fr(want * 10**9, tot):
                    res.disagreements.append({"op": "discrete model vs statement", "input": inp, "model": m, "expected": [want, str(Fr(want * 10**9, tot))]})
                got = float(tc.loc[name, k]) * tot / 1e9
                if abs(got - want) > 1e-6:
                    res.violations.append({"key": {"op": "compute_discrete_tuning_curves"}, "what": "rate x total duration of the epoch set is not the number of spikes inside it",
                                           "input": dict(inp, epoch=name, unit=k), "impl": float(tc.loc[name, k]), "expected": want / (tot / 1e9)})


# ----------------------------------------------------------------------------------------------------------------
def tc_cases(res, tier, rng, n_cases, two_d):
    grid = [i * U for i in range(12)]
    fpos = [i * U for i in range(0, 12, 2)]
    out = []
    tries = 0
    while len(out) < n_cases and tries < 20 * n_cases:
        tries += 1
        ft, fx = rand_feature(rng, fpos, 4, [0, 1, 2, 3])
        fy = [rng.choice([0, 1, 2]) for _ in ft]
        fsup = rng.choice([[(0, 11 * U)], [(0, 11 * U)], [(0, 4 * U), (5 * U, 11 * U)], [(U, 9 * U)]])
        keep = [i for i, t in enumerate(ft) if G.mem(t, fsup)]
        ft, fx, fy = [ft[i] for i in keep], [fx[i] for i in keep], [fy[i] for i in keep]
        if len(set(ft)) < 2:
            continue
        ep = None if rng.random() < 0.3 else rand_iset(rng, grid, 3)
        epe = ep if ep is not None else fsup
        units = rand_units(rng, grid, epe)
        out.append({"ft": ft, "fx": fx, "fy": fy, "fsup": fsup, "ep": ep, "epe": epe, "units": units})
    return out


def inside_vals(c, col):
    return [v for t, v in zip(c["ft"], c[col]) if G.mem(t, c["epe"])]


def part_tc1d(res, tier, rng, nap):
    cases = []
    for c in tc_cases(res, tier, rng, 1300 if tier == "quick" else 20000, False):
        b = pick_bins(rng, c["fx"])           # 1-d: inferred minmax from the whole feature
        if b is None:
            continue
        c["lo"], c["hi"], c["nb"], c["explicit"] = b
        cases.append(c)
    run_tc1d_cases(res, cases, rng, nap, "tc1d")


def part_tc1d_complete(res, tier, rng, nap):
    """complete small space: ALL features with 2-3 samples on 4 even lattice points x values {0,1,2}, ALL canonical epoch sets
    (1-2 intervals) on a 6-point lattice covering samples / midpoints, a unit firing at EVERY lattice point (so every alignment of one
    spike with samples, midpoints and epoch ends occurs) + a silent unit; 2 bins over the explicit range [0,2]"""
    pos = [0, 2 * U, 4 * U, 6 * U]
    pts = [0, U, 2 * U, 3 * U, 5 * U, 6 * U]
    grid = [i * U for i in range(-1, 8)]
    cases = []
    for k in (2, 3):
        for ft in itertools.combinations(pos, k):
            for fv in itertools.product([0, 1, 2], repeat=k):
                for ep in G.canonical_isets(pts, 2):
                    if not ep:
                        continue
                    cases.append({"ft": list(ft), "fx": list(fv), "fy": [0] * k, "fsup": [(-U, 7 * U)], "ep": ep, "epe": ep,
                                  "units": [list(grid), [], [grid[1], grid[4], grid[4]]], "lo": 0, "hi": 2, "nb": 2, "explicit": True})
    res.extra["tc1d_complete_space_size"] = len(cases)
    if tier == "quick":
        cases = rng.sample(cases, 500)
    res.extra["tc1d_complete_space_run"] = len(cases)
    run_tc1d_cases(res, cases, rng, nap, "tc1d_complete")


def run_tc1d_cases(res, cases, rng, nap, tag):
    lines = []
    for c in cases:
        for sp in c["units"]:
            lines.append("tc1d\t%d %d %d\t%s\t%s\t%s\t%s" % (c["lo"], c["hi"], c["nb"], C.fmt_ints(sp), C.fmt_ints(c["ft"]), C.fmt_ints(c["fx"]), C.fmt_iset(c["epe"])))
    out = C.run_model(lines, driver="driver_c17")
    pos = 0
    wide = nap.IntervalSet(-1.0, 1.0)
    keys = [7, 2, 5]
    for n, c in enumerate(cases):
        lo, hi, nb, ep = c["lo"], c["hi"], c["nb"], c["epe"]
        feat = nap.Tsd(G.arr(c["ft"]), np.array(c["fx"], dtype=float), time_support=iset_obj(nap, c["fsup"]))
        if rng.random() < 0.3:
            feat = nap.TsdFrame(G.arr(c["ft"]), np.array(c["fx"], dtype=float)[:, None], time_support=iset_obj(nap, c["fsup"]))
        g = nap.TsGroup({k: nap.Ts(G.arr(sp)) for k, sp in zip(keys, c["units"])}, time_support=wide)
        kw = {}
        if c["ep"] is not None:
            kw["ep"] = iset_obj(nap, c["ep"])
        if c["explicit"]:
            kw["minmax"] = (lo, hi)
        inp = {k: c[k] for k in ("ft", "fx", "fsup", "ep", "units")}
        inp.update(nb_bins=nb, minmax=(lo, hi) if c["explicit"] else None)
        tc = nap.compute_1d_tuning_curves(g, feat, nb, **kw)
        res.count("part=" + tag)
        res.count("tc1d_" + ("explicit" if c["explicit"] else "inferred") + "_minmax")
        res.count("tc1d_ep=" + ("None" if c["ep"] is None else "%d_intervals" % len(c["ep"])))
        vin = inside_vals(c, "fx")
        if not c["explicit"] and vin and (min(vin), max(vin)) != (lo, hi):
            res.count("tc1d_inferred_minmax_of_whole_feature_wider_than_feature_in_ep")
        occ = [sum(1 for v in vin if obin(v, lo, hi, nb) == k) for k in range(nb)]
        on_edge = any(lo < v < hi and (Fr(v - lo) * nb / (hi - lo)).denominator == 1 for v in vin)
        if on_edge:
            res.count("tc1d_value_on_interior_edge")
        if list(tc.index) != centres_of(lo, hi, nb) or list(tc.columns) != sorted(keys):
            res.violations.append({"key": {"op": "compute_1d_tuning_curves", "part": "labels"}, "what": "index is not the bin centres / columns not the unit keys", "input": inp,
                                   "impl": [list(tc.index), list(tc.columns)], "expected": [centres_of(lo, hi, nb), sorted(keys)]})
            pos += len(keys)
            continue
        rate, rate_ep = float(feat.rate), float(feat.restrict(iset_obj(nap, ep)).rate)     # the statement's rate: the feature's own
        if rate != rate_ep:
            res.count("tc1d_rate_differs_from_rate_restricted_to_ep")
        for k, sp in zip(keys, c["units"]):
            m = out[pos].split("|")
            pos += 1
            mc, mo = [int(v) for v in m[0].split()], [int(v) for v in m[1].split()]
            spin = restrict_ts(sp, ep)
            chs = [choices(x, c["ft"], c["fx"], ep) for x in spin]
            ties = any(len(ch) > 1 for ch in chs)
            res.case((tag, n, k), nontrivial=0 < len(spin) and any(occ))
            if ties:
                res.count("tc1d_unit_with_equidistant_spike")
            if not spin:
                res.count("tc1d_silent_or_outside_unit")
            col = tc[k].values.astype(float)
            ach = achievable(chs, lambda v: None if v is None else obin(v, lo, hi, nb))

            def judge(r):
                rec = recover_counts(col, occ, r)
                return rec, (not any(isinstance(x, str) for x in rec)
                             and tuple(sorted((kk, x) for kk, x in enumerate(rec) if isinstance(x, int) and x > 0)) in ach)
            got, ok = judge(rate)
            got_ep, ok_ep = judge(rate_ep)
            cmp_counts = [g for g, o in ((got, ok), (got_ep, ok_ep)) if o]      # counts compared with the model's: recovered with a rate that explains the output
            if not ok:
                if ok_ep and rate_ep != rate:
                    res.violations.append({"key": {"op": "compute_1d_tuning_curves", "part": "rate", "rate_of_feature_restricted_to_ep": True},
                                           "what": "tc x occupancy / feature.rate is not the number of attributed spikes; it is with the rate of the feature restricted to ep (%r instead of %r)" % (rate_ep, rate),
                                           "input": dict(inp, unit=k), "impl": {"tc": col.tolist(), "counts": got_ep, "occupancy": occ}, "expected": sorted(ach)[:4]})
                else:
                    res.violations.append({"key": {"op": "compute_1d_tuning_curves", "part": "count", "explicit_minmax": c["explicit"], "unvisited_bin_not_nan": "not-nan" in got},
                                           "what": "tc x occupancy / rate is not the number of spikes whose nearest-in-time feature sample (same epoch) falls in the bin, or an unvisited bin is not NaN",
                                           "input": dict(inp, unit=k), "impl": {"tc": col.tolist(), "counts": got, "occupancy": occ, "rate": rate}, "expected": sorted(ach)[:4]})
            else:
                # conservation: spikes in = sum of recovered counts
                nin = sum(1 for ch in chs if any(v is not None and obin(v, lo, hi, nb) is not None for v in ch))
                tot = sum(x for x in got if isinstance(x, int))
                if not ties and tot != nin:
                    res.violations.append({"key": {"op": "compute_1d_tuning_curves", "part": "conservation"}, "what": "sum of tc x occupancy / rate is not the number of attributed spikes in range",
                                           "input": dict(inp, unit=k), "impl": tot, "expected": nin})
            if mo != occ:
                res.disagreements.append({"op": "tc1d occupancy", "input": inp, "model": mo, "expected": occ})
            mgot = [None if o == 0 else x for x, o in zip(mc, mo)]
            if cmp_counts and mgot not in cmp_counts:
                res.disagreements.append({"op": "tc1d counts", "input": dict(inp, unit=k), "impl": cmp_counts, "model": mgot})
            if any(x != 0 for x, o in zip(mc, mo) if o == 0) or "inf" in m[2]:
                res.disagreements.append({"op": "tc1d model: count in unvisited bin", "input": dict(inp, unit=k), "model": m})
        if n % 401 == 0:
            res.sample({"tc1d": inp, "tc": tc.values.tolist()})


def part_tc2d(res, tier, rng, nap):
    cases = []
    for c in tc_cases(res, tier, rng, 700 if tier == "quick" else 8000, True):
        bx = pick_bins(rng, inside_vals(c, "fx"))    # 2-d: inferred from the feature restricted to ep
        by = pick_bins(rng, inside_vals(c, "fy"))
        if bx is None or by is None or bx[3] != by[3]:
            continue
        c["bx"], c["by"] = bx, by
        cases.append(c)
    lines = []
    for c in cases:
        for sp in c["units"]:
            lines.append("tc2d\t%d %d %d\t%d %d %d\t%s\t%s\t%s\t%s\t%s" % (c["bx"][:3] + c["by"][:3] + (C.fmt_ints(sp), C.fmt_ints(c["ft"]), C.fmt_ints(c["fx"]), C.fmt_ints(c["fy"]), C.fmt_iset(c["epe"]))))
    out = C.run_model(lines, driver="driver_c17")
    pos = 0
    wide = nap.IntervalSet(-1.0, 1.0)
    keys = [7, 2, 5]
    for n, c in enumerate(cases):
        (lx, hx, nx, explicit), (ly, hy, ny, _) = c["bx"], c["by"]
        ep = c["epe"]
        feat = nap.TsdFrame(G.arr(c["ft"]), np.array([c["fx"], c["fy"]], dtype=float).T, time_support=iset_obj(nap, c["fsup"]))
        g = nap.TsGroup({k: nap.Ts(G.arr(sp)) for k, sp in zip(keys, c["units"])}, time_support=wide)
        kw = {}
        if c["ep"] is not None:
            kw["ep"] = iset_obj(nap, c["ep"])
        if explicit:
            kw["minmax"] = (lx, hx, ly, hy)
        nbarg = nx if nx == ny and rng.random() < 0.5 else (nx, ny)
        inp = {k: c[k] for k in ("ft", "fx", "fy", "fsup", "ep", "units")}
        inp.update(nb_bins=[nx, ny], minmax=(lx, hx, ly, hy) if explicit else None)
        tc, xy = nap.compute_2d_tuning_curves(g, feat, nbarg, **kw)
        res.count("part=tc2d")
        if not explicit and ((min(c["fx"]), max(c["fx"])) != (lx, hx) or (min(c["fy"]), max(c["fy"])) != (ly, hy)):
            res.count("tc2d_inferred_minmax_of_feature_in_ep_narrower_than_whole_feature")
        rows = list(zip(c["fx"], c["fy"]))
        rin = [r for t, r in zip(c["ft"], rows) if G.mem(t, ep)]

        def key2(r):
            if r is None:
                return None
            i, j = obin(r[0], lx, hx, nx), obin(r[1], ly, hy, ny)
            return None if i is None or j is None else (i, j)
        occ = [[sum(1 for r in rin if key2(r) == (i, j)) for j in range(ny)] for i in range(nx)]
        if [list(xy[0]), list(xy[1])] != [centres_of(lx, hx, nx), centres_of(ly, hy, ny)] or list(tc.keys()) != sorted(keys):
            res.violations.append({"key": {"op": "compute_2d_tuning_curves", "part": "labels"}, "what": "xy is not the bin centres / keys not the unit keys", "input": inp,
                                   "impl": [list(xy[0]), list(xy[1])], "expected": [centres_of(lx, hx, nx), centres_of(ly, hy, ny)]})
            pos += len(keys)
            continue
        rate, rate_ep = float(feat.rate), float(feat.restrict(iset_obj(nap, ep)).rate)     # the statement's rate: the feature's own
        if rate != rate_ep:
            res.count("tc2d_rate_differs_from_rate_restricted_to_ep")
        occ_flat = [occ[i][j] for i in range(nx) for j in range(ny)]
        for k, sp in zip(keys, c["units"]):
            m = out[pos].split("|")
            pos += 1
            mc = [[int(v) for v in r.split()] for r in m[0].split(";")]
            mo = [[int(v) for v in r.split()] for r in m[1].split(";")]
            spin = restrict_ts(sp, ep)
            chs = [choices(x, c["ft"], rows, ep) for x in spin]
            res.case(("tc2d", n, k), nontrivial=0 < len(spin) and any(any(r) for r in occ))
            a = np.asarray(tc[k], dtype=float)
            ach = achievable(chs, key2)

            def judge(r):
                if a.shape != (nx, ny):
                    return ["shape"] * (nx * ny), False
                rec = recover_counts(a.reshape(-1).tolist(), occ_flat, r)
                return rec, (not any(isinstance(x, str) for x in rec)
                             and tuple(sorted(((q // ny, q % ny), x) for q, x in enumerate(rec) if isinstance(x, int) and x > 0)) in ach)
            got, ok = judge(rate)
            got_ep, ok_ep = judge(rate_ep)
            cmp_counts = [g for g, o in ((got, ok), (got_ep, ok_ep)) if o]      # counts compared with the model's: recovered with a rate that explains the output
            if not ok:
                if ok_ep and rate_ep != rate:
                    res.violations.append({"key": {"op": "compute_2d_tuning_curves", "part": "rate", "rate_of_feature_restricted_to_ep": True},
                                           "what": "tc x occupancy / features.rate is not the number of attributed spikes; it is with the rate of the features restricted to ep (%r instead of %r), "
                                                   "whereas compute_1d_tuning_curves multiplies by the rate of the feature as passed" % (rate_ep, rate),
                                           "input": dict(inp, unit=k), "impl": {"tc": a.tolist(), "counts": got_ep, "occupancy": occ}, "expected": sorted(ach)[:4]})
                else:
                    res.violations.append({"key": {"op": "compute_2d_tuning_curves", "part": "count", "explicit_minmax": explicit, "unvisited_bin_not_nan": "not-nan" in got},
                                           "what": "tc x occupancy / rate is not the number of spikes whose nearest-in-time feature sample (same epoch) falls in the cell, or an unvisited cell is not NaN",
                                           "input": dict(inp, unit=k), "impl": {"tc": a.tolist(), "counts": got, "occupancy": occ, "rate": rate}, "expected": sorted(ach)[:4]})
            if mo != occ:
                res.disagreements.append({"op": "tc2d occupancy", "input": inp, "model": mo, "expected": occ})
            mgot = [None if mo[i][j] == 0 else mc[i][j] for i in range(nx) for j in range(ny)]
            if cmp_counts and mgot not in cmp_counts:
                res.disagreements.append({"op": "tc2d counts", "input": dict(inp, unit=k), "impl": cmp_counts, "model": mgot})
            if "inf" in m[2]:
                res.disagreements.append({"op": "tc2d model: count in unvisited cell", "input": dict(inp, unit=k), "model": m})


# ----------------------------------------------------------------------------------------------------------------
CONT_DEFECTS = ("last_edge_samples_dropped", "empty_visited_bin_is_zero", "nan_mean_is_zero")


def cont_model_check(col, exp):
    """model vs implementation. col: float values per bin; exp: None (NaN) or (n, s) of the extracted model; the model has no float,
    so for a visited bin with n == 0 (no mean) both 0.0 and NaN agree with it; the statement oracle below decides."""
    for x, e in zip(col, exp):
        if e is None:
            if not np.isnan(x):
                return False
        elif e[0] == 0:
            if not (x == 0.0 or np.isnan(x)):
                return False
        elif np.isnan(x) or abs(x * e[0] - e[1]) > 1e-6:
            return False
    return True


def cont_expect(pick, vals, key, occ_flat, is_last, defects=()):
    """statement: per bin the mean of the signal values whose attributed feature row (pick[i] for sample i) falls in the bin; NaN for an
    unvisited bin, for a visited bin without signal sample and when a value is NaN (arithmetic mean).  `defects` switches on the
    library's known deviations.  Returns per bin ("nan",), ("zero",) or ("mean", n, sum)."""
    acc = [[] for _ in occ_flat]
    for r, v in zip(pick, vals):
        k = key(r)
        if k is None or ("last_edge_samples_dropped" in defects and is_last(r)):
            continue
        acc[k].append(v)
    out = []
    for k, vs in enumerate(acc):
        if occ_flat[k] == 0:
            out.append(("nan",))
        elif not vs:
            out.append(("zero",) if "empty_visited_bin_is_zero" in defects else ("nan",))
        elif any(v != v for v in vs):
            out.append(("zero",) if "nan_mean_is_zero" in defects else ("nan",))
        else:
            out.append(("mean", len(vs), sum(vs)))
    return out


def cont_match(col, exp):
    for x, e in zip(col, exp):
        if e[0] == "nan":
            if not np.isnan(x):
                return False
        elif e[0] == "zero":
            if x != 0.0:
                return False
        elif np.isnan(x) or abs(x * e[1] - e[2]) > 1e-6:
            return False
    return True


def cont_judge(cols, sigs, chs, key, occ_flat, is_last, cap=4096):
    """cols / sigs: {column: implementation values per bin} / {column: signal values of the samples in ep}; chs: admissible rows per sample.
    Returns (ok, defects, expectation of the first attribution): ok when SOME admissible attribution gives the statement's values in every
    column; otherwise the smallest set of known deviations under which some attribution does (None: unexplained)."""
    n = 1
    for ch in chs:
        n *= len(ch)
    if n > cap:
        return None, None, None
    picks = list(itertools.product(*chs))
    first = {cn: cont_expect(picks[0], sigs[cn], key, occ_flat, is_last) for cn in cols}
    # fewest deviations first; a NaN mean written as 0.0 is blamed only when the output cannot be explained without it
    # (a bin emptied by the last-edge rule is 0.0 whether or not the dropped samples held a NaN)
    subsets = [ds for size in range(len(CONT_DEFECTS) + 1) for ds in itertools.combinations(CONT_DEFECTS, size)]
    for ds in sorted(subsets, key=lambda ds: ("nan_mean_is_zero" in ds, len(ds))):
        for pick in picks:
            if all(cont_match(cols[cn], cont_expect(pick, sigs[cn], key, occ_flat, is_last, ds)) for cn in cols):
                return len(ds) == 0, ds, first
    return False, None, first


def part_cont(res, tier, rng, nap):
    grid = [i * U for i in range(12)]
    cases = []
    for c in tc_cases(res, tier, rng, 1200 if tier == "quick" else 16000, True):
        two = rng.random() < 0.4
        bx = pick_bins(rng, inside_vals(c, "fx"))
        by = pick_bins(rng, inside_vals(c, "fy")) if two else (0, 1, 1, True)
        if bx is None or by is None or (two and bx[3] != by[3]):
            continue
        st = sorted(rng.sample(grid, rng.randint(1, 8)) + ([rng.choice(grid)] if rng.random() < 0.2 else []))
        if len(set(st)) < 2:
            continue
        sv = [rng.randint(-3, 9) for _ in st]
        nan_at = sorted(rng.sample(range(len(st)), rng.choice([1, 1, 2]))) if rng.random() < 0.2 else []
        c.update(bx=bx, by=by, two=two, st=st, sv=sv, nan_at=nan_at)
        cases.append(c)
    # the extracted model works on integers: it is run on the cases without NaN signal value
    lines, mpos = [], {}
    for n, c in enumerate(cases):
        if c["nan_at"]:
            continue
        mpos[n] = len(lines)
        if c["two"]:
            lines.append("cont2d\t%d %d %d\t%d %d %d\t%s\t%s\t%s\t%s\t%s\t%s" % (c["bx"][:3] + c["by"][:3] + (C.fmt_ints(c["st"]), C.fmt_ints(c["sv"]), C.fmt_ints(c["ft"]), C.fmt_ints(c["fx"]), C.fmt_ints(c["fy"]), C.fmt_iset(c["epe"]))))
        else:
            lines.append("cont1d\t%d %d %d\t%s\t%s\t%s\t%s\t%s" % (c["bx"][:3] + (C.fmt_ints(c["st"]), C.fmt_ints(c["sv"]), C.fmt_ints(c["ft"]), C.fmt_ints(c["fx"]), C.fmt_iset(c["epe"]))))
    out = C.run_model(lines, driver="driver_c17")
    wide = iset_obj(nap, [(-U, 12 * U)])
    nan = float("nan")
    for n, c in enumerate(cases):
        (lx, hx, nx, explicit), (ly, hy, ny, _) = c["bx"], c["by"]
        ep, two = c["epe"], c["two"]
        op = "compute_2d_tuning_curves_continuous" if two else "compute_1d_tuning_curves_continuous"
        svp = [nan if i in c["nan_at"] else float(v) for i, v in enumerate(c["sv"])]
        svq = [3 * v + 1 for v in svp]
        sig = nap.TsdFrame(G.arr(c["st"]), np.array([svp, svq], dtype=float).T, time_support=wide, columns=["p", "q"])
        single = (not two) and rng.random() < 0.3
        if single:
            sig = nap.Tsd(G.arr(c["st"]), np.array(svp, dtype=float), time_support=wide)
        kw = {}
        if c["ep"] is not None:
            kw["ep"] = iset_obj(nap, c["ep"])
        inp = {k: c[k] for k in ("st", "sv", "nan_at", "ft", "fx", "fsup", "ep")}
        if two:
            feat = nap.TsdFrame(G.arr(c["ft"]), np.array([c["fx"], c["fy"]], dtype=float).T, time_support=iset_obj(nap, c["fsup"]))
            if explicit:
                kw["minmax"] = (lx, hx, ly, hy)
            inp.update(fy=c["fy"], nb_bins=[nx, ny], minmax=(lx, hx, ly, hy) if explicit else None)
            tc, xy = nap.compute_2d_tuning_curves_continuous(sig, feat, (nx, ny), **kw)
            cols = {"p": np.asarray(tc["p"], float).reshape(-1), "q": np.asarray(tc["q"], float).reshape(-1)}
            labels_ok = [list(xy[0]), list(xy[1])] == [centres_of(lx, hx, nx), centres_of(ly, hy, ny)]
            rows = list(zip(c["fx"], c["fy"]))
        else:
            feat = nap.Tsd(G.arr(c["ft"]), np.array(c["fx"], dtype=float), time_support=iset_obj(nap, c["fsup"]))
            if explicit:
                kw["minmax"] = (lx, hx)
            inp.update(nb_bins=nx, minmax=(lx, hx) if explicit else None)
            tc = nap.compute_1d_tuning_curves_continuous(sig, feat, nx, **kw)
            cols = {"p": tc.values[:, 0].astype(float)} if single else {"p": tc["p"].values.astype(float), "q": tc["q"].values.astype(float)}
            labels_ok = list(tc.index) == centres_of(lx, hx, nx)
            rows = [(v, 0) for v in c["fx"]]
        res.count("part=" + ("cont2d" if two else "cont1d"))
        res.count("cont_" + ("explicit" if explicit else "inferred") + "_minmax")
        if not explicit and ((min(c["fx"]), max(c["fx"])) != (lx, hx) or (two and (min(c["fy"]), max(c["fy"])) != (ly, hy))):
            res.count("cont_inferred_minmax_of_feature_in_ep_narrower_than_whole_feature")

        def key2(r):
            if r is None:
                return None
            i, j = obin(r[0], lx, hx, nx), obin(r[1], ly, hy, ny)
            return None if i is None or j is None else i * ny + j

        def is_last(r):
            return r[0] == hx or (two and r[1] == hy)
        rin = [r for t, r in zip(c["ft"], rows) if G.mem(t, ep)]
        occ = [sum(1 for r in rin if key2(r) == q) for q in range(nx * ny)]
        keep = [i for i, t in enumerate(c["st"]) if G.mem(t, ep)]
        sigs = {"p": [svp[i] for i in keep], "q": [svq[i] for i in keep]}
        chs = [choices(c["st"][i], c["ft"], rows, ep) for i in keep]
        unique = all(len(ch) == 1 for ch in chs)
        last_edge = any(r is not None and key2(r) is not None and is_last(r) for ch in chs for r in ch)
        res.case(("cont", n), nontrivial=len(keep) > 0 and any(occ))
        if last_edge:
            res.count("cont_sample_attributed_to_last_edge")
        if not unique:
            res.count("cont_equidistant_sample")
        if c["nan_at"] and any(i in keep for i in c["nan_at"]):
            res.count("cont_nan_signal_value_in_ep")
        if not labels_ok:
            res.violations.append({"key": {"op": op, "part": "labels"}, "what": "index/xy is not the bin centres", "input": inp})
            continue
        # model vs implementation (integer signals)
        if n in mpos:
            cells = [x for r in out[mpos[n]].split(";") for x in r.split()]
            mexp = [None if x == "nan" else tuple(int(v) for v in x.split(":")) for x in cells]
            if not cont_model_check(cols["p"], mexp) or ("q" in cols and not cont_model_check(cols["q"], [None if e is None else (e[0], 3 * e[1] + e[0]) for e in mexp])):
                res.disagreements.append({"op": op, "input": inp, "impl": {k: v.tolist() for k, v in cols.items()}, "model": mexp})
        # statement: SOME admissible attribution of the samples gives the returned values
        ok, ds, first = cont_judge(cols, {cn: sigs[cn] for cn in cols}, chs, key2, occ, is_last)
        if ok is None:
            res.count("cont_attribution_enumeration_capped")
        elif not ok:
            if any(e[0] != "mean" and o > 0 for e, o in zip(first["p"], occ)):
                res.count("cont_visited_bin_without_mean")
            flags = {d: bool(ds is not None and d in ds) for d in CONT_DEFECTS}
            pure_last = ds == ("last_edge_samples_dropped",)
            why = []
            if flags["last_edge_samples_dropped"]:
                why.append("a feature value equal to the LAST bin edge is counted as visiting the last bin (np.histogram) but its signal samples are dropped (np.digitize)")
            if flags["empty_visited_bin_is_zero"]:
                why.append("a visited bin holding no signal sample is 0.0 (tc[np.isnan(tc)] = 0.0), indistinguishable from a zero mean")
            if flags["nan_mean_is_zero"]:
                why.append("a bin whose signal samples include NaN is 0.0, which is neither their mean (NaN) nor their nanmean")
            res.violations.append({"key": dict({"op": op, "part": "value_on_last_edge" if pure_last else "mean", "explained": ds is not None}, **flags),
                                   "what": "per-bin value is not the mean of the signal samples whose (nearest-in-time, same epoch) feature value falls in the bin / NaN for an unvisited bin"
                                           + ("; " + "; ".join(why) if why else ""),
                                   "input": inp, "impl": {k: v.tolist() for k, v in cols.items()}, "expected per bin (first admissible attribution)": first})
        if n % 301 == 0:
            res.sample({"cont": inp, "tc": {k: v.tolist() for k, v in cols.items()}})


# ----------------------------------------------------------------------------------------------------------------
def post_check(p, wl, ex, tol=1e-9):
    """p: implementation posterior over feature bins; wl: exact Fractions occ_i/sum occ * prod r^c; ex: exact bin_size * sum_j r_ij.
    discrete identity: p_i = 0 where wl_i = 0, else log p_i - log wl_i + ex_i is constant; sum p = 1"""
    p = np.asarray(p, dtype=float)
    if all(w == 0 for w in wl):
        return bool(np.all(np.isnan(p)))
    if np.any(np.isnan(p)) or abs(p.sum() - 1.0) > 1e-9:
        return False
    cs = []
    for x, w, e in zip(p, wl, ex):
        if w == 0:
            if x != 0:
                return False
        else:
            if x <= 0:
                return False
            cs.append(math.log(x) - (math.log(w.numerator) - math.log(w.denominator)) + float(e))
    return max(cs) - min(cs) <= tol * max(1.0, max(abs(c) for c in cs))


def part_decode(res, tier, rng, nap):
    import pandas as pd
    grid = [i * U for i in range(16)]
    n_cases = 450 if tier == "quick" else 6000
    cases = []
    while len(cases) < n_cases:
        two = rng.random() < 0.35
        nx = rng.choice([1, 2, 2, 3, 4]) if not two else rng.choice([1, 2, 3])
        ny = 1 if not two else rng.choice([2, 3])
        lx, ly = rng.choice([0, 1]), 0
        stepx, stepy = rng.choice([1, 2]), rng.choice([1, 2])
        nu = rng.choice([1, 2, 3])
        rd = rng.choice([1, 1, 2])
        equal_sums = rng.random() < 0.3
        nbtot = nx * ny
        tcn = [[rng.randint(1, 4) for _ in range(nu)] for _ in range(nbtot)]
        if equal_sums and nu >= 2:
            tcn = [r[:-1] + [12 - sum(r[:-1])] for r in tcn]
        if rng.random() < 0.2:
            tcn[rng.randrange(nbtot)] = list(tcn[0])                      # identical bins: exact tie of the posterior
        ep = rand_iset(rng, grid, 2)
        b = rng.choice([U, 2 * U, 2 * U, 3 * U, 4 * U])
        units = []
        for _ in range(nu):
            units.append(sorted(rng.choice(grid) + rng.choice([0, 0, U // 5]) for _ in range(rng.randint(0, 7))))
        with_feat = rng.random() < 0.55
        fv = [(rng.randint(lx - 1, lx + nx * stepx + 1), rng.randint(ly - 1, ly + ny * stepy)) for _ in range(rng.randint(2, 7))]
        # unit keys: "same" (tuning-curve columns and group keys are the same sorted sequence), "group_permuted" (the dict / TsGroup is
        # built in another insertion order), "tc_permuted" (the tuning-curve columns are in another order than the sorted group keys),
        # "mismatched" (same number of units, one key differs)
        keyorder = rng.choice(["same", "same", "group_permuted", "tc_permuted", "mismatched"] if nu >= 2 else ["same", "same", "mismatched"])
        perm = list(range(nu))
        while nu >= 2 and perm == list(range(nu)):
            perm = rng.sample(range(nu), nu)
        cases.append(dict(two=two, nx=nx, ny=ny, lx=lx, ly=ly, sx=stepx, sy=stepy, nu=nu, rd=rd, tcn=tcn, ep=ep, b=b, units=units, with_feat=with_feat, fv=fv,
                          mode=rng.choice(["TsGroup", "dict", "TsdFrame"]), units_name=rng.choice(["s", "ms", "us"]), keyorder=keyorder, perm=perm,
                          wrong_key=rng.choice([1, 4, 11]), wrong_at=rng.randrange(nu)))
    # model: count rows + posterior per distinct count vector
    lines = ["rows\t%s\t%d\t%s" % (C.fmt_iset(c["ep"]), c["b"], "\t".join(C.fmt_ints(sp) for sp in c["units"])) for c in cases]
    out_rows = C.run_model(lines, driver="driver_c17")
    plines, pmeta = [], []
    for n, c in enumerate(cases):
        nx, ny = c["nx"], c["ny"]
        hx, hy = c["lx"] + nx * c["sx"], c["ly"] + ny * c["sy"]
        if c["with_feat"]:
            occ = [sum(1 for (x, y) in c["fv"] if obin(x, c["lx"], hx, nx) == i and (not c["two"] or obin(y, c["ly"], hy, ny) == j) and obin(x, c["lx"], hx, nx) is not None)
                   for i in range(nx) for j in range(ny)]
        else:
            occ = [1] * (nx * ny)
        c["occ"] = occ
        rows = []
        for s, e, l in count_grid(c["ep"], c["b"]):
            rows.append((2 * l + c["b"], tuple(sum(1 for t in sp if s <= t <= e and l <= t < l + c["b"]) for sp in c["units"])))
        c["rows"] = rows
        mrows = [] if out_rows[n] == "" else [(int(r.split(":")[0]), tuple(int(v) for v in r.split(":")[1].split())) for r in out_rows[n].split(";")]
        if mrows != rows:
            res.disagreements.append({"op": "decode time bins (count_rows) model vs statement", "input": {"ep": c["ep"], "b": c["b"], "units": c["units"]}, "model": mrows, "expected": rows})
        for cnt in sorted(set(r[1] for r in rows)):
            plines.append("post\t%d\t%s\t%d\t%s\t%d\t%s" % (c["b"], C.fmt_ints(occ), c["nu"], C.fmt_ints([v for r in c["tcn"] for v in r]), c["rd"], C.fmt_ints(cnt)))
            pmeta.append((n, cnt))
    out_post = C.run_model(plines, driver="driver_c17")
    model_post = {}
    for (n, cnt), o in zip(pmeta, out_post):
        f = o.split("|")
        model_post[(n, cnt)] = ([Fr(x) for x in f[0].split()], [Fr(x) for x in f[1].split()], int(f[2]), f[3])
    keys = [3, 5, 9]
    d2_lines, d2_meta = [], []
    for n, c in enumerate(cases):
        nx, ny, nu, two, ep, b = c["nx"], c["ny"], c["nu"], c["two"], c["ep"], c["b"]
        nbtot = nx * ny
        hx, hy = c["lx"] + nx * c["sx"], c["ly"] + ny * c["sy"]
        cx, cy = centres_of(c["lx"], hx, nx), centres_of(c["ly"], hy, ny)
        rates = [[Fr(v, c["rd"]) for v in r] for r in c["tcn"]]
        ks = keys[:nu]
        epo = iset_obj(nap, ep)
        wide = iset_obj(nap, [(-U, 17 * U)])
        f = {"s": 1e9, "ms": 1e6, "us": 1e3}[c["units_name"]]
        ko = c["keyorder"]
        tck = [ks[i] for i in c["perm"]] if ko == "tc_permuted" else list(ks)                 # order of the tuning-curve columns / dict keys
        gk = list(ks)                                                                         # key of unit u in the group
        if ko == "mismatched":
            gk[c["wrong_at"]] = c["wrong_key"]
        gorder = c["perm"] if ko == "group_permuted" else list(range(nu))                     # insertion order of the group
        inp = {k: c[k] for k in ("ep", "b", "units", "tcn", "rd", "mode", "units_name", "with_feat", "fv")}
        inp.update(nb=[nx, ny] if two else nx, centres=[cx, cy] if two else cx, tuning_curve_keys=tck, group_keys=[gk[u] for u in gorder])
        res.count("part=" + ("decode_2d" if two else "decode_1d"))
        res.count("decode_group=" + c["mode"])
        res.count("decode_units=" + c["units_name"])
        res.count("decode_prior=" + ("occupancy" if c["with_feat"] else "uniform"))
        res.count("decode_keys=%s/%s" % (ko, c["mode"]))
        kinfo = {"group": c["mode"], "keys": ko}
        if c["mode"] == "TsGroup":
            grp = nap.TsGroup({gk[u]: nap.Ts(G.arr(c["units"][u])) for u in gorder}, time_support=wide)
        elif c["mode"] == "dict":
            grp = {gk[u]: nap.Ts(G.arr(c["units"][u])) for u in gorder}
        else:
            # pre-binned counts on a support WIDER than ep: rows outside ep must not be decoded
            ep2 = ep + [(16 * U, 17 * U)] if rng.random() < 0.5 else ep
            g0 = nap.TsGroup({gk[u]: nap.Ts(G.arr(c["units"][u] + [16 * U])) for u in gorder}, time_support=wide)
            grp = g0.count(b / 1e9, iset_obj(nap, ep2))
            if ep2 is not ep:
                res.count("decode_prebinned_rows_outside_ep")
            c["frame_t"] = [C.to_ns(x) for x in grp.t]
            if len(grp) == 0:
                res.case(("decode", n), nontrivial=False)
                continue
        op = "decode_2d" if two else "decode_1d"
        kw = {"time_units": c["units_name"]}
        try:
            if two:
                tcd = {k: np.array([[float(rates[i * ny + j][ks.index(k)]) for j in range(ny)] for i in range(nx)]) for k in tck}
                if c["with_feat"]:
                    ft = [i * U for i in range(len(c["fv"]))]
                    kw["features"] = nap.TsdFrame(G.arr(ft), np.array(c["fv"], dtype=float), time_support=wide, columns=["x", "y"])
                if c["with_feat"] and (nx < 2 or ny < 2):
                    res.count("decode_one_bin_with_prior")
                dec, p = nap.decode_2d(tcd, grp, epo, b / f, (np.array(cx), np.array(cy)), **kw)
                tt = [C.to_ns(x) for x in dec.t]
                if np.asarray(p).shape[0] != len(tt):
                    res.case(("decode", n), nontrivial=True)
                    res.violations.append({"key": {"op": op, "part": "prebinned_rows_outside_ep" if c["mode"] == "TsdFrame" else "posterior_rows"},
                                           "what": "the posterior array has %d rows but the decoded series has %d time bins (rows of a pre-binned TsdFrame lying outside ep are not removed from the posterior)"
                                                   % (np.asarray(p).shape[0], len(tt)), "input": inp, "impl": [int(np.asarray(p).shape[0]), len(tt)], "expected": len(c["rows"])})
                    continue
                P = np.asarray(p).reshape(len(tt), nbtot)
                dv = [tuple(r) for r in dec.values]
                cen = [(cx[i], cy[j]) for i in range(nx) for j in range(ny)]
            else:
                tcd = pd.DataFrame(index=cx, data={k: [float(rates[i][ks.index(k)]) for i in range(nx)] for k in tck})
                if c["with_feat"]:
                    ft = [i * U for i in range(len(c["fv"]))]
                    kw["feature"] = nap.Tsd(G.arr(ft), np.array([v[0] for v in c["fv"]], dtype=float), time_support=wide)
                dec, p = nap.decode_1d(tcd, grp, epo, b / f, **kw)
                tt = [C.to_ns(x) for x in p.t]
                P = p.values.reshape(len(tt), nbtot)
                dv = [float(v) for v in dec.values]
                cen = cx
                if list(p.columns) != cx or [C.to_ns(x) for x in dec.t] != tt:
                    res.violations.append({"key": {"op": op, "part": "labels"}, "what": "posterior columns are not the bin centres / decoded and posterior time axes differ", "input": inp})
        except Exception as ex:
            one_bin = c["with_feat"] and (nx < 2 or (two and ny < 2))
            res.case(("decode", n), nontrivial=True)
            if ko in ("tc_permuted", "mismatched") and isinstance(ex, RuntimeError) and "tuning" in str(ex):
                res.count("decode_refused_keys=%s/%s" % (ko, c["mode"]))        # the documented refusal
                continue
            res.violations.append({"key": dict({"op": op, "part": "one_bin_with_occupancy_prior" if one_bin else "exception", "exception": type(ex).__name__}, **kinfo),
                                   "what": "decode raised %s: %s" % (type(ex).__name__, str(ex)[:80]), "input": inp})
            continue
        if ko == "mismatched":
            res.case(("decode", n), nontrivial=True)
            res.violations.append({"key": dict({"op": op, "part": "unit_keys"}, **kinfo),
                                   "what": "the group's keys %s are not the tuning curves' keys %s, yet a posterior is returned (units paired by position) instead of the documented RuntimeError"
                                           % (sorted(gk), tck), "input": inp, "impl": np.asarray(P).tolist()[:3], "expected": "RuntimeError"})
            continue
        if ko == "tc_permuted":
            res.count("decode_answered_keys=tc_permuted/" + c["mode"])
        rows = c["rows"]
        if c["mode"] == "TsdFrame" or two:
            # model: rows of a pre-binned frame that are decoded (inside ep); decode_2d's posterior rows; unravel of the argmax
            ft_ = c.get("frame_t", [r[0] // 2 for r in rows])
            am = int(np.argmax(P[0])) if len(tt) and not np.all(np.isnan(P[0])) else 0
            d2_lines.append("decode2d_rows\t%s\t%d\t%d\t%s" % (C.fmt_iset(ep), ny, am, C.fmt_ints(ft_)))
            d2_meta.append((inp, ft_, tt, int(P.shape[0]), am, dv[0] if len(tt) else None, cen, ny, two, c["mode"]))
        res.case(("decode", n), nontrivial=len(rows) > 0 and any(any(r[1]) for r in rows))
        if [2 * t for t in tt] != [r[0] for r in rows] and not all(abs(2 * t - r[0]) <= 1 for t, r in zip(tt, rows)) or len(tt) != len(rows):
            res.violations.append({"key": {"op": op, "part": "time_bins"}, "what": "posterior time axis is not the bin grid of count(bin_size, ep)", "input": inp,
                                   "impl": tt, "expected (2*centre)": [r[0] for r in rows]})
            continue
        if ep_ticks(dec.time_support) != ep and len(rows):
            res.violations.append({"key": {"op": op, "part": "support"}, "what": "decoded time support is not ep", "input": inp})
        tot = sum(c["occ"])
        for ti, (c2, cnt) in enumerate(rows):
            wl = [(Fr(o, tot) if tot else Fr(0)) * math.prod(r ** k for r, k in zip(rates[i], cnt)) for i, o in enumerate(c["occ"])]
            ex = [Fr(b, 10**9) * sum(rates[i]) for i in range(nbtot)]
            res.evaluations += 1
            mw, me, marg, _ = model_post[(n, cnt)]
            if tot and (mw != wl or me != ex):
                res.disagreements.append({"op": "posterior model vs statement", "input": dict(inp, count=cnt), "model": [list(map(str, mw)), list(map(str, me))],
                                          "expected": [list(map(str, wl)), list(map(str, ex))]})
            if tot == 0:
                res.count("decode_prior_all_zero")
                if not np.all(np.isnan(P[ti])):
                    res.violations.append({"key": {"op": op, "part": "posterior"}, "what": "occupancy prior is zero everywhere but the posterior is not NaN", "input": dict(inp, count=cnt), "impl": P[ti].tolist()})
                continue
            if not post_check(P[ti], wl, ex):
                res.violations.append({"key": dict({"op": op, "part": "posterior"}, **kinfo), "what": ("the tuning-curve columns are in another order than the group's sorted keys and the units are paired by POSITION, not by key: " if ko == "tc_permuted" else "") + "posterior is not the normalised prior(occupancy) x exp(-bin_size x sum of rates) x prod rate^count",
                                       "input": dict(inp, count=cnt), "impl": P[ti].tolist(), "expected unnormalised (without exp)": list(map(str, wl)), "exponents": list(map(str, ex))})
                continue
            # decoded value = centre of the maximal posterior bin (exact log-weights; first index among exact ties)
            lw = [(-math.inf if w == 0 else math.log(w.numerator) - math.log(w.denominator) - float(e)) for w, e in zip(wl, ex)]
            best = max(lw)
            near = [i for i, v in enumerate(lw) if best - v < 1e-9]
            exact_ties = [i for i in near if (wl[i] == wl[near[0]] and ex[i] == ex[near[0]])]
            got = cen.index(dv[ti]) if dv[ti] in cen else None
            if got is None or got not in near:
                res.violations.append({"key": {"op": op, "part": "argmax"}, "what": "decoded value is not the centre of the bin where the posterior is maximal", "input": dict(inp, count=cnt),
                                       "impl": dv[ti], "expected": [cen[i] for i in near]})
            elif len(near) > 1 and got != near[0]:
                if near == exact_ties and all(rates[i] == rates[near[0]] and c["occ"][i] == c["occ"][near[0]] for i in near):
                    res.violations.append({"key": {"op": op, "part": "argmax_tie"}, "what": "identical bins tie exactly; np.argmax must return the first", "input": dict(inp, count=cnt), "impl": dv[ti]})
                else:
                    res.float_ambiguous += 1
            if len(set(ex)) == 1 and len(near) == 1 and marg != near[0]:
                res.disagreements.append({"op": "argmax (exp cancels)", "input": dict(inp, count=cnt), "model": marg, "expected": near[0]})
            if got != int(np.argmax(P[ti])):
                res.violations.append({"key": {"op": op, "part": "argmax"}, "what": "decoded value is not the centre at argmax of the returned posterior", "input": dict(inp, count=cnt)})
        if n % 101 == 0:
            res.sample({"decode": inp, "posterior": P.tolist()[:3]})
    for (inp, ft_, tt, prow, am, dv0, cen, ny, two, mode), o in zip(d2_meta, C.run_model(d2_lines, driver="driver_c17") if d2_lines else []):
        f = o.split("|")
        mt = [int(v) for v in f[1].split()]
        if mode == "TsdFrame" and (mt != tt or int(f[0]) != prow):
            res.disagreements.append({"op": "decode pre-binned rows inside ep", "input": inp, "frame_t": ft_, "impl": [tt, prow], "model": [mt, int(f[0])]})
        if two and dv0 is not None:
            i, j = [int(v) for v in f[2].split()]
            if i * ny + j >= len(cen) or tuple(cen[i * ny + j]) != tuple(dv0):
                res.disagreements.append({"op": "decode_2d unravel", "input": inp, "impl": dv0, "model": [i, j], "argmax": am})
    # the occupancy prior of decode_1d rebuilds the bin edges from the centres
    lines = []
    meta = []
    for lo, hi, nb in [(0, 4, 2), (0, 3, 3), (1, 3, 4), (0, 6, 3), (0, 2, 1), (1, 5, 2)]:
        fv = list(range(lo - 1, hi + 2))
        lines.append("decode_occ\t%d %d %d\t%s" % (lo, hi, nb, C.fmt_ints(fv)))
        meta.append((lo, hi, nb, fv))
    for (lo, hi, nb, fv), o in zip(meta, C.run_model(lines, driver="driver_c17")):
        exp = None if nb < 2 else [sum(1 for v in fv if obin(v, lo, hi, nb) == k) for k in range(nb)]
        got = None if o.split("|")[0] == "none" else [int(v) for v in o.split("|")[0].split()]
        res.case(("decode_occ", lo, hi, nb), nontrivial=True)
        if got != exp:
            res.disagreements.append({"op": "decode_occ", "input": [lo, hi, nb, fv], "model": got, "expected": exp})


# ----------------------------------------------------------------------------------------------------------------
def run(res, tier, seed):
    nap = _nap()
    warnings.simplefilter("ignore")
    res.rule = ("(1) oracle laws: np.histogram / histogram2d / digitize vs the executable hist / bin_of / dig / hist2d on ALL (lo, width, nb<=4) with a dyadic step and all values on the half-integer "
                "lattice around [lo,hi] incl. every edge [complete]; (2) public API, seeded random on the dyadic time lattice 2^-9 s (12 points; feature samples on even points so that "
                "spikes are on samples, midway between samples (equidistant) and on epoch ends): compute_discrete_tuning_curves (1-3 epoch sets, <=3 intervals each), compute_1d/2d_tuning_curves and "
                "the continuous variants (feature with 2-4 samples incl. duplicate timestamps, values 0..3 incl. interior edges and the last edge, feature support with a gap, ep None / 1-3 intervals, "
                "nb 1..4, explicit and inferred minmax, 3 units: every lattice alignment with duplicates / random subset / silent or outside; the continuous variants with integer signal values and, in 1 case of 5, "
                "1-2 NaN signal values [statement oracle only: the extracted model has no NaN]), decode_1d/2d (TsGroup, dict, pre-binned TsdFrame; s/ms/us; "
                "uniform and occupancy prior; 1-3 units; identical bins; equal summed rates; unit keys: same sequence in tuning curves and group / group built in a permuted insertion order / tuning-curve columns "
                "permuted / one key different); (3) compute_1d_tuning_curves on a COMPLETE small space (all 2-3 sample features on 4 lattice points x values {0,1,2} x all canonical "
                "epoch sets of 1-2 intervals on 6 points, a unit firing at every lattice point: 4860 cases; complete in thorough, seeded sample of 500 in quick). Each case: extracted model vs implementation AND brute-force statement oracle on the implementation's output "
                "(tuning curves: tc x occupancy / feature.rate must be a count vector reachable by SOME admissible attribution, all enumerated; continuous: the values must be the per-bin means of SOME admissible attribution, "
                "NaN where the bin is unvisited / holds no sample / holds a NaN; decode: units paired by key). "
                "non-trivial = at least one spike/sample inside ep and a visited bin (decode: a non-zero count); distinct = distinct case index x unit")
    res.exhaustive = False
    rng = random.Random(seed * 31 + 17)
    part_hist(res, tier)
    part_discrete(res, tier, rng, nap)
    part_tc1d(res, tier, rng, nap)
    part_tc1d_complete(res, tier, rng, nap)
    part_tc2d(res, tier, rng, nap)
    part_cont(res, tier, rng, nap)
    part_decode(res, tier, rng, nap)


def search(res, seed):
    r2 = C.Result()
    run(r2, "thorough", seed)
    new = [v for v in r2.violations if C.match_known("C17", v) is None]
    return new[0] if new else None


def replay(payload):
    """re-run the recorded input on the current tree and print both sides"""
    nap = _nap()
    warnings.simplefilter("ignore")
    v = payload.get("violation") or (payload.get("disagreements") or [{}])[0]
    inp = v.get("input", {})
    op = (v.get("key") or {}).get("op") or v.get("op")
    print("op", op)
    print("input", inp)
    print("recorded implementation output:", v.get("impl"))
    print("recorded expectation          :", v.get("expected", v.get("expected per bin (first admissible attribution)", v.get("expected (n, sum) per bin"))))
    if op == "compute_1d_tuning_curves_continuous" and "st" in inp:
        wide = iset_obj(nap, [(-U, 12 * U)])
        sv = [float("nan") if i in (inp.get("nan_at") or []) else float(v) for i, v in enumerate(inp["sv"])]
        sig = nap.Tsd(G.arr(inp["st"]), np.array(sv, dtype=float), time_support=wide)
        feat = nap.Tsd(G.arr(inp["ft"]), np.array(inp["fx"], dtype=float), time_support=iset_obj(nap, [tuple(x) for x in inp["fsup"]]))
        kw = {}
        if inp.get("ep") is not None:
            kw["ep"] = iset_obj(nap, [tuple(x) for x in inp["ep"]])
        if inp.get("minmax") is not None:
            kw["minmax"] = tuple(inp["minmax"])
        tc = nap.compute_1d_tuning_curves_continuous(sig, feat, inp["nb_bins"], **kw)
        print("current implementation output:", tc.values[:, 0].tolist())
        lo, hi = (inp["minmax"] if inp.get("minmax") else (min(inp["fx"]), max(inp["fx"])))
        ep = [tuple(x) for x in (inp.get("ep") or inp["fsup"])]
        nb = inp["nb_bins"]
        rows = [(x, 0) for x in inp["fx"]]
        if inp.get("minmax") is None:
            vin = [x for t, x in zip(inp["ft"], inp["fx"]) if G.mem(t, ep)]
            lo, hi = min(vin), max(vin)
        keep = [i for i, t in enumerate(inp["st"]) if G.mem(t, ep)]
        chs = [choices(inp["st"][i], inp["ft"], rows, ep) for i in keep]
        occ = [sum(1 for t, r in zip(inp["ft"], rows) if G.mem(t, ep) and obin(r[0], lo, hi, nb) == k) for k in range(nb)]
        ok, ds, first = cont_judge({"p": tc.values[:, 0].astype(float)}, {"p": [sv[i] for i in keep]}, chs,
                                   lambda r: None if r is None else obin(r[0], lo, hi, nb), occ, lambda r: r[0] == hi)
        print("statement, per bin           :", first["p"] if first else None)
        print("holds:", ok, " known deviations that explain the output:", ds)
        return 0 if ok else 1
    r2 = C.Result()
    run(r2, "quick", int(payload.get("seed", 0) or 0))
    same = [x for x in r2.violations if x.get("key") == v.get("key")]
    print("violations with the same key on the current tree (quick tier):", len(same))
    return 1 if same else 0
