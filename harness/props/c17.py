"""C17 tuning curves are spikes per occupancy; decoding is their Bayes posterior (partial)."""
import itertools
import math
import random
import warnings
from fractions import Fraction as Fr

import numpy as np

import common as C
import gen as G

LEVEL = "proof"
DRIVERS = ["driver_c17"]
TRUSTED = ["model: coq/Model/Tuning.v (hist/bin_of/dig/hist2d, discrete_tc, attributed via Model/ValueFrom.v value_from mode 1, tc1d/tc2d, cont_tc/cont_tc2, "
           "prior/likelihood/expo/weights/posterior/argmax, count_rows over Model/Count.v, decode_binned/decode2d_post/decode2d_decoded/unravel, edges4/decode_occ); theorems: Proofs/TuningProofs.v, Proofs/DecodingProofs.v",
           "PARTIAL - oracle laws visible as Section hypotheses in the closed theorems: np.histogram = hist, np.histogram2d = hist2d (half-open bins, last bin closed), "
           "np.digitize - 1 = dig (all bins half-open), exp = a positive function E (respecting equality); np.prod / ** are exact on the small integers used",
           "not modelled, checked by the statement oracle only: which unit sits at which position (keys of the tuning curves vs keys of the group; witness C17_decode_pairing_by_position_refuted), "
           "NaN signal values in the continuous variants, the value written in a visited bin without signal sample (model: n = 0; witness C17_cont_empty_visited_bin_refuted), "
           "the rate factor (free variable of tc1d/tc2d; the statement's reading is C17_tc1d_value_feature_rate)",
           "the real-valued factor exp(-bin_size * sum of rates) is compared through log(p_i) - log(occ_i prod r^c) + bin_size sum_j r_ij being constant in i (1e-9): the only real-valued comparison"]
ASSUMPTIONS = ["feature values are integers, bin edges np.linspace(lo, hi, nb+1) have a dyadic step (exact in float64); times on the dyadic lattice 2^-9 s",
               "a spike / signal sample equidistant from two feature samples (or duplicate feature timestamps) may be attributed to either by the statement; the oracle accepts every "
               "attribution to a nearest sample of the same epoch (ALL combinations are enumerated, for spikes and for the continuous variants), the extracted model fixes the kernel's choice",
               "'the feature sampling rate' is read as pynapple's .rate (samples / support duration) of the feature AS PASSED (not restricted to ep), for the 1-d and the 2-d function alike; "
               "a result that is right only with the rate of the feature restricted to ep is reported with key part=rate, rate_of_feature_restricted_to_ep=True",
               "inferred minmax (the statement does not say from which samples it is inferred) = min/max of the whole feature for compute_1d_tuning_curves, of the feature restricted to ep for the other three "
               "(pinned per function; only the bin labels depend on it)",
               "'the mean signal over samples whose feature falls in the bin' of a visited bin holding NO signal sample, or holding a NaN signal value, is NaN (the arithmetic mean as np.mean defines it); 0.0 is not accepted",
               "decode: each unit's rate is paired with the count of the unit of the SAME key; when the keys of the tuning curves and of the group are not the same sequence the only accepted outcomes are the "
               "documented RuntimeError or (same key set) the posterior paired by key; different key sets must raise RuntimeError",
               "tuning curves passed to decode are positive rationals with a small common denominator; counts are integers (pre-binned TsdFrame holds integer counts)",
               "argument forms: the outcome depends only on the instants, values, epochs and keys an argument denotes, not on its container, dtype (when the dtype holds the values exactly), "
               "time unit, time origin, positional / keyword spelling or the history of the object; an explicit None for a parameter whose documented default is None is the same call as leaving it out; "
               "a form outside the documented signature (np.int64 nb_bins, np.float32 / np.int64 / 0-d bin_size, upper-case time_units) may be refused with a clean TypeError / ValueError, an answer must satisfy the statement; "
               "a feature value NaN / +inf / -inf falls in no bin; the mean of signal samples holding an infinity of one sign is that infinity, of both signs NaN; float32 signals are drawn in {-1,0,1} "
               "so that the float32 mean stays within the continuous oracle's 1e-6; with no unit the posterior is the normalised prior"]

U = 1953125  # 2^-9 s in ticks


def _nap():
    import pynapple as nap
    return nap


# ----------------------------------------------------------------------------------------------------------------
# statement-level oracles (brute force, independent of the model)
def obin(v, lo, hi, nb):
    """bin of value v for nb equal bins over [lo, hi]: half-open, last closed; None outside (NaN, +inf, -inf fall in no bin)"""
    if v != v or v < lo or v > hi:
        return None
    if v == hi:
        return nb - 1
    return int(Fr(v - lo) * nb // Fr(hi - lo))


def interval_of(x, ep):
    for s, e in ep:
        if s <= x <= e:
            return (s, e)
    return None


def choices(x, ft, rows, ep):
    """admissible attributed rows for a sample at time x: rows of the feature samples nearest in time within
    the same epoch; [None] when the epoch holds no feature sample; None when x is outside ep"""
    iv = interval_of(x, ep)
    if iv is None:
        return None
    cand = [(abs(t - x), r) for t, r in zip(ft, rows) if iv[0] <= t <= iv[1]]
    if not cand:
        return [None]
    d = min(c[0] for c in cand)
    out = []
    for dd, r in cand:
        if dd == d and r not in out:
            out.append(r)
    return out


def achievable(chs, key):
    """set of count vectors (as sorted tuples of (key, count)) reachable by choosing one admissible row per sample;
    built incrementally over the samples (the set of distinct vectors stays small), so there is no cap"""
    outs = {()}
    for c in chs:
        ks = []
        for r in c:
            k = key(r)
            if k not in ks:
                ks.append(k)
        if ks == [None]:
            continue
        nxt = set()
        for v in outs:
            for k in ks:
                if k is None:
                    nxt.add(v)
                else:
                    d = dict(v)
                    d[k] = d.get(k, 0) + 1
                    nxt.add(tuple(sorted(d.items())))
        outs = nxt
    return outs


def recover_counts(vals, occ, rate):
    """vals, occ: flat lists. tc x occupancy / rate per bin: an integer, None for a NaN in an unvisited bin, or a string naming what is wrong"""
    rec = []
    for x, o in zip(vals, occ):
        if o == 0:
            rec.append(None if np.isnan(x) else "not-nan")
        else:
            v = x * o / rate
            rec.append(int(round(v)) if np.isfinite(v) and abs(v - round(v)) < 1e-6 else "non-integer")
    return rec


def edges_of(lo, hi, nb):
    return [Fr(lo) + Fr(hi - lo) * k / nb for k in range(nb + 1)]


def centres_of(lo, hi, nb):
    e = edges_of(lo, hi, nb)
    return [float((e[k] + e[k + 1]) / 2) for k in range(nb)]


def dyadic(lo, hi, nb):
    return hi > lo and ((hi - lo) * 64) % nb == 0


def count_grid(ep, b):
    out = []
    for s, e in ep:
        l = s
        while 2 * l + b <= 2 * e:
            out.append((s, e, l))
            l += b
    return out


def iset_obj(nap, ep):
    return nap.IntervalSet(G.arr([s for s, _ in ep]), G.arr([e for _, e in ep]))


def ep_ticks(x):
    return [(C.to_ns(s), C.to_ns(e)) for s, e in x.values]


def restrict_ts(ts, ep):
    return [t for t in ts if G.mem(t, ep)]


# ----------------------------------------------------------------------------------------------------------------
# generators
def rand_iset(rng, pts, max_m):
    m = rng.randint(1, max_m)
    k = sorted(rng.sample(range(len(pts)), 2 * m))
    return [(pts[k[2 * i]], pts[k[2 * i + 1]]) for i in range(m)]


def rand_units(rng, grid, ep):
    allpos = list(grid)
    inside = [t for t in grid if G.mem(t, ep)]
    outside = [t for t in grid if not G.mem(t, ep)]
    u0 = sorted(allpos + rng.sample(allpos, 2))                       # every alignment, with duplicates
    u1 = sorted(rng.sample(allpos, rng.randint(1, max(1, len(allpos) // 2))))
    u2 = rng.choice([[], outside, outside[:1], inside[:1]])           # silent / only outside the epochs
    return [u0, u1, list(u2)]


def rand_feature(rng, fpos, kmax, vals):
    k = rng.randint(2, kmax)
    ft = sorted(rng.sample(fpos, k))
    if rng.random() < 0.15:
        ft[rng.randrange(1, k)] = ft[0] if k == 2 else ft[rng.randrange(0, k - 1)]
        ft = sorted(ft)
    fv = [rng.choice(vals) for _ in ft]
    return ft, fv


def pick_bins(rng, vals_for_inferred):
    """(lo, hi, nb, explicit?)"""
    for _ in range(50):
        nb = rng.choice([1, 2, 2, 3, 4])
        if rng.random() < 0.5:
            lo, hi = rng.choice([(0, 4), (1, 3), (0, 3), (0, 6), (-1, 3), (0, 2), (1, 2)])
            if dyadic(lo, hi, nb):
                return lo, hi, nb, True
        else:
            if len(set(vals_for_inferred)) >= 2:
                lo, hi = min(vals_for_inferred), max(vals_for_inferred)
                if dyadic(lo, hi, nb):
                    return lo, hi, nb, False
    return None


def pick_explicit(rng):
    while True:
        nb = rng.choice([1, 2, 2, 3, 4])
        lo, hi = rng.choice([(0, 4), (1, 3), (0, 3), (0, 6), (-1, 3), (0, 2), (1, 2)])
        if dyadic(lo, hi, nb):
            return lo, hi, nb, True


# ----------------------------------------------------------------------------------------------------------------
# WIDENING (argument forms).  A case may carry c["form"]: the SAME mathematical input (instants in ticks, values, epochs, keys)
# handed to the library in another of the forms the public API accepts.  Legacy cases carry no form and are built exactly as before;
# the oracles are the same for both.
V = 64 * U        # 2^-3 s = 125 ms: a whole number of ms and of us (integer-dtype time arrays)
W = 512 * U       # 1 s (integer-dtype arrays in seconds, Python int scalars)
BIG = 10**14      # 1e5 s: a multiple of U, V and W; 1e5 + k 2^-9 is exact in float64
INF = float("inf")

T_FORMS = ("nd", "list", "tuple", "tsindex", "tprop", "index", "ms", "us", "f32", "ms_int", "us_uint", "s_int")
D_FORMS = ("float64", "float32", "int64", "int32", "int16", "int8", "uint8", "uint16", "uint32", "uint64", "bool", "pylist")
EP_FORMS = ("nd", "list", "kw", "pairs", "scalar", "npscalar", "df", "series", "copy", "meta", "tsindex", "ms", "us", "ms_int", "us_uint", "s_int",
            "intersect", "union", "saveload")
KEYSETS = ([7, 2, 5], [0, 1, 2], [10, 2, 33], [100, 9, 10])
_TMP = {"dir": None, "n": 0}


def _saveload(nap, obj, stem):
    """history: the object written to an .npz file and read back"""
    import os
    import tempfile
    if _TMP["dir"] is None:
        os.makedirs(C.CACHE, exist_ok=True)
        _TMP["dir"] = tempfile.mkdtemp(prefix="c17-", dir=C.CACHE)
    _TMP["n"] += 1
    p = os.path.join(_TMP["dir"], "%s%d.npz" % (stem, _TMP["n"]))
    obj.save(p)
    out = nap.load_file(p)
    os.remove(p)
    return out


def _cleanup_tmp():
    import shutil
    if _TMP["dir"] is not None:
        shutil.rmtree(_TMP["dir"], ignore_errors=True)
        _TMP["dir"] = None


def shift(x, mul, off):
    """the time frame of a case: every tick t becomes t * mul + off (nested lists / tuples of ticks)"""
    if x is None:
        return None
    if isinstance(x, (list, tuple)):
        return type(x)(shift(v, mul, off) for v in x)
    return x * mul + off


def draw_frame(frng):
    """lattice 2^-9 s, 2^-3 s (whole ms / us) or 1 s; origin at 0, straddling 0, all negative, or 1e5 s away"""
    mul = frng.choice([1, 1, 64, 64, 512])
    off = frng.choice([0, 0, -6 * U * mul, -40 * U * mul, BIG])
    return mul, off


def frame_name(mul, off):
    return "lattice=%s,origin=%s" % ({1: "2^-9s", 64: "125ms", 512: "1s"}[mul], "0" if off == 0 else "1e5s" if off == BIG else "straddles_0" if off == -6 * U * mul else "negative")


def _int_times(ticks, form):
    """integer-dtype array (+ unit) holding exactly these instants, or None"""
    if not len(ticks):
        return None
    if form == "ms_int" and all(t % 10**6 == 0 for t in ticks):
        return np.array([t // 10**6 for t in ticks], dtype=np.int64), "ms"
    if form == "us_uint" and all(t % 1000 == 0 and t >= 0 for t in ticks):
        return np.array([t // 1000 for t in ticks], dtype=np.uint64), "us"
    if form == "s_int" and all(t % 10**9 == 0 for t in ticks):
        v = [t // 10**9 for t in ticks]
        return np.array(v, dtype=np.uint8 if min(v) >= 0 and max(v) < 256 else np.int32), "s"
    return None


def t_arg(nap, ticks, form):
    """(t, time_units, form used): the instants `ticks` (ns) as the time argument of a constructor in the requested form; a form that
    cannot hold these instants exactly falls back to the float64 ndarray in seconds ('nd', the legacy form)"""
    import pandas as pd
    ticks = [int(t) for t in ticks]
    a = G.arr(ticks)
    if form == "list":
        if ticks and all(t % 10**9 == 0 for t in ticks):
            return [t // 10**9 for t in ticks], "s", "list_of_int"
        return a.tolist(), "s", form
    if form == "tuple":
        return tuple(a.tolist()), "s", form
    if form == "tsindex":
        return nap.Ts(a).index, "s", form            # another object's TsIndex
    if form == "tprop":
        return nap.Ts(a).t, "s", form
    if form == "index" and ticks:
        return pd.Index(a), "s", form
    if form == "ms":
        return np.asarray(ticks, dtype=np.float64) / 1e6, "ms", form
    if form == "us":
        return np.asarray(ticks, dtype=np.float64) / 1e3, "us", form
    if form == "f32" and ticks and np.all(a.astype(np.float32).astype(np.float64) == a):
        return a.astype(np.float32), "s", form
    it = _int_times(ticks, form)
    if it is not None:
        return it[0], it[1], form
    return a, "s", "nd"


def d_arg(vals, form):
    """(d, form used): data of the requested dtype (vals: list, or list of rows); a dtype that cannot hold these values exactly falls back to float64"""
    a = np.array(vals, dtype=np.float64)
    if form == "float64":
        return a, form
    flat = a.reshape(-1)
    fin = bool(np.all(np.isfinite(flat)))
    if form == "pylist":
        if fin and np.all(flat == np.round(flat)):
            return a.astype(np.int64).tolist(), "pylist_of_int"
        return a.tolist(), "pylist_of_float"
    dt = np.dtype(form)
    if dt.kind == "f":
        ok = np.array_equal(a.astype(dt).astype(np.float64), a, equal_nan=True)
    elif not fin or not np.all(flat == np.round(flat)):
        ok = False
    elif dt.kind == "b":
        ok = bool(np.all((flat == 0) | (flat == 1)))
    else:
        info = np.iinfo(dt)
        ok = bool(np.all((flat >= info.min) & (flat <= info.max)))
    if ok:
        return a.astype(dt), form
    return a, "float64"


def iset_form(nap, ep, form):
    """(IntervalSet, form used): the canonical interval set `ep` (ticks) built in the requested form (fallback: two float64 ndarrays, the legacy form)"""
    import pandas as pd
    ep = [(int(s), int(e)) for s, e in ep]
    s, e = [a for a, _ in ep], [b for _, b in ep]
    S, E = G.arr(s), G.arr(e)
    n = len(ep)
    if form == "list":
        return nap.IntervalSet(S.tolist(), E.tolist()), form
    if form == "kw":
        return nap.IntervalSet(end=E, start=S), form
    if form == "pairs" and n:
        return nap.IntervalSet(np.array([S, E]).T), form
    if form == "scalar" and n == 1:
        a, b = float(S[0]), float(E[0])
        if a == int(a) and b == int(b):
            return nap.IntervalSet(int(a), int(b)), "scalar_int"
        return nap.IntervalSet(a, b), form
    if form == "npscalar" and n == 1:
        return nap.IntervalSet(np.float64(S[0]), np.array(E[0])), form          # numpy scalar, 0-d array
    if form == "df" and n:
        return nap.IntervalSet(pd.DataFrame({"start": S, "end": E})), form
    if form == "series" and n:
        return nap.IntervalSet(pd.Series(S), pd.Series(E)), form
    if form == "copy":
        return nap.IntervalSet(nap.IntervalSet(S, E)), form
    if form == "meta" and n:
        return nap.IntervalSet(S, E, metadata={"label": ["e%d" % i for i in range(n)], "w": list(range(n))}), form
    if form == "tsindex":
        return nap.IntervalSet(nap.Ts(S).index, nap.Ts(E).index), form
    if form == "ms":
        return nap.IntervalSet(np.asarray(s, dtype=np.float64) / 1e6, np.asarray(e, dtype=np.float64) / 1e6, time_units="ms"), form
    if form == "us":
        return nap.IntervalSet(np.asarray(s, dtype=np.float64) / 1e3, np.asarray(e, dtype=np.float64) / 1e3, "us"), form
    if form in ("ms_int", "us_uint", "s_int"):
        a, b = _int_times(s, form), _int_times(e, form)
        if a is not None and b is not None:
            return nap.IntervalSet(a[0], b[0], time_units=a[1]), form
    if form == "intersect" and n:
        return nap.IntervalSet(S[0] - 1.0, E[-1] + 1.0).intersect(nap.IntervalSet(S, E)), form
    if form == "union" and n >= 2:
        return nap.IntervalSet(S[:1], E[:1]).union(nap.IntervalSet(S[1:], E[1:])), form
    if form == "saveload" and n:
        return _saveload(nap, nap.IntervalSet(S, E), "ep"), form
    return nap.IntervalSet(S, E), "nd"


def form_mismatch(res, what, form, inp, got, want):
    """an input object built in another form (or after a history) is not the object the case describes: the property's operation would be
    judged on another input; reported on its own key"""
    res.violations.append({"key": {"op": "input_form", "object": what}, "what": "the %s built in form %r does not hold the instants / values / support of the case" % (what, form),
                           "input": inp, "impl": got, "expected": want})


def checked_iset(res, nap, ep, form, inp, what="IntervalSet"):
    obj, used = iset_form(nap, ep, form)
    res.count("form:iset=" + used)
    if ep_ticks(obj) != [(int(s), int(e)) for s, e in ep]:
        form_mismatch(res, what, used, inp, ep_ticks(obj), ep)
        obj = iset_obj(nap, ep)
    return obj


def draw_group_form(frng):
    return {"member": frng.choice(["ts", "ts", "tsd", "mixed"]), "t": frng.choice(T_FORMS), "key": frng.choice(["int", "int", "str", "float", "npint"]),
            "container": frng.choice(["dict", "dict", "meta", "bypass", "default_support", "restricted", "sliced", "list", "saveload", "arrays"]),
            "order": frng.choice(["given", "sorted", "reversed"])}


def build_group(res, nap, units, keys, gf, wide, inp):
    """TsGroup holding unit u under the key keys[u] (int), built as gf says; `wide` = (start, end) ticks of its time support"""
    sup = iset_obj(nap, [wide])
    n = len(units)
    cont = gf["container"]
    if n == 0:
        cont = "empty"
    elif cont == "list" and sorted(keys) != list(range(n)):
        cont = "dict"
    elif cont == "default_support" and not (any(len(sp) for sp in units) and all(len(set(sp)) != 1 for sp in units)):
        cont = "dict"       # a member with one distinct timestamp has an empty default support (known quirk)
    kf = {"int": int, "str": str, "float": float, "npint": np.int64}[gf["key"]]
    order = {"given": list(range(n)), "sorted": sorted(range(n), key=lambda u: keys[u]), "reversed": sorted(range(n), key=lambda u: -keys[u])}[gf["order"]]
    tused = set()

    def member(u, msup=None):
        t, tu, used = t_arg(nap, units[u], gf["t"])
        tused.add(used)
        if gf["member"] == "tsd" or (gf["member"] == "mixed" and u % 2 == 0):
            return nap.Tsd(t, np.arange(len(units[u]), dtype=np.float64), time_units=tu, time_support=msup)
        return nap.Ts(t, time_units=tu, time_support=msup)
    if cont == "empty":
        g = nap.TsGroup({}, time_support=sup)
    elif cont == "meta":
        g = nap.TsGroup({kf(keys[u]): member(u) for u in order}, time_support=sup, metadata={"lab": ["u%d" % i for i in range(n)], "depth": [float(i) for i in range(n)]})
    elif cont == "bypass":
        g = nap.TsGroup({kf(keys[u]): member(u, sup) for u in order}, time_support=sup, bypass_check=True)
    elif cont == "default_support":
        g = nap.TsGroup({kf(keys[u]): member(u) for u in order})
    elif cont == "restricted":
        g = nap.TsGroup({kf(keys[u]): member(u) for u in order}, time_support=iset_obj(nap, [(wide[0] - W, wide[1] + W)])).restrict(sup)
    elif cont == "sliced":
        d = {kf(keys[u]): member(u) for u in order}
        d[kf(999)] = nap.Ts(G.arr([wide[0], wide[1]]))
        g = nap.TsGroup(d, time_support=sup)[[int(keys[u]) for u in order]]
    elif cont == "list":
        g = nap.TsGroup([member(keys.index(i)) for i in range(n)], time_support=sup)
    elif cont == "saveload":
        g = _saveload(nap, nap.TsGroup({kf(keys[u]): member(u) for u in order}, time_support=sup), "grp")
    elif cont == "arrays":
        tu = gf["t"] if gf["t"] in ("ms", "us") else "s"
        f = {"s": 1e9, "ms": 1e6, "us": 1e3}[tu]
        g = nap.TsGroup({kf(keys[u]): (G.arr(units[u]) if tu == "s" else np.asarray(units[u], dtype=np.float64) / f) for u in order}, time_support=sup, time_units=tu)
        tused.add("array_members_" + tu)
    else:
        g = nap.TsGroup({kf(keys[u]): member(u) for u in order}, time_support=sup)
    res.count("form:group_container=" + cont)
    res.count("form:group_members=" + gf["member"])
    res.count("form:group_keys=" + gf["key"])
    for used in tused:
        res.count("form:group_t=" + used)
    got = {int(k): [C.to_ns(x) for x in g[k].t] for k in g.keys()}
    want = {int(keys[u]): [int(t) for t in units[u] if wide[0] <= t <= wide[1]] for u in range(n)}
    if got != want or list(g.keys()) != sorted(want):
        form_mismatch(res, "TsGroup", cont, dict(inp, group_form=gf), got, want)
        g = nap.TsGroup({int(keys[u]): nap.Ts(G.arr(units[u])) for u in range(n)}, time_support=sup)
    return g


def draw_series_form(frng):
    return {"t": frng.choice(T_FORMS), "d": frng.choice(D_FORMS), "style": frng.choice(["kw", "kw", "pos", "pandas"]),
            "hist": frng.choice(["none"] * 5 + ["restrict", "arith", "npfunc", "getslice", "saveload"]), "sup": frng.choice(EP_FORMS)}


def build_series(res, nap, cls, ticks, cols, sf, sup_ticks, labels, inp, what):
    """cls 'tsd' (cols = [values]) or 'frame' (cols = one list of values per column, labels None = default): the series holding these instants and
    values on the support sup_ticks, built in the form / after the history sf says"""
    import pandas as pd
    sup = checked_iset(res, nap, sup_ticks, sf["sup"], inp, what + " time support")
    hist = sf["hist"]
    sup0 = iset_obj(nap, [(sup_ticks[0][0] - W, sup_ticks[-1][1] + W)]) if hist == "restrict" else sup
    rows = list(cols[0]) if cls == "tsd" else [list(r) for r in zip(*cols)]
    if cls == "frame" and not rows:
        d, dused = np.zeros((0, len(cols))), "float64"        # an empty Python list has no second dimension: the empty frame keeps its ndarray
    else:
        d, dused = d_arg(rows, sf["d"])
    t, tu, tused = t_arg(nap, ticks, sf["t"])
    style = sf["style"]
    if cls == "tsd":
        if style == "pandas":
            obj = nap.Tsd(pd.Series(index=G.arr(ticks), data=d, dtype=None if len(ticks) else np.float64), time_support=sup0)
            tused = "pandas_index"
        elif style == "pos":
            obj = nap.Tsd(t, d, tu, sup0)
        else:
            obj = nap.Tsd(t=t, d=d, time_units=tu, time_support=sup0)
    else:
        if style == "pandas":
            obj = nap.TsdFrame(pd.DataFrame(index=G.arr(ticks), data=d, columns=labels), time_support=sup0)
            tused = "pandas_index"
        elif style == "pos":
            obj = nap.TsdFrame(t, d, tu, sup0, labels)
        else:
            obj = nap.TsdFrame(t=t, d=d, time_units=tu, time_support=sup0, columns=labels)
    flat = [v for col in cols for v in col]
    if hist == "restrict":
        obj = obj.restrict(sup)
    elif hist == "arith":
        obj = obj * 1
    elif hist == "npfunc" and dused != "bool" and all(v != v or v >= 0 for v in flat):
        obj = np.abs(obj)
    elif hist == "getslice":
        obj = obj[0:len(obj)]
    elif hist == "saveload":
        obj = _saveload(nap, obj, "ser")
    elif hist != "none":
        hist = "none"
    for k, v in (("t", tused), ("d", dused), ("style", style), ("hist", hist)):
        res.count("form:%s_%s=%s" % (what, k, v))
    if cls == "frame":
        res.count("form:%s_labels=%s" % (what, "default" if labels is None else ",".join(map(str, labels))))
    want = np.array(cols, dtype=np.float64).T.reshape(len(ticks), len(cols))
    try:
        tt = [C.to_ns(x) for x in obj.t]
        vals = np.asarray(obj.values, dtype=np.float64).reshape(len(tt), len(cols))
        same = (tt == [int(x) for x in ticks] and vals.shape == want.shape and np.array_equal(vals, want, equal_nan=True)
                and ep_ticks(obj.time_support) == ([(int(a), int(b)) for a, b in sup_ticks] if len(ticks) else [])      # an empty series has an empty support (known quirk)
                and (cls == "tsd" or list(obj.columns) == (list(range(len(cols))) if labels is None else list(labels))))
    except Exception:
        same = False
    if not same:
        form_mismatch(res, what, sf, dict(inp, series_form=sf), None, None)
        obj = (nap.Tsd(G.arr(ticks), want[:, 0], time_support=iset_obj(nap, sup_ticks)) if cls == "tsd"
               else nap.TsdFrame(G.arr(ticks), want, time_support=iset_obj(nap, sup_ticks), columns=labels))
    return obj


def minmax_arg(vals, form):
    if form == "list":
        return list(vals)
    if form == "ndarray_int":
        return np.array(vals)
    if form == "ndarray_float":
        return np.array(vals, dtype=np.float64)
    if form == "ndarray_f32":
        return np.array(vals, dtype=np.float32)
    if form == "npscalars":
        return tuple(np.float32(v) if i % 2 == 0 else np.int64(v) for i, v in enumerate(vals))
    if form == "floats":
        return tuple(float(v) for v in vals)
    return tuple(vals)


MINMAX_FORMS = ("tuple", "list", "ndarray_int", "ndarray_float", "ndarray_f32", "npscalars", "floats")


def plan_call(crng, names, given, none_default=()):
    """how the call is written: all keywords (shuffled) / as many positional as possible / a random positional prefix; a parameter whose
    documented default is None and that the case leaves out may be passed as an explicit None"""
    style = crng.choice(["kw", "pos", "mixed", "mixed"])
    explicit_none = [p for p in none_default if p not in given and crng.random() < 0.3]
    vals = dict(given)
    vals.update({p: None for p in explicit_none})
    lead = []
    for p in names:
        if p not in vals:
            break
        lead.append(p)
    npos = {"kw": 0, "pos": len(lead), "mixed": crng.randint(0, len(lead))}[style]
    rest = [p for p in names if p in vals and p not in lead[:npos]]
    crng.shuffle(rest)
    return [vals[p] for p in lead[:npos]], {p: vals[p] for p in rest}, {"style": style, "positional": npos, "keywords": rest, "explicit_none": explicit_none}


def invoke(res, op, f, names, given, none_default, crng, inp, refusable=False, flags=None):
    """call f in the planned form.  Returns the result, or None when nothing can be judged (a violation has been recorded, or the call used a
    form the documented signature does not accept - `refusable` - and was refused with a clean TypeError / ValueError).
    An explicit None for a parameter whose documented default is None must behave like leaving it out: a raise is reported on its own key
    and the call is repeated without it, so that the rest of the case is still judged."""
    args, kwargs, info = plan_call(crng, names, given, none_default)
    res.count("form:call=%s" % info["style"])
    for p in info["explicit_none"]:
        res.count("form:explicit_None=%s" % p)
    inp["call"] = info
    try:
        return f(*args, **kwargs)
    except Exception as ex:
        err = ex
    if info["explicit_none"]:
        # blame the explicit None only when the same call WITHOUT it answers
        try:
            out = f(**given)
        except Exception as ex:
            err, out = ex, None
        else:
            key = {"op": op, "part": "explicit_none", "exception": type(err).__name__}
            key.update({p + "_none": p in info["explicit_none"] for p in none_default})
            res.violations.append({"key": key, "what": "%s raises %s (%s) when %s is passed as an explicit None, the documented default: it must behave as when the argument is left out"
                                   % (op, type(err).__name__, str(err)[:60], " and ".join(info["explicit_none"])), "input": dict(inp), "impl": type(err).__name__, "expected": "same as without the argument"})
            return out
    if refusable and isinstance(err, (TypeError, ValueError)):
        res.count("form:clean_refusal_of_undocumented_form")
        return None
    res.violations.append({"key": dict({"op": op, "part": "exception", "exception": type(err).__name__}, **(flags or {})), "what": "%s raised %s: %s" % (op, type(err).__name__, str(err)[:100]),
                           "input": dict(inp), "impl": type(err).__name__})
    return None


def same_output(a, b):
    """two results of the same call on the same live objects (nested tuples / dicts / frames / arrays) are identical"""
    if isinstance(a, (tuple, list)):
        return isinstance(b, (tuple, list)) and len(a) == len(b) and all(same_output(x, y) for x, y in zip(a, b))
    if isinstance(a, dict):
        return isinstance(b, dict) and list(a.keys()) == list(b.keys()) and all(same_output(a[k], b[k]) for k in a)
    if hasattr(a, "values") and hasattr(a, "index"):
        return (hasattr(b, "values") and list(a.index) == list(b.index) and list(getattr(a, "columns", [])) == list(getattr(b, "columns", []))
                and np.array_equal(np.asarray(a.values, dtype=float), np.asarray(b.values, dtype=float), equal_nan=True))
    return np.array_equal(np.asarray(a, dtype=float), np.asarray(b, dtype=float), equal_nan=True)


def second_call(res, op, f, given, first, inp):
    """the same live objects used twice: the second answer must be the first"""
    res.count("form:same_objects_used_twice")
    try:
        again = f(**given)
        ok = same_output(first, again)
    except Exception as ex:
        ok, again = False, type(ex).__name__
    if not ok:
        res.violations.append({"key": {"op": op, "part": "second_call_differs"}, "what": "calling %s a second time with the same live objects gives another answer" % op, "input": dict(inp)})


# ----------------------------------------------------------------------------------------------------------------
def part_hist(res, tier):
    """oracle laws: np.histogram / np.histogram2d / np.digitize against the executable hist / bin_of / dig / hist2d
    on a complete small space (values on half-integers so that edges are hit exactly)"""
    cases = []
    for lo2 in (0, 1, 2):
        for w2 in range(1, 9):
            for nb in (1, 2, 3, 4):
                hi2 = lo2 + w2
                if not dyadic(lo2, hi2, nb * 2):
                    continue
                cases.append((lo2, hi2, nb))
    lines = []
    meta = []
    for lo2, hi2, nb in cases:
        xs = list(range(lo2 - 2, hi2 + 3))
        lines.append("edges\t%d %d %d" % (lo2, hi2, nb))
        meta.append((lo2, hi2, nb, xs))
    out = C.run_model(lines, driver="driver_c17")
    lines2 = []
    for (lo2, hi2, nb, xs), o in zip(meta, out):
        e = o.split("|")[0]
        sx = C.fmt_ints([x * nb for x in xs])
        lines2 += ["hist\t%s\t%s" % (e, sx), "bin_of\t%s\t%s" % (e, sx), "dig\t%s\t%s" % (e, sx),
                   "hist2d\t%s\t%s\t%s\t%s" % (e, e, sx, C.fmt_ints([x * nb for x in reversed(xs)]))]
    out2 = C.run_model(lines2, driver="driver_c17")
    for n, (lo2, hi2, nb, xs) in enumerate(meta):
        res.case(("hist", lo2, hi2, nb), nontrivial=True)
        res.count("part=hist_law")
        bins = np.linspace(lo2 / 2, hi2 / 2, nb + 1)
        x = np.array(xs, dtype=float) / 2
        inp = {"lo": lo2 / 2, "hi": hi2 / 2, "nb": nb, "xs": [v / 2 for v in xs]}
        h = [int(v) for v in np.histogram(x, bins)[0]]
        mh = [int(v) for v in out2[4 * n].split()]
        per = [None if obin(Fr(v, 2), Fr(lo2, 2), Fr(hi2, 2), nb) is None else obin(Fr(v, 2), Fr(lo2, 2), Fr(hi2, 2), nb) for v in xs]
        oh = [sum(1 for p in per if p == k) for k in range(nb)]
        if h != oh:
            res.violations.append({"key": {"op": "np.histogram"}, "what": "np.histogram differs from half-open bins / last bin closed", "input": inp, "impl": h, "expected": oh})
        if mh != h:
            res.disagreements.append({"op": "hist", "input": inp, "impl": h, "model": mh})
        mb = [None if v == "nan" else int(v) for v in out2[4 * n + 1].split()]
        if mb != per:
            res.disagreements.append({"op": "bin_of vs statement", "input": inp, "model": mb, "expected": per})
        d = [int(v) - 1 for v in np.digitize(x, bins)]
        d = [v if 0 <= v < nb else None for v in d]
        md = [None if v == "nan" else int(v) for v in out2[4 * n + 2].split()]
        if md != d:
            res.disagreements.append({"op": "dig", "input": inp, "impl": d, "model": md})
        h2 = np.histogram2d(x, x[::-1], [bins, bins])[0].astype(int).tolist()
        mh2 = [[int(v) for v in r.split()] for r in out2[4 * n + 3].split("|")]
        if mh2 != h2:
            res.disagreements.append({"op": "hist2d", "input": inp, "impl": h2, "model": mh2})


# ----------------------------------------------------------------------------------------------------------------
def part_discrete(res, tier, rng, nap):
    grid = [i * U for i in range(12)]
    n_cases = 250 if tier == "quick" else 3000
    cases = []
    for _ in range(n_cases):
        eps = {}
        for name in rng.sample(["b", "a", "c"], rng.randint(1, 3)):
            eps[name] = rand_iset(rng, grid, 3)
        units = rand_units(rng, grid, [iv for v in eps.values() for iv in v])
        cases.append((eps, units))
    run_discrete_cases(res, cases, nap)


def part_discrete_forms(res, tier, frng, nap):
    """argument forms of compute_discrete_tuning_curves: epoch-set keys (strings incl. multi-digit, unsorted ints, floats), every IntervalSet form,
    every group form, 0 / 1 / 3 units, an empty dictionary, positional / keyword call, time frames"""
    grid = [i * U for i in range(12)]
    n_cases = 200 if tier == "quick" else 1500
    cases = []
    namesets = (["b", "a", "c"], ["10", "9", "100"], [3, 1, 2], [10, 9, 100], [2.5, 0.5, 1.0], ["B", "a", "C"])
    for _ in range(n_cases):
        names = frng.choice(namesets)
        eps = {}
        for name in frng.sample(names, frng.randint(1, 3)):
            eps[name] = rand_iset(frng, grid, frng.choice([3, 3, 5]))
        if frng.random() < 0.03:
            eps = {}
        units = rand_units(frng, grid, [iv for v in eps.values() for iv in v])
        r = frng.random()
        units = [] if r < 0.05 else units[:1] if r < 0.15 else units
        mul, off = draw_frame(frng)
        keys = list(frng.choice(KEYSETS))[:len(units)]
        fm = {"frame": frame_name(mul, off), "ep_forms": {str(k): frng.choice(EP_FORMS) for k in eps}, "group": draw_group_form(frng), "call_seed": frng.randrange(2**30),
              "twice": frng.random() < 0.15}
        cases.append(({k: shift(v, mul, off) for k, v in eps.items()}, shift(units, mul, off), keys, fm, (shift(-U, mul, off), shift(12 * U, mul, off))))
    run_discrete_cases(res, cases, nap)


def run_discrete_cases(res, cases, nap):
    lines = []
    for case in cases:
        eps, units = case[0], case[1]
        for name in eps:
            for sp in units:
                lines.append("discrete\t%s\t%s" % (C.fmt_ints(sp), C.fmt_iset(eps[name])))
    out = C.run_model(lines, driver="driver_c17") if lines else []
    pos = 0
    wide = nap.IntervalSet(-1.0, 1.0)
    for n, case in enumerate(cases):
        eps, units = case[0], case[1]
        if len(case) == 2:
            keys = [7, 2, 5]
            g = nap.TsGroup({k: nap.Ts(G.arr(sp)) for k, sp in zip(keys, units)}, time_support=wide)
            d = {name: iset_obj(nap, ep) for name, ep in eps.items()}
            tc = nap.compute_discrete_tuning_curves(g, d)
            inp = {"dict_ep": eps, "units": dict(zip(keys, units))}
            res.count("part=discrete")
        else:
            keys, fm, wd = case[2], case[3], case[4]
            inp = {"dict_ep": {str(k): v for k, v in eps.items()}, "units": dict(zip(keys, units)), "form": fm}
            g = build_group(res, nap, units, keys, fm["group"], wd, inp)
            d = {name: checked_iset(res, nap, ep, fm["ep_forms"][str(name)], inp) for name, ep in eps.items()}
            res.count("part=discrete_forms")
            res.count("form:frame=" + fm["frame"])
            res.count("form:discrete_epoch_keys=%s" % ("none" if not eps else type(next(iter(eps))).__name__))
            res.count("form:n_units=%d" % len(units))
            given = {"group": g, "dict_ep": d}
            tc = invoke(res, "compute_discrete_tuning_curves", nap.compute_discrete_tuning_curves, ["group", "dict_ep"], given, (), random.Random(fm["call_seed"]), inp)
            if tc is None:
                pos += len(eps) * len(units)
                res.case(("discrete_forms", n), nontrivial=True)
                continue
            if fm["twice"]:
                second_call(res, "compute_discrete_tuning_curves", nap.compute_discrete_tuning_curves, given, tc, inp)
        res.case(("discrete", tuple(sorted((str(k), tuple(v)) for k, v in eps.items())), tuple(map(tuple, units))),
                 nontrivial=any(0 < len(restrict_ts(sp, ep)) < len(sp) for sp in units for ep in eps.values()))
        if list(tc.index) != sorted(eps) or list(tc.columns) != sorted(keys):
            res.violations.append({"key": {"op": "compute_discrete_tuning_curves", "part": "labels"}, "what": "rows are not the sorted epoch keys / columns not the unit keys",
                                   "input": inp, "impl": [list(tc.index), list(tc.columns)]})
            if len(case) > 2:
                pos += len(eps) * len(units)
                continue
        for name in eps:
            tot = sum(e - s for s, e in eps[name])
            for k, sp in zip(keys, units):
                m = out[pos].split("|")
                pos += 1
                want = sum(1 for t in sp if G.mem(t, eps[name]))
                if int(m[0]) != want or Fr(m[1]) != Fr(want * 10**9, tot):
                    res.disagreements.append({"op": "discrete model vs statement", "input": inp, "model": m, "expected": [want, str(Fr(want * 10**9, tot))]})
                got = float(tc.loc[name, k]) * tot / 1e9
                if not abs(got - want) <= 1e-6:
                    res.violations.append({"key": {"op": "compute_discrete_tuning_curves"}, "what": "rate x total duration of the epoch set is not the number of spikes inside it",
                                           "input": dict(inp, epoch=name, unit=k), "impl": float(tc.loc[name, k]), "expected": want / (tot / 1e9)})


# ----------------------------------------------------------------------------------------------------------------
def tc_cases(res, tier, rng, n_cases, two_d):
    grid = [i * U for i in range(12)]
    fpos = [i * U for i in range(0, 12, 2)]
    out = []
    tries = 0
    while len(out) < n_cases and tries < 20 * n_cases:
        tries += 1
        ft, fx = rand_feature(rng, fpos, 4, [0, 1, 2, 3])
        fy = [rng.choice([0, 1, 2]) for _ in ft]
        fsup = rng.choice([[(0, 11 * U)], [(0, 11 * U)], [(0, 4 * U), (5 * U, 11 * U)], [(U, 9 * U)]])
        keep = [i for i, t in enumerate(ft) if G.mem(t, fsup)]
        ft, fx, fy = [ft[i] for i in keep], [fx[i] for i in keep], [fy[i] for i in keep]
        if len(set(ft)) < 2:
            continue
        ep = None if rng.random() < 0.3 else rand_iset(rng, grid, 3)
        epe = ep if ep is not None else fsup
        units = rand_units(rng, grid, epe)
        out.append({"ft": ft, "fx": fx, "fy": fy, "fsup": fsup, "ep": ep, "epe": epe, "units": units})
    return out


def inside_vals(c, col):
    return [v for t, v in zip(c["ft"], c[col]) if G.mem(t, c["epe"])]


def mfx(vals, hi):
    """feature values as the integer model sees them: a NaN / infinite value falls in no bin, like any value beyond the range"""
    return [v if v == v and abs(v) != INF else hi + 7 for v in vals]


def tc_form_cases(frng, n_cases, kind):
    """kind '1d' | '2d' | 'cont': base cases as tc_cases, then degenerate receivers / arguments (one feature sample, empty ep, NaN / +inf / -inf feature
    values, all-equal / all-zero feature, up to 5 intervals, 0 / 1 / 3 units), a time frame and an argument form per case"""
    grid = [i * U for i in range(12)]
    out = []
    for c in tc_cases(None, None, frng, n_cases, kind != "1d"):
        deg, need_explicit = "none", False
        r = frng.random()
        k = len(c["ft"])
        if r < 0.07:
            i = frng.randrange(k)
            c["ft"], c["fx"], c["fy"] = [c["ft"][i]], [c["fx"][i]], [c["fy"][i]]
            deg, need_explicit = "one_feature_sample", True
        elif r < 0.12:
            c["ep"], c["epe"] = [], []
            deg, need_explicit = "empty_ep", True
        elif r < 0.24:
            for i in frng.sample(range(k), frng.choice([1, 1, 2])):
                col = frng.choice(["fx", "fx", "fy"]) if kind != "1d" else "fx"
                c[col][i] = frng.choice([float("nan"), INF, -INF])
            deg, need_explicit = "nan_inf_feature_value", True
        elif r < 0.29:
            c["fx"], c["fy"] = [c["fx"][0]] * k, [c["fy"][0]] * k
            deg, need_explicit = "all_equal_feature", True
        elif r < 0.32:
            c["fx"], c["fy"] = [0] * k, [0] * k
            deg, need_explicit = "all_zero_feature", True
        elif r < 0.40:
            c["ep"] = rand_iset(frng, grid, 5)
            c["epe"] = c["ep"]
            deg = "up_to_5_intervals"
        c["deg"] = deg
        if kind != "cont":
            r = frng.random()
            c["units"] = [] if r < 0.06 else c["units"][:1] if r < 0.16 else c["units"]
            c["keys"] = list(frng.choice(KEYSETS))[:len(c["units"])]
        if kind == "1d":
            b = pick_explicit(frng) if need_explicit else pick_bins(frng, c["fx"])
            if b is None:
                continue
            c["lo"], c["hi"], c["nb"], c["explicit"] = b
        else:
            two = True if kind == "2d" else frng.random() < 0.4
            bx = pick_explicit(frng) if need_explicit else pick_bins(frng, inside_vals(c, "fx"))
            by = (0, 1, 1, True) if not two else pick_explicit(frng) if need_explicit else pick_bins(frng, inside_vals(c, "fy"))
            if bx is None or by is None or (two and bx[3] != by[3]):
                continue
            c["bx"], c["by"], c["two"] = bx, by, two
        mul, off = draw_frame(frng)
        fm = {"frame": frame_name(mul, off), "feature": draw_series_form(frng), "ep_form": frng.choice(EP_FORMS), "minmax_form": frng.choice(MINMAX_FORMS),
              "nb_form": frng.choice(["int"] * 6 + ["np.int64"]), "call_seed": frng.randrange(2**30), "twice": frng.random() < 0.15}
        if kind == "1d" or (kind == "cont" and not c["two"]):
            fm["feat_cls"] = frng.choice(["tsd", "tsd", "frame", "frame_named"])
        else:
            fm["feat_labels"] = frng.choice([None, None, ["x", "y"], ["y", "x"], [1, 0], [5, 2]])
            fm["nb_tuple"] = frng.random() < 0.5
        if kind == "cont":
            cont_signal(frng, c, fm, grid)
        else:
            fm["group"] = draw_group_form(frng)
        for f in ("ft", "fsup", "ep", "epe", "units", "st"):
            if f in c:
                c[f] = shift(c[f], mul, off)
        c["wide"] = (shift(-U, mul, off), shift(12 * U, mul, off))
        c["form"] = fm
        out.append(c)
    return out


def build_tc_inputs(res, nap, c, fm, keys, inp, cols, what):
    """feature(s), group and the arguments common to the four tuning-curve functions, in the forms fm says"""
    res.count("form:frame=" + fm["frame"])
    res.count("form:degenerate=" + c["deg"])
    if len(cols) == 1:
        cls = "tsd" if fm["feat_cls"] == "tsd" else "frame"
        labels = ["hd"] if fm["feat_cls"] == "frame_named" else None
        res.count("form:feature_class=" + fm["feat_cls"])
    else:
        cls, labels = "frame", fm["feat_labels"]
    feat = build_series(res, nap, cls, c["ft"], cols, fm["feature"], c["fsup"], labels, inp, what)
    given = {"feature" if len(cols) == 1 else "features": feat}
    g = None
    if "group" in fm:
        g = build_group(res, nap, c["units"], keys, fm["group"], c["wide"], inp)
        res.count("form:n_units=%d" % len(keys))
        given["group"] = g
    if len(cols) == 1:
        nb = c["nb"] if "nb" in c else c["bx"][2]
        given["nb_bins"] = nb if fm["nb_form"] == "int" else np.int64(nb)
    else:
        nx, ny = c["bx"][2], c["by"][2]
        given["nb_bins"] = (nx if fm["nb_form"] == "int" else np.int64(nx)) if nx == ny and not fm["nb_tuple"] else (nx, ny) if fm["nb_form"] == "int" else (np.int64(nx), np.int64(ny))
    res.count("form:nb_bins=%s" % (fm["nb_form"] if not isinstance(given["nb_bins"], tuple) else "tuple_of_" + fm["nb_form"]))
    if c["ep"] is not None:
        given["ep"] = checked_iset(res, nap, c["ep"], fm["ep_form"], inp, "ep")
        res.count("form:ep=%s" % ("empty" if not c["ep"] else "%d_intervals" % len(c["ep"])))
    else:
        res.count("form:ep=None")
    res.count("form:minmax=" + fm["minmax_form"])
    return feat, g, given


def part_tc1d_forms(res, tier, frng, nap):
    cases = tc_form_cases(frng, 400 if tier == "quick" else 3200, "1d")
    run_tc1d_cases(res, cases, frng, nap, "tc1d_forms")


def part_tc1d(res, tier, rng, nap):
    cases = []
    for c in tc_cases(res, tier, rng, 1300 if tier == "quick" else 20000, False):
        b = pick_bins(rng, c["fx"])           # 1-d: inferred minmax from the whole feature
        if b is None:
            continue
        c["lo"], c["hi"], c["nb"], c["explicit"] = b
        cases.append(c)
    run_tc1d_cases(res, cases, rng, nap, "tc1d")


def part_tc1d_complete(res, tier, rng, nap):
    """complete small space: ALL features with 2-3 samples on 4 even lattice points x values {0,1,2}, ALL canonical epoch sets
    (1-2 intervals) on a 6-point lattice covering samples / midpoints, a unit firing at EVERY lattice point (so every alignment of one
    spike with samples, midpoints and epoch ends occurs) + a silent unit; 2 bins over the explicit range [0,2]"""
    pos = [0, 2 * U, 4 * U, 6 * U]
    pts = [0, U, 2 * U, 3 * U, 5 * U, 6 * U]
    grid = [i * U for i in range(-1, 8)]
    cases = []
    for k in (2, 3):
        for ft in itertools.combinations(pos, k):
            for fv in itertools.product([0, 1, 2], repeat=k):
                for ep in G.canonical_isets(pts, 2):
                    if not ep:
                        continue
                    cases.append({"ft": list(ft), "fx": list(fv), "fy": [0] * k, "fsup": [(-U, 7 * U)], "ep": ep, "epe": ep,
                                  "units": [list(grid), [], [grid[1], grid[4], grid[4]]], "lo": 0, "hi": 2, "nb": 2, "explicit": True})
    res.extra["tc1d_complete_space_size"] = len(cases)
    if tier == "quick":
        cases = rng.sample(cases, 500)
    res.extra["tc1d_complete_space_run"] = len(cases)
    run_tc1d_cases(res, cases, rng, nap, "tc1d_complete")


def run_tc1d_cases(res, cases, rng, nap, tag):
    lines = []
    for c in cases:
        for sp in c["units"]:
            lines.append("tc1d\t%d %d %d\t%s\t%s\t%s\t%s" % (c["lo"], c["hi"], c["nb"], C.fmt_ints(sp), C.fmt_ints(c["ft"]), C.fmt_ints(mfx(c["fx"], c["hi"])), C.fmt_iset(c["epe"])))
    out = C.run_model(lines, driver="driver_c17") if lines else []
    pos = 0
    wide = nap.IntervalSet(-1.0, 1.0)
    for n, c in enumerate(cases):
        lo, hi, nb, ep = c["lo"], c["hi"], c["nb"], c["epe"]
        fm = c.get("form")
        keys = c.get("keys", [7, 2, 5])
        inp = {k: c[k] for k in ("ft", "fx", "fsup", "ep", "units")}
        inp.update(nb_bins=nb, minmax=(lo, hi) if c["explicit"] else None)
        if fm is None:
            feat = nap.Tsd(G.arr(c["ft"]), np.array(c["fx"], dtype=float), time_support=iset_obj(nap, c["fsup"]))
            if rng.random() < 0.3:
                feat = nap.TsdFrame(G.arr(c["ft"]), np.array(c["fx"], dtype=float)[:, None], time_support=iset_obj(nap, c["fsup"]))
            g = nap.TsGroup({k: nap.Ts(G.arr(sp)) for k, sp in zip(keys, c["units"])}, time_support=wide)
            kw = {}
            if c["ep"] is not None:
                kw["ep"] = iset_obj(nap, c["ep"])
            if c["explicit"]:
                kw["minmax"] = (lo, hi)
            tc = nap.compute_1d_tuning_curves(g, feat, nb, **kw)
        else:
            inp.update(form=fm, keys=keys, degenerate=c["deg"])
            feat, g, given = build_tc_inputs(res, nap, c, fm, keys, inp, [c["fx"]], "feature")
            if c["explicit"]:
                given["minmax"] = minmax_arg((lo, hi), fm["minmax_form"])
            tc = invoke(res, "compute_1d_tuning_curves", nap.compute_1d_tuning_curves, ["group", "feature", "nb_bins", "ep", "minmax"], given, ("ep", "minmax"),
                        random.Random(fm["call_seed"]), inp, refusable=fm["nb_form"] != "int")
            if tc is None:
                pos += len(keys)
                res.case((tag, n), nontrivial=True)
                continue
            if fm["twice"]:
                second_call(res, "compute_1d_tuning_curves", nap.compute_1d_tuning_curves, given, tc, inp)
        res.count("part=" + tag)
        res.count("tc1d_" + ("explicit" if c["explicit"] else "inferred") + "_minmax")
        res.count("tc1d_ep=" + ("None" if c["ep"] is None else "%d_intervals" % len(c["ep"])))
        vin = inside_vals(c, "fx")
        if not c["explicit"] and vin and (min(vin), max(vin)) != (lo, hi):
            res.count("tc1d_inferred_minmax_of_whole_feature_wider_than_feature_in_ep")
        occ = [sum(1 for v in vin if obin(v, lo, hi, nb) == k) for k in range(nb)]
        on_edge = any(lo < v < hi and (Fr(v - lo) * nb / (hi - lo)).denominator == 1 for v in vin)
        if on_edge:
            res.count("tc1d_value_on_interior_edge")
        if list(tc.index) != centres_of(lo, hi, nb) or list(tc.columns) != sorted(keys):
            res.violations.append({"key": {"op": "compute_1d_tuning_curves", "part": "labels"}, "what": "index is not the bin centres / columns not the unit keys", "input": inp,
                                   "impl": [list(tc.index), list(tc.columns)], "expected": [centres_of(lo, hi, nb), sorted(keys)]})
            pos += len(keys)
            continue
        rate, rate_ep = float(feat.rate), float(feat.restrict(iset_obj(nap, ep)).rate)     # the statement's rate: the feature's own
        if rate != rate_ep:
            res.count("tc1d_rate_differs_from_rate_restricted_to_ep")
        for k, sp in zip(keys, c["units"]):
            m = out[pos].split("|")
            pos += 1
            mc, mo = [int(v) for v in m[0].split()], [int(v) for v in m[1].split()]
            spin = restrict_ts(sp, ep)
            chs = [choices(x, c["ft"], c["fx"], ep) for x in spin]
            ties = any(len(ch) > 1 for ch in chs)
            res.case((tag, n, k), nontrivial=0 < len(spin) and any(occ))
            if ties:
                res.count("tc1d_unit_with_equidistant_spike")
            if not spin:
                res.count("tc1d_silent_or_outside_unit")
            col = tc[k].values.astype(float)
            ach = achievable(chs, lambda v: None if v is None else obin(v, lo, hi, nb))

            def judge(r):
                rec = recover_counts(col, occ, r)
                return rec, (not any(isinstance(x, str) for x in rec)
                             and tuple(sorted((kk, x) for kk, x in enumerate(rec) if isinstance(x, int) and x > 0)) in ach)
            got, ok = judge(rate)
            got_ep, ok_ep = judge(rate_ep)
            cmp_counts = [g for g, o in ((got, ok), (got_ep, ok_ep)) if o]      # counts compared with the model's: recovered with a rate that explains the output
            if not ok:
                if ok_ep and rate_ep != rate:
                    res.violations.append({"key": {"op": "compute_1d_tuning_curves", "part": "rate", "rate_of_feature_restricted_to_ep": True},
                                           "what": "tc x occupancy / feature.rate is not the number of attributed spikes; it is with the rate of the feature restricted to ep (%r instead of %r)" % (rate_ep, rate),
                                           "input": dict(inp, unit=k), "impl": {"tc": col.tolist(), "counts": got_ep, "occupancy": occ}, "expected": sorted(ach)[:4]})
                else:
                    res.violations.append({"key": {"op": "compute_1d_tuning_curves", "part": "count", "explicit_minmax": c["explicit"], "unvisited_bin_not_nan": "not-nan" in got},
                                           "what": "tc x occupancy / rate is not the number of spikes whose nearest-in-time feature sample (same epoch) falls in the bin, or an unvisited bin is not NaN",
                                           "input": dict(inp, unit=k), "impl": {"tc": col.tolist(), "counts": got, "occupancy": occ, "rate": rate}, "expected": sorted(ach)[:4]})
            else:
                # conservation: spikes in = sum of recovered counts
                nin = sum(1 for ch in chs if any(v is not None and obin(v, lo, hi, nb) is not None for v in ch))
                tot = sum(x for x in got if isinstance(x, int))
                if not ties and tot != nin:
                    res.violations.append({"key": {"op": "compute_1d_tuning_curves", "part": "conservation"}, "what": "sum of tc x occupancy / rate is not the number of attributed spikes in range",
                                           "input": dict(inp, unit=k), "impl": tot, "expected": nin})
            if mo != occ:
                res.disagreements.append({"op": "tc1d occupancy", "input": inp, "model": mo, "expected": occ})
            mgot = [None if o == 0 else x for x, o in zip(mc, mo)]
            if cmp_counts and mgot not in cmp_counts:
                res.disagreements.append({"op": "tc1d counts", "input": dict(inp, unit=k), "impl": cmp_counts, "model": mgot})
            if any(x != 0 for x, o in zip(mc, mo) if o == 0) or "inf" in m[2]:
                res.disagreements.append({"op": "tc1d model: count in unvisited bin", "input": dict(inp, unit=k), "model": m})
        if n % 401 == 0:
            res.sample({"tc1d": inp, "tc": tc.values.tolist()})


def part_tc2d(res, tier, rng, nap):
    cases = []
    for c in tc_cases(res, tier, rng, 700 if tier == "quick" else 8000, True):
        bx = pick_bins(rng, inside_vals(c, "fx"))    # 2-d: inferred from the feature restricted to ep
        by = pick_bins(rng, inside_vals(c, "fy"))
        if bx is None or by is None or bx[3] != by[3]:
            continue
        c["bx"], c["by"] = bx, by
        cases.append(c)
    run_tc2d_cases(res, cases, rng, nap, "tc2d")


def part_tc2d_forms(res, tier, frng, nap):
    cases = tc_form_cases(frng, 260 if tier == "quick" else 2000, "2d")
    run_tc2d_cases(res, cases, frng, nap, "tc2d_forms")


def run_tc2d_cases(res, cases, rng, nap, tag):
    lines = []
    for c in cases:
        for sp in c["units"]:
            lines.append("tc2d\t%d %d %d\t%d %d %d\t%s\t%s\t%s\t%s\t%s" % (c["bx"][:3] + c["by"][:3] + (C.fmt_ints(sp), C.fmt_ints(c["ft"]), C.fmt_ints(mfx(c["fx"], c["bx"][1])),
                                                                                  C.fmt_ints(mfx(c["fy"], c["by"][1])), C.fmt_iset(c["epe"]))))
    out = C.run_model(lines, driver="driver_c17") if lines else []
    pos = 0
    wide = nap.IntervalSet(-1.0, 1.0)
    for n, c in enumerate(cases):
        (lx, hx, nx, explicit), (ly, hy, ny, _) = c["bx"], c["by"]
        ep = c["epe"]
        fm = c.get("form")
        keys = c.get("keys", [7, 2, 5])
        inp = {k: c[k] for k in ("ft", "fx", "fy", "fsup", "ep", "units")}
        inp.update(nb_bins=[nx, ny], minmax=(lx, hx, ly, hy) if explicit else None)
        if fm is None:
            feat = nap.TsdFrame(G.arr(c["ft"]), np.array([c["fx"], c["fy"]], dtype=float).T, time_support=iset_obj(nap, c["fsup"]))
            g = nap.TsGroup({k: nap.Ts(G.arr(sp)) for k, sp in zip(keys, c["units"])}, time_support=wide)
            kw = {}
            if c["ep"] is not None:
                kw["ep"] = iset_obj(nap, c["ep"])
            if explicit:
                kw["minmax"] = (lx, hx, ly, hy)
            nbarg = nx if nx == ny and rng.random() < 0.5 else (nx, ny)
            tc, xy = nap.compute_2d_tuning_curves(g, feat, nbarg, **kw)
        else:
            inp.update(form=fm, keys=keys, degenerate=c["deg"])
            feat, g, given = build_tc_inputs(res, nap, c, fm, keys, inp, [c["fx"], c["fy"]], "features")
            if explicit:
                given["minmax"] = minmax_arg((lx, hx, ly, hy), fm["minmax_form"])
            r = invoke(res, "compute_2d_tuning_curves", nap.compute_2d_tuning_curves, ["group", "features", "nb_bins", "ep", "minmax"], given, ("ep", "minmax"),
                       random.Random(fm["call_seed"]), inp, refusable=fm["nb_form"] != "int")
            if r is None:
                pos += len(keys)
                res.case((tag, n), nontrivial=True)
                continue
            if fm["twice"]:
                second_call(res, "compute_2d_tuning_curves", nap.compute_2d_tuning_curves, given, r, inp)
            tc, xy = r
        res.count("part=" + tag)
        if not explicit and ((min(c["fx"]), max(c["fx"])) != (lx, hx) or (min(c["fy"]), max(c["fy"])) != (ly, hy)):
            res.count("tc2d_inferred_minmax_of_feature_in_ep_narrower_than_whole_feature")
        rows = list(zip(c["fx"], c["fy"]))
        rin = [r for t, r in zip(c["ft"], rows) if G.mem(t, ep)]

        def key2(r):
            if r is None:
                return None
            i, j = obin(r[0], lx, hx, nx), obin(r[1], ly, hy, ny)
            return None if i is None or j is None else (i, j)
        occ = [[sum(1 for r in rin if key2(r) == (i, j)) for j in range(ny)] for i in range(nx)]
        if [list(xy[0]), list(xy[1])] != [centres_of(lx, hx, nx), centres_of(ly, hy, ny)] or list(tc.keys()) != sorted(keys):
            res.violations.append({"key": {"op": "compute_2d_tuning_curves", "part": "labels"}, "what": "xy is not the bin centres / keys not the unit keys", "input": inp,
                                   "impl": [list(xy[0]), list(xy[1])], "expected": [centres_of(lx, hx, nx), centres_of(ly, hy, ny)]})
            pos += len(keys)
            continue
        rate, rate_ep = float(feat.rate), float(feat.restrict(iset_obj(nap, ep)).rate)     # the statement's rate: the feature's own
        if rate != rate_ep:
            res.count("tc2d_rate_differs_from_rate_restricted_to_ep")
        occ_flat = [occ[i][j] for i in range(nx) for j in range(ny)]
        for k, sp in zip(keys, c["units"]):
            m = out[pos].split("|")
            pos += 1
            mc = [[int(v) for v in r.split()] for r in m[0].split(";")]
            mo = [[int(v) for v in r.split()] for r in m[1].split(";")]
            spin = restrict_ts(sp, ep)
            chs = [choices(x, c["ft"], rows, ep) for x in spin]
            res.case((tag, n, k), nontrivial=0 < len(spin) and any(any(r) for r in occ))
            a = np.asarray(tc[k], dtype=float)
            ach = achievable(chs, key2)

            def judge(r):
                if a.shape != (nx, ny):
                    return ["shape"] * (nx * ny), False
                rec = recover_counts(a.reshape(-1).tolist(), occ_flat, r)
                return rec, (not any(isinstance(x, str) for x in rec)
                             and tuple(sorted(((q // ny, q % ny), x) for q, x in enumerate(rec) if isinstance(x, int) and x > 0)) in ach)
            got, ok = judge(rate)
            got_ep, ok_ep = judge(rate_ep)
            cmp_counts = [g for g, o in ((got, ok), (got_ep, ok_ep)) if o]      # counts compared with the model's: recovered with a rate that explains the output
            if not ok:
                if ok_ep and rate_ep != rate:
                    res.violations.append({"key": {"op": "compute_2d_tuning_curves", "part": "rate", "rate_of_feature_restricted_to_ep": True},
                                           "what": "tc x occupancy / features.rate is not the number of attributed spikes; it is with the rate of the features restricted to ep (%r instead of %r), "
                                                   "whereas compute_1d_tuning_curves multiplies by the rate of the feature as passed" % (rate_ep, rate),
                                           "input": dict(inp, unit=k), "impl": {"tc": a.tolist(), "counts": got_ep, "occupancy": occ}, "expected": sorted(ach)[:4]})
                else:
                    res.violations.append({"key": {"op": "compute_2d_tuning_curves", "part": "count", "explicit_minmax": explicit, "unvisited_bin_not_nan": "not-nan" in got},
                                           "what": "tc x occupancy / rate is not the number of spikes whose nearest-in-time feature sample (same epoch) falls in the cell, or an unvisited cell is not NaN",
                                           "input": dict(inp, unit=k), "impl": {"tc": a.tolist(), "counts": got, "occupancy": occ, "rate": rate}, "expected": sorted(ach)[:4]})
            if mo != occ:
                res.disagreements.append({"op": "tc2d occupancy", "input": inp, "model": mo, "expected": occ})
            mgot = [None if mo[i][j] == 0 else mc[i][j] for i in range(nx) for j in range(ny)]
            if cmp_counts and mgot not in cmp_counts:
                res.disagreements.append({"op": "tc2d counts", "input": dict(inp, unit=k), "impl": cmp_counts, "model": mgot})
            if "inf" in m[2]:
                res.disagreements.append({"op": "tc2d model: count in unvisited cell", "input": dict(inp, unit=k), "model": m})


# ----------------------------------------------------------------------------------------------------------------
CONT_DEFECTS = ("last_edge_samples_dropped", "empty_visited_bin_is_zero", "nan_mean_is_zero")


def cont_model_check(col, exp):
    """model vs implementation. col: float values per bin; exp: None (NaN) or (n, s) of the extracted model; the model has no float,
    so for a visited bin with n == 0 (no mean) both 0.0 and NaN agree with it; the statement oracle below decides."""
    for x, e in zip(col, exp):
        if e is None:
            if not np.isnan(x):
                return False
        elif e[0] == 0:
            if not (x == 0.0 or np.isnan(x)):
                return False
        elif np.isnan(x) or abs(x * e[0] - e[1]) > 1e-6:
            return False
    return True


def cont_expect(pick, vals, key, occ_flat, is_last, defects=()):
    """statement: per bin the mean of the signal values whose attributed feature row (pick[i] for sample i) falls in the bin; NaN for an
    unvisited bin, for a visited bin without signal sample and when a value is NaN (arithmetic mean).  `defects` switches on the
    library's known deviations.  Returns per bin ("nan",), ("zero",) or ("mean", n, sum)."""
    acc = [[] for _ in occ_flat]
    for r, v in zip(pick, vals):
        k = key(r)
        if k is None or ("last_edge_samples_dropped" in defects and is_last(r)):
            continue
        acc[k].append(v)
    out = []
    for k, vs in enumerate(acc):
        if occ_flat[k] == 0:
            out.append(("nan",))
        elif not vs:
            out.append(("zero",) if "empty_visited_bin_is_zero" in defects else ("nan",))
        elif any(v != v for v in vs) or (INF in vs and -INF in vs):
            out.append(("zero",) if "nan_mean_is_zero" in defects else ("nan",))        # inf + (-inf): the mean is NaN like a NaN sample's
        elif INF in vs or -INF in vs:
            out.append(("inf", 1 if INF in vs else -1))                                 # the mean of samples holding an infinity of one sign is that infinity
        else:
            out.append(("mean", len(vs), sum(vs)))
    return out


def cont_match(col, exp):
    for x, e in zip(col, exp):
        if e[0] == "nan":
            if not np.isnan(x):
                return False
        elif e[0] == "zero":
            if x != 0.0:
                return False
        elif e[0] == "inf":
            if x != e[1] * INF:
                return False
        elif np.isnan(x) or abs(x * e[1] - e[2]) > 1e-6:
            return False
    return True


def cont_judge(cols, sigs, chs, key, occ_flat, is_last, cap=4096):
    """cols / sigs: {column: implementation values per bin} / {column: signal values of the samples in ep}; chs: admissible rows per sample.
    Returns (ok, defects, expectation of the first attribution): ok when SOME admissible attribution gives the statement's values in every
    column; otherwise the smallest set of known deviations under which some attribution does (None: unexplained)."""
    n = 1
    for ch in chs:
        n *= len(ch)
    if n > cap:
        return None, None, None
    picks = list(itertools.product(*chs))
    first = {cn: cont_expect(picks[0], sigs[cn], key, occ_flat, is_last) for cn in cols}
    # fewest deviations first; a NaN mean written as 0.0 is blamed only when the output cannot be explained without it
    # (a bin emptied by the last-edge rule is 0.0 whether or not the dropped samples held a NaN)
    subsets = [ds for size in range(len(CONT_DEFECTS) + 1) for ds in itertools.combinations(CONT_DEFECTS, size)]
    for ds in sorted(subsets, key=lambda ds: ("nan_mean_is_zero" in ds, len(ds))):
        for pick in picks:
            if all(cont_match(cols[cn], cont_expect(pick, sigs[cn], key, occ_flat, is_last, ds)) for cn in cols):
                return len(ds) == 0, ds, first
    return False, None, first


def part_cont(res, tier, rng, nap):
    grid = [i * U for i in range(12)]
    cases = []
    for c in tc_cases(res, tier, rng, 1200 if tier == "quick" else 16000, True):
        two = rng.random() < 0.4
        bx = pick_bins(rng, inside_vals(c, "fx"))
        by = pick_bins(rng, inside_vals(c, "fy")) if two else (0, 1, 1, True)
        if bx is None or by is None or (two and bx[3] != by[3]):
            continue
        st = sorted(rng.sample(grid, rng.randint(1, 8)) + ([rng.choice(grid)] if rng.random() < 0.2 else []))
        if len(set(st)) < 2:
            continue
        sv = [rng.randint(-3, 9) for _ in st]
        nan_at = sorted(rng.sample(range(len(st)), rng.choice([1, 1, 2]))) if rng.random() < 0.2 else []
        c.update(bx=bx, by=by, two=two, st=st, sv=sv, nan_at=nan_at)
        cases.append(c)
    run_cont_cases(res, cases, rng, nap, "cont")


def cont_signal(frng, c, fm, grid):
    """signal of a continuous-variant form case: 0 / 1 / many samples, values that the drawn dtype holds exactly, NaN and +inf / -inf samples (float dtypes),
    class Tsd / one-column / two-column TsdFrame with default, string, unsorted-integer labels; or the feature object itself (shared memory)"""
    sf = draw_series_form(frng)
    d = sf["d"]
    r = frng.random()
    if r < 0.04:
        st = []
    elif r < 0.10:
        st = [frng.choice(grid)]
    else:
        st = sorted(frng.sample(grid, frng.randint(1, 8)) + ([frng.choice(grid)] if frng.random() < 0.2 else []))
    if d == "bool":
        sv, q = [frng.randint(0, 1) for _ in st], (-1, 1)
    elif d == "float32":
        sv, q = [frng.randint(-1, 1) for _ in st], (-1, 0)           # |sum| <= 9: the float32 mean is within the oracle's 1e-6 of the exact one
    elif d.startswith("uint"):
        sv, q = [frng.randint(0, 9) for _ in st], (3, 1)
    else:
        sv, q = [frng.randint(-3, 9) for _ in st], (3, 1)
    nan_at, inf_at = [], {}
    if d in ("float64", "float32") and st:
        if frng.random() < 0.2:
            nan_at = sorted(frng.sample(range(len(st)), min(len(st), frng.choice([1, 1, 2]))))
        if frng.random() < 0.25:
            inf_at = {i: frng.choice([1, -1]) for i in frng.sample(range(len(st)), min(len(st), frng.choice([1, 1, 2])))}
    cls = frng.choice(["tsd", "frame", "frame", "frame1"])
    labels = {"tsd": None, "frame1": frng.choice([None, ["p"], [4]]), "frame": frng.choice([["p", "q"], ["q", "p"], [5, 2], [1, 0], None])}[cls]
    shared = (not c["two"]) and c["deg"] != "nan_inf_feature_value" and frng.random() < 0.06
    if shared:
        st, sv, nan_at, inf_at, cls, labels = list(c["ft"]), list(c["fx"]), [], {}, "shared", None
    c.update(st=st, sv=sv, nan_at=nan_at, inf_at=inf_at, q=q)
    fm.update(signal=sf, sig_cls=cls, sig_labels=labels)


def part_cont_forms(res, tier, frng, nap):
    cases = tc_form_cases(frng, 480 if tier == "quick" else 4000, "cont")
    run_cont_cases(res, cases, frng, nap, "cont_forms")


def run_cont_cases(res, cases, rng, nap, tag):
    # the extracted model works on integers: it is run on the cases without NaN / infinite signal value
    lines, mpos = [], {}
    for n, c in enumerate(cases):
        if c["nan_at"] or c.get("inf_at"):
            continue
        mpos[n] = len(lines)
        fx, fy = mfx(c["fx"], c["bx"][1]), mfx(c["fy"], c["by"][1])
        if c["two"]:
            lines.append("cont2d\t%d %d %d\t%d %d %d\t%s\t%s\t%s\t%s\t%s\t%s" % (c["bx"][:3] + c["by"][:3] + (C.fmt_ints(c["st"]), C.fmt_ints(c["sv"]), C.fmt_ints(c["ft"]), C.fmt_ints(fx), C.fmt_ints(fy), C.fmt_iset(c["epe"]))))
        else:
            lines.append("cont1d\t%d %d %d\t%s\t%s\t%s\t%s\t%s" % (c["bx"][:3] + (C.fmt_ints(c["st"]), C.fmt_ints(c["sv"]), C.fmt_ints(c["ft"]), C.fmt_ints(fx), C.fmt_iset(c["epe"]))))
    out = C.run_model(lines, driver="driver_c17") if lines else []
    wide = iset_obj(nap, [(-U, 12 * U)])
    nan = float("nan")
    for n, c in enumerate(cases):
        (lx, hx, nx, explicit), (ly, hy, ny, _) = c["bx"], c["by"]
        ep, two = c["epe"], c["two"]
        fm = c.get("form")
        op = "compute_2d_tuning_curves_continuous" if two else "compute_1d_tuning_curves_continuous"
        qa, qb = c.get("q", (3, 1))
        inf_at = c.get("inf_at", {})
        svp = [nan if i in c["nan_at"] else inf_at[i] * INF if i in inf_at else float(v) for i, v in enumerate(c["sv"])]
        svq = [qa * v + qb for v in svp]
        inp = {k: c[k] for k in ("st", "sv", "nan_at", "ft", "fx", "fsup", "ep")}
        if two:
            inp.update(fy=c["fy"], nb_bins=[nx, ny], minmax=(lx, hx, ly, hy) if explicit else None)
            rows = list(zip(c["fx"], c["fy"]))
        else:
            inp.update(nb_bins=nx, minmax=(lx, hx) if explicit else None)
            rows = [(v, 0) for v in c["fx"]]
        if fm is None:
            sig = nap.TsdFrame(G.arr(c["st"]), np.array([svp, svq], dtype=float).T, time_support=wide, columns=["p", "q"])
            single = (not two) and rng.random() < 0.3
            if single:
                sig = nap.Tsd(G.arr(c["st"]), np.array(svp, dtype=float), time_support=wide)
            outlabels = [0] if single else ["p", "q"]
            kw = {}
            if c["ep"] is not None:
                kw["ep"] = iset_obj(nap, c["ep"])
            if two:
                feat = nap.TsdFrame(G.arr(c["ft"]), np.array([c["fx"], c["fy"]], dtype=float).T, time_support=iset_obj(nap, c["fsup"]))
                if explicit:
                    kw["minmax"] = (lx, hx, ly, hy)
                r = nap.compute_2d_tuning_curves_continuous(sig, feat, (nx, ny), **kw)
            else:
                feat = nap.Tsd(G.arr(c["ft"]), np.array(c["fx"], dtype=float), time_support=iset_obj(nap, c["fsup"]))
                if explicit:
                    kw["minmax"] = (lx, hx)
                r = nap.compute_1d_tuning_curves_continuous(sig, feat, nx, **kw)
        else:
            inp.update(form=fm, degenerate=c["deg"], inf_at=inf_at, q=[qa, qb])
            feat, _, given = build_tc_inputs(res, nap, c, fm, [], inp, [c["fx"], c["fy"]] if two else [c["fx"]], "features" if two else "feature")
            cls, labels = fm["sig_cls"], fm["sig_labels"]
            res.count("form:signal_class=" + cls)
            if cls == "shared":
                sig, outlabels = feat, ([0] if fm["feat_cls"] != "frame_named" else ["hd"])
            elif cls == "frame":
                sig = build_series(res, nap, "frame", c["st"], [svp, svq], fm["signal"], [c["wide"]], labels, inp, "signal")
                outlabels = labels if labels is not None else [0, 1]
            else:
                sig = build_series(res, nap, "tsd" if cls == "tsd" else "frame", c["st"], [svp], fm["signal"], [c["wide"]], labels, inp, "signal")
                outlabels = labels if labels is not None else [0]
            single = len(outlabels) == 1
            if c["nan_at"]:
                res.count("form:signal_holds_NaN")
            if inf_at:
                res.count("form:signal_holds_inf" + ("_of_both_signs" if len(set(inf_at.values())) == 2 else ""))
            res.count("form:signal_samples=%s" % (len(c["st"]) if len(c["st"]) < 2 else "many"))
            given["tsdframe"] = sig
            if explicit:
                given["minmax"] = minmax_arg((lx, hx, ly, hy) if two else (lx, hx), fm["minmax_form"])
            f = nap.compute_2d_tuning_curves_continuous if two else nap.compute_1d_tuning_curves_continuous
            r = invoke(res, op, f, ["tsdframe", "features" if two else "feature", "nb_bins", "ep", "minmax"], given, ("ep", "minmax"), random.Random(fm["call_seed"]), inp,
                       refusable=fm["nb_form"] != "int",
                       flags={"one_feature_sample": len(c["ft"]) == 1, "feature_is_one_column_frame": (not two) and fm["feat_cls"] != "tsd"})
            if r is None:
                res.case((tag, n), nontrivial=True)
                continue
            if fm["twice"]:
                second_call(res, op, f, given, r, inp)
        if two:
            tc, xy = r
            got_labels = list(tc.keys())
            cols = {cn: np.asarray(tc[lab], float).reshape(-1) for cn, lab in zip(("p", "q"), outlabels) if lab in tc}
            labels_ok = [list(xy[0]), list(xy[1])] == [centres_of(lx, hx, nx), centres_of(ly, hy, ny)] and got_labels == outlabels
        else:
            tc = r
            got_labels = list(tc.columns)
            cols = {cn: tc.values[:, i].astype(float) for i, cn in zip(range(len(got_labels)), ("p", "q"))}
            labels_ok = list(tc.index) == centres_of(lx, hx, nx) and got_labels == outlabels
        res.count("part=" + ("cont2d" if two else "cont1d") + tag[4:])
        res.count("cont_" + ("explicit" if explicit else "inferred") + "_minmax")
        if not explicit and ((min(c["fx"]), max(c["fx"])) != (lx, hx) or (two and (min(c["fy"]), max(c["fy"])) != (ly, hy))):
            res.count("cont_inferred_minmax_of_feature_in_ep_narrower_than_whole_feature")

        def key2(r):
            if r is None:
                return None
            i, j = obin(r[0], lx, hx, nx), obin(r[1], ly, hy, ny)
            return None if i is None or j is None else i * ny + j

        def is_last(r):
            return r[0] == hx or (two and r[1] == hy)
        rin = [r for t, r in zip(c["ft"], rows) if G.mem(t, ep)]
        occ = [sum(1 for r in rin if key2(r) == q) for q in range(nx * ny)]
        keep = [i for i, t in enumerate(c["st"]) if G.mem(t, ep)]
        sigs = {"p": [svp[i] for i in keep], "q": [svq[i] for i in keep]}
        chs = [choices(c["st"][i], c["ft"], rows, ep) for i in keep]
        unique = all(len(ch) == 1 for ch in chs)
        last_edge = any(r is not None and key2(r) is not None and is_last(r) for ch in chs for r in ch)
        res.case((tag, n), nontrivial=len(keep) > 0 and any(occ))
        if last_edge:
            res.count("cont_sample_attributed_to_last_edge")
        if not unique:
            res.count("cont_equidistant_sample")
        if c["nan_at"] and any(i in keep for i in c["nan_at"]):
            res.count("cont_nan_signal_value_in_ep")
        if not labels_ok:
            res.violations.append({"key": {"op": op, "part": "labels"}, "what": "index/xy is not the bin centres, or the columns / keys are not the signal's column labels", "input": inp,
                                   "impl": [str(x) for x in got_labels], "expected": [str(x) for x in outlabels]})
            continue
        # model vs implementation (integer signals)
        if n in mpos:
            cells = [x for r in out[mpos[n]].split(";") for x in r.split()]
            mexp = [None if x == "nan" else tuple(int(v) for v in x.split(":")) for x in cells]
            if not cont_model_check(cols["p"], mexp) or ("q" in cols and not cont_model_check(cols["q"], [None if e is None else (e[0], qa * e[1] + qb * e[0]) for e in mexp])):
                res.disagreements.append({"op": op, "input": inp, "impl": {k: v.tolist() for k, v in cols.items()}, "model": mexp})
        # statement: SOME admissible attribution of the samples gives the returned values
        ok, ds, first = cont_judge(cols, {cn: sigs[cn] for cn in cols}, chs, key2, occ, is_last)
        if ok is None:
            res.count("cont_attribution_enumeration_capped")
        elif not ok:
            if any(e[0] != "mean" and o > 0 for e, o in zip(first["p"], occ)):
                res.count("cont_visited_bin_without_mean")
            flags = {d: bool(ds is not None and d in ds) for d in CONT_DEFECTS}
            pure_last = ds == ("last_edge_samples_dropped",)
            why = []
            if flags["last_edge_samples_dropped"]:
                why.append("a feature value equal to the LAST bin edge is counted as visiting the last bin (np.histogram) but its signal samples are dropped (np.digitize)")
            if flags["empty_visited_bin_is_zero"]:
                why.append("a visited bin holding no signal sample is 0.0 (tc[np.isnan(tc)] = 0.0), indistinguishable from a zero mean")
            if flags["nan_mean_is_zero"]:
                why.append("a bin whose signal samples include NaN is 0.0, which is neither their mean (NaN) nor their nanmean")
            res.violations.append({"key": dict({"op": op, "part": "value_on_last_edge" if pure_last else "mean", "explained": ds is not None}, **flags),
                                   "what": "per-bin value is not the mean of the signal samples whose (nearest-in-time, same epoch) feature value falls in the bin / NaN for an unvisited bin"
                                           + ("; " + "; ".join(why) if why else ""),
                                   "input": inp, "impl": {k: v.tolist() for k, v in cols.items()}, "expected per bin (first admissible attribution)": first})
        if n % 301 == 0:
            res.sample({"cont": inp, "tc": {k: v.tolist() for k, v in cols.items()}})


# ----------------------------------------------------------------------------------------------------------------
def post_check(p, wl, ex, tol=1e-9):
    """p: implementation posterior over feature bins; wl: exact Fractions occ_i/sum occ * prod r^c; ex: exact bin_size * sum_j r_ij.
    discrete identity: p_i = 0 where wl_i = 0, else log p_i - log wl_i + ex_i is constant; sum p = 1"""
    p = np.asarray(p, dtype=float)
    if all(w == 0 for w in wl):
        return bool(np.all(np.isnan(p)))
    if np.any(np.isnan(p)) or abs(p.sum() - 1.0) > 1e-9:
        return False
    cs = []
    for x, w, e in zip(p, wl, ex):
        if w == 0:
            if x != 0:
                return False
        else:
            if x <= 0:
                return False
            cs.append(math.log(x) - (math.log(w.numerator) - math.log(w.denominator)) + float(e))
    return max(cs) - min(cs) <= tol * max(1.0, max(abs(c) for c in cs))


def part_decode(res, tier, rng, nap):
    cases = gen_decode_cases(rng, 450 if tier == "quick" else 6000)
    run_decode_cases(res, cases, rng, nap, "decode")
    decode_occ_law(res)


def gen_decode_cases(rng, n_cases):
    grid = [i * U for i in range(16)]
    cases = []
    while len(cases) < n_cases:
        two = rng.random() < 0.35
        nx = rng.choice([1, 2, 2, 3, 4]) if not two else rng.choice([1, 2, 3])
        ny = 1 if not two else rng.choice([2, 3])
        lx, ly = rng.choice([0, 1]), 0
        stepx, stepy = rng.choice([1, 2]), rng.choice([1, 2])
        nu = rng.choice([1, 2, 3])
        rd = rng.choice([1, 1, 2])
        equal_sums = rng.random() < 0.3
        nbtot = nx * ny
        tcn = [[rng.randint(1, 4) for _ in range(nu)] for _ in range(nbtot)]
        if equal_sums and nu >= 2:
            tcn = [r[:-1] + [12 - sum(r[:-1])] for r in tcn]
        if rng.random() < 0.2:
            tcn[rng.randrange(nbtot)] = list(tcn[0])                      # identical bins: exact tie of the posterior
        ep = rand_iset(rng, grid, 2)
        b = rng.choice([U, 2 * U, 2 * U, 3 * U, 4 * U])
        units = []
        for _ in range(nu):
            units.append(sorted(rng.choice(grid) + rng.choice([0, 0, U // 5]) for _ in range(rng.randint(0, 7))))
        with_feat = rng.random() < 0.55
        fv = [(rng.randint(lx - 1, lx + nx * stepx + 1), rng.randint(ly - 1, ly + ny * stepy)) for _ in range(rng.randint(2, 7))]
        # unit keys: "same" (tuning-curve columns and group keys are the same sorted sequence), "group_permuted" (the dict / TsGroup is
        # built in another insertion order), "tc_permuted" (the tuning-curve columns are in another order than the sorted group keys),
        # "mismatched" (same number of units, one key differs)
        keyorder = rng.choice(["same", "same", "group_permuted", "tc_permuted", "mismatched"] if nu >= 2 else ["same", "same", "mismatched"])
        perm = list(range(nu))
        while nu >= 2 and perm == list(range(nu)):
            perm = rng.sample(range(nu), nu)
        cases.append(dict(two=two, nx=nx, ny=ny, lx=lx, ly=ly, sx=stepx, sy=stepy, nu=nu, rd=rd, tcn=tcn, ep=ep, b=b, units=units, with_feat=with_feat, fv=fv,
                          mode=rng.choice(["TsGroup", "dict", "TsdFrame"]), units_name=rng.choice(["s", "ms", "us"]), keyorder=keyorder, perm=perm,
                          wrong_key=rng.choice([1, 4, 11]), wrong_at=rng.randrange(nu)))
    return cases


BIN_FORMS = ("float", "float", "npfloat64", "int", "int", "npfloat32", "npint64", "arr0d")


def bin_arg(b, unit, form):
    """(bin_size argument, form used, documented?): b ticks in `unit`, as a Python float (legacy), np.float64, Python int (when whole), or - outside the documented
    `float` - np.float32 / np.int64 / 0-d array; a form that cannot hold the value exactly falls back to the Python float"""
    ut = {"s": 10**9, "ms": 10**6, "us": 10**3}[unit]
    v = b / float(ut)
    if form == "npfloat64":
        return np.float64(v), form, True
    if form == "int" and b % ut == 0:
        return int(b // ut), form, True
    if form == "npint64" and b % ut == 0:
        return np.int64(b // ut), form, False
    if form == "npfloat32" and float(np.float32(v)) == v:
        return np.float32(v), form, False
    if form == "arr0d":
        return np.array(v), form, False
    return v, "float", True


def part_decode_forms(res, tier, frng, nap):
    """argument forms of decode_1d / decode_2d: see res.rule"""
    cases = gen_decode_cases(frng, 260 if tier == "quick" else 2200)
    for c in cases:
        mul, off = draw_frame(frng)
        nu = c["nu"]
        keyset = sorted(frng.choice(KEYSETS))
        fm = {"frame": frame_name(mul, off), "keyset": keyset, "tc_d": frng.choice(["float64", "float64", "int64", "float32"]), "tc_index": frng.choice(["float", "float", "int"]),
              "bin": frng.choice(BIN_FORMS), "units_omitted_when_s": frng.random() < 0.5, "ep_form": frng.choice(EP_FORMS), "group": draw_group_form(frng),
              "frame_d": frng.choice(["int64", "int64", "float64", "float32", "int32", "int16", "int8", "uint8", "uint16", "uint64"]), "frame_via": frng.choice(["count", "count_dtype", "rebuilt"]),
              "frame_hist": frng.choice(["none", "none", "restrict", "arith", "getslice", "saveload"]), "frame_cols": frng.choice(["int", "int", "str"]),
              "feature": draw_series_form(frng), "feat_labels": frng.choice([["x", "y"], ["x", "y"], ["b", "a"], [1, 0], None]), "xy": frng.choice(["tuple", "tuple", "list", "f32"]),
              "call_seed": frng.randrange(2**30), "twice": frng.random() < 0.15}
        if c["wrong_key"] in keyset:
            c["wrong_key"] = 555
        if frng.random() < 0.04:
            c["ep"] = []                      # degenerate argument: nothing to decode
        fm["units_case"] = frng.choice(["asis"] * 7 + ["upper"])          # 'MS' is not a documented unit: a clean refusal, or the answer for ms
        for f in ("ep", "units"):
            c[f] = shift(c[f], mul, off)
        c["b"] *= mul
        c.update(form=fm, wide=(shift(-U, mul, off), shift(17 * U, mul, off)), extra=(shift(16 * U, mul, off), shift(17 * U, mul, off)), feat_t0=shift(0, mul, off), feat_dt=U * mul)
    run_decode_cases(res, cases, frng, nap, "decode_forms")
    decode_empty_group(res, tier, frng, nap)
    decode_pipeline(res, tier, frng, nap)


def run_decode_cases(res, cases, rng, nap, tag):
    import pandas as pd
    # model: count rows + posterior per distinct count vector
    lines = ["rows\t%s\t%d\t%s" % (C.fmt_iset(c["ep"]), c["b"], "\t".join(C.fmt_ints(sp) for sp in c["units"])) for c in cases]
    out_rows = C.run_model(lines, driver="driver_c17")
    plines, pmeta = [], []
    for n, c in enumerate(cases):
        nx, ny = c["nx"], c["ny"]
        hx, hy = c["lx"] + nx * c["sx"], c["ly"] + ny * c["sy"]
        if c["with_feat"]:
            occ = [sum(1 for (x, y) in c["fv"] if obin(x, c["lx"], hx, nx) == i and (not c["two"] or obin(y, c["ly"], hy, ny) == j) and obin(x, c["lx"], hx, nx) is not None)
                   for i in range(nx) for j in range(ny)]
        else:
            occ = [1] * (nx * ny)
        c["occ"] = occ
        rows = []
        for s, e, l in count_grid(c["ep"], c["b"]):
            rows.append((2 * l + c["b"], tuple(sum(1 for t in sp if s <= t <= e and l <= t < l + c["b"]) for sp in c["units"])))
        c["rows"] = rows
        mrows = [] if out_rows[n] == "" else [(int(r.split(":")[0]), tuple(int(v) for v in r.split(":")[1].split())) for r in out_rows[n].split(";")]
        if mrows != rows:
            res.disagreements.append({"op": "decode time bins (count_rows) model vs statement", "input": {"ep": c["ep"], "b": c["b"], "units": c["units"]}, "model": mrows, "expected": rows})
        for cnt in sorted(set(r[1] for r in rows)):
            plines.append("post\t%d\t%s\t%d\t%s\t%d\t%s" % (c["b"], C.fmt_ints(occ), c["nu"], C.fmt_ints([v for r in c["tcn"] for v in r]), c["rd"], C.fmt_ints(cnt)))
            pmeta.append((n, cnt))
    out_post = C.run_model(plines, driver="driver_c17")
    model_post = {}
    for (n, cnt), o in zip(pmeta, out_post):
        f = o.split("|")
        model_post[(n, cnt)] = ([Fr(x) for x in f[0].split()], [Fr(x) for x in f[1].split()], int(f[2]), f[3])
    d2_lines, d2_meta = [], []
    for n, c in enumerate(cases):
        nx, ny, nu, two, ep, b = c["nx"], c["ny"], c["nu"], c["two"], c["ep"], c["b"]
        nbtot = nx * ny
        hx, hy = c["lx"] + nx * c["sx"], c["ly"] + ny * c["sy"]
        cx, cy = centres_of(c["lx"], hx, nx), centres_of(c["ly"], hy, ny)
        rates = [[Fr(v, c["rd"]) for v in r] for r in c["tcn"]]
        fm = c.get("form")
        ks = ([3, 5, 9] if fm is None else fm["keyset"])[:nu]
        wd, extra = c.get("wide", (-U, 17 * U)), c.get("extra", (16 * U, 17 * U))
        wide = iset_obj(nap, [wd])
        f = {"s": 1e9, "ms": 1e6, "us": 1e3}[c["units_name"]]
        ko = c["keyorder"]
        tck = [ks[i] for i in c["perm"]] if ko == "tc_permuted" else list(ks)                 # order of the tuning-curve columns / dict keys
        gk = list(ks)                                                                         # key of unit u in the group
        if ko == "mismatched":
            gk[c["wrong_at"]] = c["wrong_key"]
        gorder = c["perm"] if ko == "group_permuted" else list(range(nu))                     # insertion order of the group
        inp = {k: c[k] for k in ("ep", "b", "units", "tcn", "rd", "mode", "units_name", "with_feat", "fv")}
        inp.update(nb=[nx, ny] if two else nx, centres=[cx, cy] if two else cx, tuning_curve_keys=tck, group_keys=[gk[u] for u in gorder])
        res.count("part=" + ("decode_2d" if two else "decode_1d") + tag[6:])
        res.count("decode_group=" + c["mode"])
        res.count("decode_units=" + c["units_name"])
        res.count("decode_prior=" + ("occupancy" if c["with_feat"] else "uniform"))
        res.count("decode_keys=%s/%s" % (ko, c["mode"]))
        kinfo = {"group": c["mode"], "keys": ko}
        label = {k: k for k in ks}            # how unit key k is spelt in the tuning curves (and in a pre-binned frame's columns)
        if fm is None:
            epo = iset_obj(nap, ep)
            if c["mode"] == "TsGroup":
                grp = nap.TsGroup({gk[u]: nap.Ts(G.arr(c["units"][u])) for u in gorder}, time_support=wide)
            elif c["mode"] == "dict":
                grp = {gk[u]: nap.Ts(G.arr(c["units"][u])) for u in gorder}
            else:
                # pre-binned counts on a support WIDER than ep: rows outside ep must not be decoded
                ep2 = ep + [(16 * U, 17 * U)] if rng.random() < 0.5 else ep
                g0 = nap.TsGroup({gk[u]: nap.Ts(G.arr(c["units"][u] + [16 * U])) for u in gorder}, time_support=wide)
                grp = g0.count(b / 1e9, iset_obj(nap, ep2))
                if ep2 is not ep:
                    res.count("decode_prebinned_rows_outside_ep")
                c["frame_t"] = [C.to_ns(x) for x in grp.t]
                if len(grp) == 0:
                    res.case((tag, n), nontrivial=False)
                    continue
        else:
            inp.update(form=fm, keyset=ks)
            res.count("form:frame=" + fm["frame"])
            epo = checked_iset(res, nap, ep, fm["ep_form"], inp, "ep")
            res.count("form:decode_ep=%s" % ("empty" if not ep else "%d_intervals" % len(ep)))
            gf = dict(fm["group"], order="given") if ko == "group_permuted" else fm["group"]
            if c["mode"] == "TsGroup":
                grp = build_group(res, nap, [c["units"][u] for u in gorder], [gk[u] for u in gorder], gf, wd, inp)
            elif c["mode"] == "dict":
                kf = {"int": int, "str": str, "float": float, "npint": np.int64}[gf["key"]]
                order = gorder if gf["order"] == "given" else sorted(gorder, key=lambda u: gk[u], reverse=gf["order"] == "reversed")
                grp = {}
                for u in order:
                    t, tu, used = t_arg(nap, c["units"][u], gf["t"])
                    grp[kf(gk[u])] = (nap.Tsd(t, np.arange(len(c["units"][u]), dtype=np.float64), time_units=tu) if gf["member"] == "tsd" or (gf["member"] == "mixed" and u % 2 == 0)
                                      else nap.Ts(t, time_units=tu))
                    res.count("form:dict_member_t=" + used)
                res.count("form:dict_members=" + gf["member"])
                res.count("form:dict_keys=" + gf["key"])
            else:
                ep2 = ep + [extra] if rng.random() < 0.5 else ep
                g0 = nap.TsGroup({gk[u]: nap.Ts(G.arr(c["units"][u] + [extra[0]])) for u in gorder}, time_support=wide)
                dt = np.dtype(fm["frame_d"])
                if fm["frame_via"] == "count_dtype":
                    grp = g0.count(b / 1e9, iset_obj(nap, ep2), dtype=dt)
                else:
                    grp = g0.count(b / 1e9, iset_obj(nap, ep2))
                if ko == "same" and fm["frame_cols"] == "str":
                    label = {k: "u%d" % k for k in ks}
                if fm["frame_via"] == "rebuilt" or label[ks[0]] != ks[0]:
                    t, tu, used = t_arg(nap, [C.to_ns(x) for x in grp.t], fm["feature"]["t"])
                    grp = nap.TsdFrame(t=t, d=grp.values.astype(dt), time_units=tu, time_support=grp.time_support, columns=[label.get(k, k) for k in grp.columns])
                    res.count("form:prebinned_t=" + used)
                hist = fm["frame_hist"]
                if hist == "restrict":
                    grp = grp.restrict(iset_obj(nap, [(wd[0] - W, wd[1] + W)]).intersect(grp.time_support))
                elif hist == "arith":
                    grp = grp * 1
                elif hist == "getslice":
                    grp = grp[0:len(grp)]
                elif hist == "saveload":
                    grp = _saveload(nap, grp, "cnt")
                res.count("form:prebinned_dtype=%s" % grp.values.dtype)
                res.count("form:prebinned_via=" + fm["frame_via"])
                res.count("form:prebinned_hist=" + hist)
                res.count("form:prebinned_columns=" + ("str" if label[ks[0]] != ks[0] else "int"))
                if ep2 is not ep:
                    res.count("decode_prebinned_rows_outside_ep")
                c["frame_t"] = [C.to_ns(x) for x in grp.t]
                if len(grp) == 0:
                    res.case((tag, n), nontrivial=False)
                    continue
        tck = [label[k] for k in tck]
        unit_of = {label[k]: i for i, k in enumerate(ks)}
        op = "decode_2d" if two else "decode_1d"
        kw = {"time_units": c["units_name"]}
        ft = [c.get("feat_t0", 0) + i * c.get("feat_dt", U) for i in range(len(c["fv"]))]
        refusable = False
        try:
            if two:
                tcd = {k: np.array([[float(rates[i * ny + j][unit_of[k]]) for j in range(ny)] for i in range(nx)]) for k in tck}
                if c["with_feat"] and fm is None:
                    kw["features"] = nap.TsdFrame(G.arr(ft), np.array(c["fv"], dtype=float), time_support=wide, columns=["x", "y"])
                if c["with_feat"] and (nx < 2 or ny < 2):
                    res.count("decode_one_bin_with_prior")
                if fm is None:
                    dec, p = nap.decode_2d(tcd, grp, epo, b / f, (np.array(cx), np.array(cy)), **kw)
                else:
                    if fm["tc_d"] == "float32" or (fm["tc_d"] == "int64" and c["rd"] == 1):
                        tcd = {k: v.astype(fm["tc_d"]) for k, v in tcd.items()}
                    res.count("form:tuning_curves_dtype=%s" % (tcd[tck[0]].dtype if tck else "none"))
                    xy = {"tuple": (np.array(cx), np.array(cy)), "list": [np.array(cx), np.array(cy)], "f32": (np.array(cx, dtype=np.float32), np.array(cy, dtype=np.float32))}[fm["xy"]]
                    res.count("form:xy=" + fm["xy"])
                    bs, bused, documented = bin_arg(b, c["units_name"], fm["bin"])
                    refusable = not documented
                    given = {"tuning_curves": tcd, "group": grp, "ep": epo, "bin_size": bs, "xy": xy}
                    if c["with_feat"]:
                        given["features"] = build_series(res, nap, "frame", ft, [[v[0] for v in c["fv"]], [v[1] for v in c["fv"]]], fm["feature"], [wd], fm["feat_labels"], inp, "decode_features")
                    if fm["units_case"] == "upper":
                        given["time_units"], refusable = c["units_name"].upper(), True
                        res.count("form:time_units_in_upper_case")
                    elif not (c["units_name"] == "s" and fm["units_omitted_when_s"]):
                        given["time_units"] = c["units_name"]
                    args, kwargs, info = plan_call(random.Random(fm["call_seed"]), ["tuning_curves", "group", "ep", "bin_size", "xy", "time_units", "features"], given, ("features",))
                    inp["call"] = dict(info, bin_size_form=bused)
                    res.count("form:call=" + info["style"])
                    res.count("form:bin_size=" + bused)
                    res.count("form:time_units_passed=%s" % ("time_units" in given))
                    for q in info["explicit_none"]:
                        res.count("form:explicit_None=" + q)
                    dec, p = nap.decode_2d(*args, **kwargs)
                    if fm["twice"]:
                        second_call(res, op, nap.decode_2d, given, (dec, p), inp)
                tt = [C.to_ns(x) for x in dec.t]
                if np.asarray(p).shape[0] != len(tt):
                    res.case((tag, n), nontrivial=True)
                    res.violations.append({"key": {"op": op, "part": "prebinned_rows_outside_ep" if c["mode"] == "TsdFrame" else "posterior_rows"},
                                           "what": "the posterior array has %d rows but the decoded series has %d time bins (rows of a pre-binned TsdFrame lying outside ep are not removed from the posterior)"
                                                   % (np.asarray(p).shape[0], len(tt)), "input": inp, "impl": [int(np.asarray(p).shape[0]), len(tt)], "expected": len(c["rows"])})
                    continue
                P = np.asarray(p).reshape(len(tt), nbtot)
                dv = [tuple(float(v) for v in r) for r in dec.values]
                cen = [(cx[i], cy[j]) for i in range(nx) for j in range(ny)]
            else:
                tcd = pd.DataFrame(index=cx, data={k: [float(rates[i][unit_of[k]]) for i in range(nx)] for k in tck})
                if c["with_feat"] and fm is None:
                    kw["feature"] = nap.Tsd(G.arr(ft), np.array([v[0] for v in c["fv"]], dtype=float), time_support=wide)
                if fm is None:
                    dec, p = nap.decode_1d(tcd, grp, epo, b / f, **kw)
                else:
                    if fm["tc_d"] == "float32" or (fm["tc_d"] == "int64" and c["rd"] == 1):
                        tcd = tcd.astype(fm["tc_d"])
                    if fm["tc_index"] == "int" and all(x == int(x) for x in cx):
                        tcd.index = [int(x) for x in cx]
                        res.count("form:tuning_curves_index=int")
                    res.count("form:tuning_curves_dtype=%s" % (tcd.values.dtype if tck else "none"))
                    bs, bused, documented = bin_arg(b, c["units_name"], fm["bin"])
                    refusable = not documented
                    given = {"tuning_curves": tcd, "group": grp, "ep": epo, "bin_size": bs}
                    if c["with_feat"]:
                        given["feature"] = build_series(res, nap, "tsd", ft, [[v[0] for v in c["fv"]]], fm["feature"], [wd], None, inp, "decode_feature")
                    if fm["units_case"] == "upper":
                        given["time_units"], refusable = c["units_name"].upper(), True
                        res.count("form:time_units_in_upper_case")
                    elif not (c["units_name"] == "s" and fm["units_omitted_when_s"]):
                        given["time_units"] = c["units_name"]
                    args, kwargs, info = plan_call(random.Random(fm["call_seed"]), ["tuning_curves", "group", "ep", "bin_size", "time_units", "feature"], given, ("feature",))
                    inp["call"] = dict(info, bin_size_form=bused)
                    res.count("form:call=" + info["style"])
                    res.count("form:bin_size=" + bused)
                    res.count("form:time_units_passed=%s" % ("time_units" in given))
                    for q in info["explicit_none"]:
                        res.count("form:explicit_None=" + q)
                    dec, p = nap.decode_1d(*args, **kwargs)
                    if fm["twice"]:
                        second_call(res, op, nap.decode_1d, given, (dec, p), inp)
                tt = [C.to_ns(x) for x in p.t]
                P = p.values.reshape(len(tt), nbtot)
                dv = [float(v) for v in dec.values]
                cen = cx
                if list(p.columns) != cx or [C.to_ns(x) for x in dec.t] != tt:
                    res.violations.append({"key": {"op": op, "part": "labels"}, "what": "posterior columns are not the bin centres / decoded and posterior time axes differ", "input": inp})
        except Exception as ex:
            one_bin = c["with_feat"] and (nx < 2 or (two and ny < 2))
            res.case((tag, n), nontrivial=True)
            if refusable and isinstance(ex, (TypeError, ValueError)) and ("bin_size" in str(ex) or "unit" in str(ex)):
                res.count("form:clean_refusal_of_undocumented_form")                # np.float32 / np.int64 / 0-d array where `float` is documented; 'MS' for 'ms'
                continue
            if ko in ("tc_permuted", "mismatched") and isinstance(ex, RuntimeError) and "tuning" in str(ex):
                res.count("decode_refused_keys=%s/%s" % (ko, c["mode"]))        # the documented refusal
                continue
            res.violations.append({"key": dict({"op": op, "part": "one_bin_with_occupancy_prior" if one_bin else "exception", "exception": type(ex).__name__}, **kinfo),
                                   "what": "decode raised %s: %s" % (type(ex).__name__, str(ex)[:80]), "input": inp})
            continue
        if ko == "mismatched":
            res.case((tag, n), nontrivial=True)
            res.violations.append({"key": dict({"op": op, "part": "unit_keys"}, **kinfo),
                                   "what": "the group's keys %s are not the tuning curves' keys %s, yet a posterior is returned (units paired by position) instead of the documented RuntimeError"
                                           % (sorted(gk), tck), "input": inp, "impl": np.asarray(P).tolist()[:3], "expected": "RuntimeError"})
            continue
        if ko == "tc_permuted":
            res.count("decode_answered_keys=tc_permuted/" + c["mode"])
        rows = c["rows"]
        if c["mode"] == "TsdFrame" or two:
            # model: rows of a pre-binned frame that are decoded (inside ep); decode_2d's posterior rows; unravel of the argmax
            ft_ = c.get("frame_t", [r[0] // 2 for r in rows])
            am = int(np.argmax(P[0])) if len(tt) and not np.all(np.isnan(P[0])) else 0
            d2_lines.append("decode2d_rows\t%s\t%d\t%d\t%s" % (C.fmt_iset(ep), ny, am, C.fmt_ints(ft_)))
            d2_meta.append((inp, ft_, tt, int(P.shape[0]), am, dv[0] if len(tt) else None, cen, ny, two, c["mode"]))
        res.case((tag, n), nontrivial=len(rows) > 0 and any(any(r[1]) for r in rows))
        if [2 * t for t in tt] != [r[0] for r in rows] and not all(abs(2 * t - r[0]) <= 1 for t, r in zip(tt, rows)) or len(tt) != len(rows):
            res.violations.append({"key": {"op": op, "part": "time_bins"}, "what": "posterior time axis is not the bin grid of count(bin_size, ep)", "input": inp,
                                   "impl": tt, "expected (2*centre)": [r[0] for r in rows]})
            continue
        if ep_ticks(dec.time_support) != ep and len(rows):
            res.violations.append({"key": {"op": op, "part": "support"}, "what": "decoded time support is not ep", "input": inp})
        tot = sum(c["occ"])
        for ti, (c2, cnt) in enumerate(rows):
            wl = [(Fr(o, tot) if tot else Fr(0)) * math.prod(r ** k for r, k in zip(rates[i], cnt)) for i, o in enumerate(c["occ"])]
            ex = [Fr(b, 10**9) * sum(rates[i]) for i in range(nbtot)]
            res.evaluations += 1
            mw, me, marg, _ = model_post[(n, cnt)]
            if tot and (mw != wl or me != ex):
                res.disagreements.append({"op": "posterior model vs statement", "input": dict(inp, count=cnt), "model": [list(map(str, mw)), list(map(str, me))],
                                          "expected": [list(map(str, wl)), list(map(str, ex))]})
            if tot == 0:
                res.count("decode_prior_all_zero")
                if not np.all(np.isnan(P[ti])):
                    res.violations.append({"key": {"op": op, "part": "posterior"}, "what": "occupancy prior is zero everywhere but the posterior is not NaN", "input": dict(inp, count=cnt), "impl": P[ti].tolist()})
                continue
            if not post_check(P[ti], wl, ex):
                res.violations.append({"key": dict({"op": op, "part": "posterior"}, **kinfo), "what": ("the tuning-curve columns are in another order than the group's sorted keys and the units are paired by POSITION, not by key: " if ko == "tc_permuted" else "") + "posterior is not the normalised prior(occupancy) x exp(-bin_size x sum of rates) x prod rate^count",
                                       "input": dict(inp, count=cnt), "impl": P[ti].tolist(), "expected unnormalised (without exp)": list(map(str, wl)), "exponents": list(map(str, ex))})
                continue
            # decoded value = centre of the maximal posterior bin (exact log-weights; first index among exact ties)
            lw = [(-math.inf if w == 0 else math.log(w.numerator) - math.log(w.denominator) - float(e)) for w, e in zip(wl, ex)]
            best = max(lw)
            near = [i for i, v in enumerate(lw) if best - v < 1e-9]
            exact_ties = [i for i in near if (wl[i] == wl[near[0]] and ex[i] == ex[near[0]])]
            got = cen.index(dv[ti]) if dv[ti] in cen else None
            if got is None or got not in near:
                res.violations.append({"key": {"op": op, "part": "argmax"}, "what": "decoded value is not the centre of the bin where the posterior is maximal", "input": dict(inp, count=cnt),
                                       "impl": dv[ti], "expected": [cen[i] for i in near]})
            elif len(near) > 1 and got != near[0]:
                if near == exact_ties and all(rates[i] == rates[near[0]] and c["occ"][i] == c["occ"][near[0]] for i in near):
                    res.violations.append({"key": {"op": op, "part": "argmax_tie"}, "what": "identical bins tie exactly; np.argmax must return the first", "input": dict(inp, count=cnt), "impl": dv[ti]})
                else:
                    res.float_ambiguous += 1
            if len(set(ex)) == 1 and len(near) == 1 and marg != near[0]:
                res.disagreements.append({"op": "argmax (exp cancels)", "input": dict(inp, count=cnt), "model": marg, "expected": near[0]})
            if got != int(np.argmax(P[ti])):
                res.violations.append({"key": {"op": op, "part": "argmax"}, "what": "decoded value is not the centre at argmax of the returned posterior", "input": dict(inp, count=cnt)})
        if n % 101 == 0:
            res.sample({"decode": inp, "posterior": P.tolist()[:3]})
    for (inp, ft_, tt, prow, am, dv0, cen, ny, two, mode), o in zip(d2_meta, C.run_model(d2_lines, driver="driver_c17") if d2_lines else []):
        f = o.split("|")
        mt = [int(v) for v in f[1].split()]
        if mode == "TsdFrame" and (mt != tt or int(f[0]) != prow):
            res.disagreements.append({"op": "decode pre-binned rows inside ep", "input": inp, "frame_t": ft_, "impl": [tt, prow], "model": [mt, int(f[0])]})
        if two and dv0 is not None:
            i, j = [int(v) for v in f[2].split()]
            if i * ny + j >= len(cen) or tuple(cen[i * ny + j]) != tuple(dv0):
                res.disagreements.append({"op": "decode_2d unravel", "input": inp, "impl": dv0, "model": [i, j], "argmax": am})


def decode_rows(ep, b, units):
    """time bins of count(bin_size, ep): (2 x centre, counts per unit)"""
    return [(2 * l + b, tuple(sum(1 for t in sp if s <= t <= e and l <= t < l + b) for sp in units)) for s, e, l in count_grid(ep, b)]


def decode_empty_group(res, tier, frng, nap):
    """degenerate receiver: NO unit (empty TsGroup / empty dict / pre-binned frame without column, tuning curves without column): the statement's posterior is the
    normalised prior (empty product, zero summed rate).  The documented signature does not say that an empty group is accepted: a clean exception is accepted too."""
    import pandas as pd
    grid = [i * U for i in range(16)]
    for n in range(24 if tier == "quick" else 100):
        mul, off = draw_frame(frng)
        nx = frng.choice([2, 3, 4])
        lo, step = frng.choice([0, 1]), frng.choice([1, 2])
        cx = centres_of(lo, lo + nx * step, nx)
        ep = shift(rand_iset(frng, grid, 2), mul, off)
        b = frng.choice([U, 2 * U, 4 * U]) * mul
        unit = frng.choice(["s", "ms", "us"])
        mode = frng.choice(["TsGroup", "dict", "TsdFrame"])
        with_feat = frng.random() < 0.5
        fv = [frng.randint(lo - 1, lo + nx * step + 1) for _ in range(frng.randint(2, 7))]
        wd = (shift(-U, mul, off), shift(17 * U, mul, off))
        inp = {"ep": ep, "b": b, "units_name": unit, "mode": mode, "centres": cx, "fv": fv if with_feat else None, "units": []}
        res.count("form:decode_empty_group=" + mode)
        res.case(("decode_empty_group", n), nontrivial=True)
        epo = checked_iset(res, nap, ep, frng.choice(EP_FORMS), inp, "ep")
        g = nap.TsGroup({}, time_support=iset_obj(nap, [wd]))
        grp = g if mode == "TsGroup" else {} if mode == "dict" else g.count(b / 1e9, epo)
        kw = {}
        if with_feat:
            kw["feature"] = nap.Tsd(G.arr([shift(i * U, mul, off) for i in range(len(fv))]), np.array(fv, dtype=float), time_support=iset_obj(nap, [wd]))
        try:
            dec, p = nap.decode_1d(pd.DataFrame(index=cx), grp, epo, b / {"s": 1e9, "ms": 1e6, "us": 1e3}[unit], unit, **kw)
            tt = [C.to_ns(x) for x in p.t]
            P = np.asarray(p.values, dtype=float).reshape(len(tt), nx)
        except Exception as ex:
            res.count("form:decode_empty_group_refused=" + type(ex).__name__)
            continue
        rows = decode_rows(ep, b, [])
        occ = [sum(1 for v in fv if obin(v, lo, lo + nx * step, nx) == k) for k in range(nx)] if with_feat else [1] * nx
        if len(tt) != len(rows) or not all(abs(2 * t - r[0]) <= 1 for t, r in zip(tt, rows)):
            res.violations.append({"key": {"op": "decode_1d", "part": "time_bins", "empty_group": True}, "what": "posterior time axis is not the bin grid of count(bin_size, ep)", "input": inp, "impl": tt,
                                   "expected (2*centre)": [r[0] for r in rows]})
            continue
        tot = sum(occ)
        for ti in range(len(tt)):
            good = bool(np.all(np.isnan(P[ti]))) if tot == 0 else bool(np.all(np.abs(P[ti] - np.array(occ, dtype=float) / tot) <= 1e-12))
            if not good:
                res.violations.append({"key": {"op": "decode_1d", "part": "posterior", "empty_group": True}, "what": "without any unit the posterior must be the normalised prior", "input": inp,
                                       "impl": P[ti].tolist(), "expected": [o / tot if tot else None for o in occ]})
                break


def decode_pipeline(res, tier, frng, nap):
    """multi-step history: the tuning curves RETURNED by compute_1d_tuning_curves / compute_2d_tuning_curves are handed as they are (DataFrame with float-centre index and unit-key
    columns; dict + list of centre arrays) to decode_1d / decode_2d, with the same live group (or its restriction, its dict, its counts) and the same live feature as occupancy prior.
    The rates are the returned floats taken as exact rationals; cases whose curves are not positive everywhere are outside the quantifier and skipped.  Statement oracle only."""
    grid = [i * U for i in range(16)]
    done = 0
    for n in range(50 if tier == "quick" else 400):
        mul, off = draw_frame(frng)
        two = frng.random() < 0.4
        nx, ny = (2, 2) if two else (frng.choice([2, 3]), 1)
        k = 8
        ft = [2 * i * U for i in range(k)]
        cells = [(i, j) for i in range(nx) for j in range(ny)]
        rows_f = cells + [frng.choice(cells) for _ in range(k - len(cells))]
        frng.shuffle(rows_f)
        nu = frng.choice([1, 2, 3])
        keys = list(frng.choice(KEYSETS))[:nu]
        units = [sorted(grid + [frng.choice(grid) for _ in range(frng.randint(0, 5))]) for _ in range(nu)]
        ep = rand_iset(frng, grid, 2)
        b = frng.choice([U, 2 * U, 2 * U, 4 * U])
        ft, units, ep, b = shift(ft, mul, off), shift(units, mul, off), shift(ep, mul, off), b * mul
        wd = (shift(-U, mul, off), shift(17 * U, mul, off))
        unit = frng.choice(["s", "ms", "us"])
        mode = frng.choice(["TsGroup", "restricted", "dict", "TsdFrame"])
        with_feat = frng.random() < 0.6
        inp = {"ft": ft, "feature_rows": rows_f, "units": dict(zip(keys, units)), "ep": ep, "b": b, "units_name": unit, "mode": mode, "with_feat": with_feat, "two": two, "frame": frame_name(mul, off)}
        sup = iset_obj(nap, [wd])
        g = nap.TsGroup({kk: nap.Ts(G.arr(sp)) for kk, sp in zip(keys, units)}, time_support=sup)
        epo = iset_obj(nap, ep)
        op = "decode_2d" if two else "decode_1d"
        res.case(("decode_pipeline", n), nontrivial=True)
        try:
            if two:
                feat = nap.TsdFrame(G.arr(ft), np.array(rows_f, dtype=float), time_support=sup, columns=["x", "y"])
                tc, xy = nap.compute_2d_tuning_curves(g, feat, (nx, ny), minmax=(0, nx, 0, ny))
                vals = {kk: np.asarray(tc[kk], dtype=float).reshape(-1) for kk in tc}
                cen = [(float(x), float(y)) for x in xy[0] for y in xy[1]]
            else:
                feat = nap.Tsd(G.arr(ft), np.array([r[0] for r in rows_f], dtype=float), time_support=sup)
                tc = nap.compute_1d_tuning_curves(g, feat, nx, minmax=(0, nx))
                vals = {kk: tc[kk].values.astype(float) for kk in tc.columns}
                cen = [float(x) for x in tc.index]
            if sorted(vals) != sorted(keys) or not all(np.all(np.isfinite(v)) and np.all(v > 0) for v in vals.values()):
                res.count("form:pipeline_skipped_not_positive")
                continue
            grp = g if mode == "TsGroup" else g.restrict(epo) if mode == "restricted" else dict(g.items()) if mode == "dict" else g.count(b / 1e9, epo)
            kw = {"time_units": unit}
            if with_feat:
                kw["features" if two else "feature"] = feat
            bs = b / {"s": 1e9, "ms": 1e6, "us": 1e3}[unit]
            if two:
                dec, p = nap.decode_2d(tc, grp, epo, bs, xy, **kw)
                tt = [C.to_ns(x) for x in dec.t]
                P = np.asarray(p, dtype=float).reshape(len(tt), nx * ny)
                dv = [tuple(float(v) for v in r) for r in dec.values]
            else:
                dec, p = nap.decode_1d(tc, grp, epo, bs, **kw)
                tt = [C.to_ns(x) for x in p.t]
                P = np.asarray(p.values, dtype=float).reshape(len(tt), nx)
                dv = [float(v) for v in dec.values]
        except Exception as ex:
            res.violations.append({"key": {"op": op, "part": "exception", "exception": type(ex).__name__, "pipeline": True}, "what": "tuning curves -> decode raised %s: %s" % (type(ex).__name__, str(ex)[:80]), "input": inp})
            continue
        done += 1
        res.count("form:pipeline=%s/%s" % (op, mode))
        skeys = sorted(keys)
        rates = [[Fr(float(vals[kk][i])) for kk in skeys] for i in range(nx * ny)]
        rows = decode_rows(ep, b, [units[keys.index(kk)] for kk in skeys])
        occ = [sum(1 for r in rows_f if r == cell) for cell in cells] if with_feat else [1] * (nx * ny)
        tot = sum(occ)
        if len(tt) != len(rows) or not all(abs(2 * t - r[0]) <= 1 for t, r in zip(tt, rows)):
            res.violations.append({"key": {"op": op, "part": "time_bins", "pipeline": True}, "what": "posterior time axis is not the bin grid of count(bin_size, ep)", "input": inp, "impl": tt,
                                   "expected (2*centre)": [r[0] for r in rows]})
            continue
        for ti, (_, cnt) in enumerate(rows):
            wl = [Fr(o, tot) * math.prod(r ** q for r, q in zip(rates[i], cnt)) for i, o in enumerate(occ)]
            ex = [Fr(b, 10**9) * sum(rates[i]) for i in range(nx * ny)]
            res.evaluations += 1
            if not post_check(P[ti], wl, ex):
                res.violations.append({"key": {"op": op, "part": "posterior", "pipeline": True, "group": mode}, "what": "posterior is not the normalised prior(occupancy) x exp(-bin_size x sum of rates) x prod rate^count "
                                       "for the tuning curves returned by compute_%dd_tuning_curves" % (2 if two else 1), "input": dict(inp, count=cnt), "impl": P[ti].tolist()})
                break
            lw = [math.log(w.numerator) - math.log(w.denominator) - float(e) for w, e in zip(wl, ex)]
            near = [i for i, v in enumerate(lw) if max(lw) - v < 1e-9]
            got = cen.index(dv[ti]) if dv[ti] in cen else None
            if got is None or got not in near or got != int(np.argmax(P[ti])):
                res.violations.append({"key": {"op": op, "part": "argmax", "pipeline": True}, "what": "decoded value is not the centre of the bin where the posterior is maximal", "input": dict(inp, count=cnt),
                                       "impl": dv[ti], "expected": [cen[i] for i in near]})
                break
    res.extra["decode_pipeline_cases_judged"] = done


def decode_occ_law(res):
    # the occupancy prior of decode_1d rebuilds the bin edges from the centres
    lines = []
    meta = []
    for lo, hi, nb in [(0, 4, 2), (0, 3, 3), (1, 3, 4), (0, 6, 3), (0, 2, 1), (1, 5, 2)]:
        fv = list(range(lo - 1, hi + 2))
        lines.append("decode_occ\t%d %d %d\t%s" % (lo, hi, nb, C.fmt_ints(fv)))
        meta.append((lo, hi, nb, fv))
    for (lo, hi, nb, fv), o in zip(meta, C.run_model(lines, driver="driver_c17")):
        exp = None if nb < 2 else [sum(1 for v in fv if obin(v, lo, hi, nb) == k) for k in range(nb)]
        got = None if o.split("|")[0] == "none" else [int(v) for v in o.split("|")[0].split()]
        res.case(("decode_occ", lo, hi, nb), nontrivial=True)
        if got != exp:
            res.disagreements.append({"op": "decode_occ", "input": [lo, hi, nb, fv], "model": got, "expected": exp})


FORMS_RULE = (" (4) ARGUMENT FORMS (separate seeded streams; same oracles; the extracted model runs on every form, with a NaN / infinite feature value presented to it as an out-of-range integer, "
              "and is skipped only for NaN / infinite signal values, the empty group and the tuning-curve -> decode pipeline): every public operation is also called on the same kind of cases with, drawn independently per case: "
              "[time placement] the lattice 2^-9 s, 125 ms or 1 s, origin 0 / straddling 0 / all negative / 1e5 s away; "
              "[time forms] every Ts / Tsd / TsdFrame / IntervalSet built from a float64 ndarray, list (of int when whole seconds), tuple, another object's TsIndex, its .t, a pandas Index / Series / DataFrame, "
              "float32, ms and us floats, int64 ms, uint64 us, uint8 / int32 s, Python int / numpy scalar / 0-d array interval ends, array of pairs, copy of an IntervalSet, IntervalSet with metadata, the result of intersect / union / save+load; "
              "[data dtypes] feature values, signal values, pre-binned counts and tuning curves as float64 / float32 / int64..int8 / uint8..uint64 / bool / Python list where the dtype holds the values exactly; "
              "feature values NaN / +inf / -inf (explicit minmax: they fall in no bin), all-equal and all-zero features; signal values NaN, +inf, -inf (mean = that infinity; NaN when both signs), 0 / 1 sample signals; "
              "[classes] group = TsGroup of Ts / Tsd / mixed, keys int / str / float / np.int64 in given / sorted / reversed insertion order, key sets not 0..n-1 and multi-digit, built from dict / list / raw arrays with time_units / with metadata / "
              "bypass_check=True / default time support / restricted / sliced from a larger group / saved and loaded; 0, 1 or 3 units; feature = Tsd / one-column TsdFrame (default / named column); 2-d features and signals with default, string, "
              "permuted-integer ([1,0]) and non-0..n-1 ([5,2]) column labels; signal = Tsd / one-column / two-column TsdFrame / the feature object itself (shared memory); decode group = TsGroup / dict (str, float keys; Tsd members) / "
              "pre-binned TsdFrame (count(dtype=), rebuilt with another dtype / string columns, restricted / multiplied by 1 / sliced / saved and loaded); "
              "[call forms] every parameter positionally and by keyword (all-keyword shuffled / maximal positional / random positional prefix), optional parameters left out, at an explicit None when None is the documented default, and given; "
              "minmax as tuple / list / int, float64 and float32 ndarray / numpy scalars / floats; nb_bins int, tuple, np.int64 (undocumented: a clean TypeError / ValueError is accepted, an answer must satisfy the statement); "
              "bin_size Python float / np.float64 / Python int, and np.float32 / np.int64 / 0-d array (undocumented: same rule); time_units s / ms / us by keyword, positionally and left out; xy tuple / list / float32 arrays; "
              "tuning curves float64 / int64 / float32 with float or integer centres; "
              "[degenerate] empty ep, one feature sample, up to 5 intervals, empty dict_ep, empty group (decode: posterior = prior), [histories] input objects after restrict / * 1 / np.abs / [0:n] / save+load, the same live objects "
              "used for a second identical call (answers must be identical), the tuning curves RETURNED by compute_1d/2d_tuning_curves handed as they are to decode_1d/2d with the same live group and feature. "
              "Every input object built in another form is first compared with the case (instants, values, support, labels): a mismatch is reported under op=input_form. Counts per class: distribution keys 'form:*'.")


# ----------------------------------------------------------------------------------------------------------------
def run(res, tier, seed):
    nap = _nap()
    warnings.simplefilter("ignore")
    res.rule = ("(1) oracle laws: np.histogram / histogram2d / digitize vs the executable hist / bin_of / dig / hist2d on ALL (lo, width, nb<=4) with a dyadic step and all values on the half-integer "
                "lattice around [lo,hi] incl. every edge [complete]; (2) public API, seeded random on the dyadic time lattice 2^-9 s (12 points; feature samples on even points so that "
                "spikes are on samples, midway between samples (equidistant) and on epoch ends): compute_discrete_tuning_curves (1-3 epoch sets, <=3 intervals each), compute_1d/2d_tuning_curves and "
                "the continuous variants (feature with 2-4 samples incl. duplicate timestamps, values 0..3 incl. interior edges and the last edge, feature support with a gap, ep None / 1-3 intervals, "
                "nb 1..4, explicit and inferred minmax, 3 units: every lattice alignment with duplicates / random subset / silent or outside; the continuous variants with integer signal values and, in 1 case of 5, "
                "1-2 NaN signal values [statement oracle only: the extracted model has no NaN]), decode_1d/2d (TsGroup, dict, pre-binned TsdFrame; s/ms/us; "
                "uniform and occupancy prior; 1-3 units; identical bins; equal summed rates; unit keys: same sequence in tuning curves and group / group built in a permuted insertion order / tuning-curve columns "
                "permuted / one key different); (3) compute_1d_tuning_curves on a COMPLETE small space (all 2-3 sample features on 4 lattice points x values {0,1,2} x all canonical "
                "epoch sets of 1-2 intervals on 6 points, a unit firing at every lattice point: 4860 cases; complete in thorough, seeded sample of 500 in quick). Each case: extracted model vs implementation AND brute-force statement oracle on the implementation's output "
                "(tuning curves: tc x occupancy / feature.rate must be a count vector reachable by SOME admissible attribution, all enumerated; continuous: the values must be the per-bin means of SOME admissible attribution, "
                "NaN where the bin is unvisited / holds no sample / holds a NaN; decode: units paired by key). "
                "non-trivial = at least one spike/sample inside ep and a visited bin (decode: a non-zero count); distinct = distinct case index x unit")
    res.rule += FORMS_RULE
    res.exhaustive = False
    rng = random.Random(seed * 31 + 17)
    part_hist(res, tier)
    part_discrete(res, tier, rng, nap)
    part_tc1d(res, tier, rng, nap)
    part_tc1d_complete(res, tier, rng, nap)
    part_tc2d(res, tier, rng, nap)
    part_cont(res, tier, rng, nap)
    part_decode(res, tier, rng, nap)
    # (4) argument forms: separate seeded streams, so that the cases above are the same as before the widening
    try:
        part_discrete_forms(res, tier, random.Random(seed * 37 + 1), nap)
        part_tc1d_forms(res, tier, random.Random(seed * 37 + 2), nap)
        part_tc2d_forms(res, tier, random.Random(seed * 37 + 3), nap)
        part_cont_forms(res, tier, random.Random(seed * 37 + 4), nap)
        part_decode_forms(res, tier, random.Random(seed * 37 + 5), nap)
    finally:
        _cleanup_tmp()


def search(res, seed):
    r2 = C.Result()
    run(r2, "thorough", seed)
    new = [v for v in r2.violations if C.match_known("C17", v) is None]
    return new[0] if new else None


def replay(payload):
    """re-run the recorded input on the current tree and print both sides"""
    nap = _nap()
    warnings.simplefilter("ignore")
    v = payload.get("violation") or (payload.get("disagreements") or [{}])[0]
    inp = v.get("input", {})
    op = (v.get("key") or {}).get("op") or v.get("op")
    print("op", op)
    print("input", inp)
    print("recorded implementation output:", v.get("impl"))
    print("recorded expectation          :", v.get("expected", v.get("expected per bin (first admissible attribution)", v.get("expected (n, sum) per bin"))))
    if op == "compute_1d_tuning_curves_continuous" and "st" in inp:
        wide = iset_obj(nap, [(-U, 12 * U)])
        sv = [float("nan") if i in (inp.get("nan_at") or []) else float(v) for i, v in enumerate(inp["sv"])]
        sig = nap.Tsd(G.arr(inp["st"]), np.array(sv, dtype=float), time_support=wide)
        feat = nap.Tsd(G.arr(inp["ft"]), np.array(inp["fx"], dtype=float), time_support=iset_obj(nap, [tuple(x) for x in inp["fsup"]]))
        kw = {}
        if inp.get("ep") is not None:
            kw["ep"] = iset_obj(nap, [tuple(x) for x in inp["ep"]])
        if inp.get("minmax") is not None:
            kw["minmax"] = tuple(inp["minmax"])
        tc = nap.compute_1d_tuning_curves_continuous(sig, feat, inp["nb_bins"], **kw)
        print("current implementation output:", tc.values[:, 0].tolist())
        lo, hi = (inp["minmax"] if inp.get("minmax") else (min(inp["fx"]), max(inp["fx"])))
        ep = [tuple(x) for x in (inp.get("ep") or inp["fsup"])]
        nb = inp["nb_bins"]
        rows = [(x, 0) for x in inp["fx"]]
        if inp.get("minmax") is None:
            vin = [x for t, x in zip(inp["ft"], inp["fx"]) if G.mem(t, ep)]
            lo, hi = min(vin), max(vin)
        keep = [i for i, t in enumerate(inp["st"]) if G.mem(t, ep)]
        chs = [choices(inp["st"][i], inp["ft"], rows, ep) for i in keep]
        occ = [sum(1 for t, r in zip(inp["ft"], rows) if G.mem(t, ep) and obin(r[0], lo, hi, nb) == k) for k in range(nb)]
        ok, ds, first = cont_judge({"p": tc.values[:, 0].astype(float)}, {"p": [sv[i] for i in keep]}, chs,
                                   lambda r: None if r is None else obin(r[0], lo, hi, nb), occ, lambda r: r[0] == hi)
        print("statement, per bin           :", first["p"] if first else None)
        print("holds:", ok, " known deviations that explain the output:", ds)
        return 0 if ok else 1
    r2 = C.Result()
    run(r2, "quick", int(payload.get("seed", 0) or 0))
    same = [x for x in r2.violations if x.get("key") == v.get("key")]
    print("violations with the same key on the current tree (quick tier):", len(same))
    return 1 if same else 0
