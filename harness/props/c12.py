"""C12 a TsGroup is a consistent keyed collection on one time support."""
import itertools
import math
import random
import warnings

import numpy as np

import common as C
import gen as G

LEVEL = "proof"
DRIVERS = ["driver_c12"]
TRUSTED = ["model: coq/Model/Group.v (mk_group: key conversion / uniqueness / sort / union of supports / member restriction; Ts constructor incl. the empty-series rule; "
           "select_keys, masks, getby_*, g_restrict, g_get, merge_group (as repaired) and merge_group_orig, to_tsd, to_tsgroup, rate, step/trace) over Model/Iset.v, Restrict.v, "
           "Slice.v, Count.v, ValueFrom.v; theorems: Proofs/GroupProofs.v (reusing RestrictProofs, UnionProofs, C02Top, C01Top, SliceProofs, CountProofs)",
           "the model is the library AS REPAIRED by two proposed fixes (_union_intervals: n-ary kernel for two members too; merge_group: shapes of the supports compared "
           "before np.allclose); the earlier behaviours are kept as union_supports_orig / merge_group_lax with _refuted witnesses",
           "metadata is one integer column 'tag' supplied as a DataFrame indexed by the sorted integer keys (attachment of metadata is C13's)",
           "python's int()/float() on the supplied keys is abstracted as rawkey (int / numeric string / rejected by int() / float with or without a fraction)",
           "np.argsort in to_tsd is modelled as a stable sort; the round trip does not depend on the order of equal timestamps (proved: filter commutes with the sort)"]
ASSUMPTIONS = ["members are built with >= 2 distinct timestamps or an explicit support (a single-timestamp series has an empty default support: known quirk)",
               "time supports compared by merge_group differ by 0 or by more than 1 ns (np.allclose with atol=1e-9 is float-ambiguous at exactly 1 ns)",
               "the rate clause is not evaluated when the group's support has zero total duration (len / 0 is not a number the statement fixes)",
               "keys that have no integer value, or two keys with the same integer value, must be rejected with SOME exception (the statement fixes no exception type)",
               "off-lattice samples sit 300-500 ns before a touching endpoint, never exactly on a 1 us-trimmed end (the float of `end - 1e-6` may be one ulp off the tick: DESIGN.md section 2)"]

U = 1953125  # 2^-9 s in ticks

# python key object, (kind, value) for the model: kind 0 int, 1 numeric string, 2 rejected by int(), 3 float, 4 float with a fraction
KEYS = [("7", (1, 7)), (2.0, (3, 2)), (5, (0, 5)), (0, (0, 0)), (-3, (0, -3)), ("10", (1, 10)), ("100", (1, 100))]
KEYS2 = [(1, (0, 1)), ("9", (1, 9)), (4.0, (3, 4)), (8, (0, 8)), (5, (0, 5)), (-3, (0, -3)), ("12", (1, 12))]
BADKEYS = [("a", (2, 0)), ("2.0", (2, 0)), (2.5, (4, 2)), (-2.5, (4, -2)), (None, (2, 0))]

# member templates: (name, kind, timestamps, support) in units of U.  kind 0 Ts(t, support) 1 raw array 2 Ts(t) 4 Tsd(t, d, support)
TEMPL = [
    ("A", 0, [0, 2, 4], [(0, 4)]),
    ("B", 0, [3, 5], [(2, 6)]),            # overlaps A
    ("C", 0, [4, 6, 8], [(4, 8)]),         # touches A at 4
    ("D", 0, [10, 11, 12], [(10, 12)]),    # disjoint
    ("E", 0, [], [(0, 4)]),                # no sample: the member's support is empty whatever is passed
    ("F", 0, [1, 1, 3], [(0, 4)]),         # same support as A, duplicates
    ("G", 0, [1, 6], [(0, 2), (5, 7)]),    # two intervals
    ("H", 2, [2, 9], None),                # default support [2, 9]
    ("I", 1, [3, 7, 7], None),             # raw array
    ("J", 0, [0, 5, 9], [(0, 4)]),         # samples outside its own support dropped by Ts()
    ("K", 4, [1, 5, 11], [(0, 12)]),       # a Tsd
    ("L", 0, [0, 2, (4, -500)], [(0, 4)]),  # a sample 0.5 us before its support's end, which touches C's start
    ("M", 0, [(4, -300)], [((4, -500), 4)]),  # a 0.5 us support that touches C's start (a 1 us trim would erase it)
]
SUPS = [None, [(0, 12)], [(1, 5)], [(3, 5), (9, 11)], []]
OPS = {0: ">", 1: "<", 2: ">=", 3: "<="}


def _nap():
    import pynapple as nap
    return nap


def tk(v):
    """template coordinate -> ticks: n (units of U) or (n, offset in ns)"""
    return v[0] * U + v[1] if isinstance(v, tuple) else v * U


def sc(x):
    return [tk(v) for v in x]


def sci(ep):
    return [(tk(s), tk(e)) for s, e in ep]


def exact_union(sups):
    """the union of closed interval sets as a point set, in canonical form (touching and overlapping intervals are one interval)"""
    ivs = sorted(iv for s in sups for iv in s if iv[0] < iv[1])
    out = []
    for a, b in ivs:
        if out and a <= out[-1][1]:
            out[-1][1] = max(out[-1][1], b)
        else:
            out.append([a, b])
    return [tuple(iv) for iv in out]


def diff_points(A, B):
    """where two sets of closed intervals differ: the doubled coordinates 2x of every endpoint x and of every midpoint between consecutive endpoints
    at which membership differs (exhaustive: membership is constant between consecutive endpoints)"""
    pts = sorted(set(p for S in (A, B) for iv in S for p in iv))
    cand = [2 * p for p in pts] + [p + q for p, q in zip(pts, pts[1:])]
    m2 = lambda x2, S: any(2 * a <= x2 <= 2 * b for a, b in S)
    return sorted(x2 for x2 in cand if m2(x2, A) != m2(x2, B))


def touch_points(sups):
    """instants p that end an interval of one member's support and start an interval of ANOTHER member's support"""
    out = set()
    for i, a in enumerate(sups):
        for j, b in enumerate(sups):
            if i != j:
                out.update(e for _, e in a if any(s == e for s, _ in b))
    return out


def only_touching_trim(x2s, touches):
    """every doubled coordinate lies strictly inside the microsecond that precedes a touching point"""
    return bool(x2s) and all(any(2 * (p - 1000) < x2 < 2 * p for p in touches) for x2 in x2s)


def mk_iset(nap, ep):
    return nap.IntervalSet(G.arr([s for s, _ in ep]), G.arr([e for _, e in ep]))


def ticks_iset(ep):
    return [(C.to_ns(s), C.to_ns(e)) for s, e in ep.values]


def mk_member(nap, kind, t, sup):
    """t, sup in ticks"""
    if kind == 1:
        return G.arr(t)
    if kind == 2:
        return nap.Ts(G.arr(t))
    if kind == 4:
        return nap.Tsd(G.arr(t), np.arange(len(t)) + 50.0, time_support=mk_iset(nap, sup))
    return nap.Ts(G.arr(t), time_support=mk_iset(nap, sup))


class Spec:
    """a group to be constructed: keys (python object, code), tags, members (kind, t, sup) in ticks, support, flags"""

    def __init__(self, keys, tags, members, sup, bypass, hastag=True, islist=False):
        self.keys, self.tags, self.members, self.sup, self.bypass, self.hastag, self.islist = keys, tags, members, sup, bypass, hastag, islist

    def args(self):
        a = ["%d %d %d %d" % (self.sup is not None, self.bypass, self.hastag, self.islist),
             C.fmt_iset(self.sup or []),
             " ".join("%d %d" % c for _, c in self.keys),
             C.fmt_ints(self.tags),
             C.fmt_ints([0 if k == 4 else k for k, _, _ in self.members])]
        for _, t, s in self.members:
            a.append(C.fmt_ints(t))
            a.append(C.fmt_iset(s or []))
        return a

    def desc(self):
        return {"keys": [repr(k) for k, _ in self.keys], "tags": self.tags, "members": [(k, t, s) for k, t, s in self.members], "support": self.sup,
                "bypass_check": self.bypass, "list_input": self.islist}

    def build(self, nap):
        import pandas as pd
        objs = [mk_member(nap, k, t, s) for k, t, s in self.members]
        kw = {}
        if self.sup is not None:
            kw["time_support"] = mk_iset(nap, self.sup)
        if self.islist:
            data = objs
            ik = list(range(len(objs)))
        else:
            data = {k: o for (k, _), o in zip(self.keys, objs)}
            ik = None
        md = None
        if self.hastag:
            if ik is None:
                try:
                    ik = [int(k) for k, _ in self.keys]
                except Exception:
                    ik = None
            if ik is not None and len(set(ik)) == len(ik):
                order = sorted(range(len(ik)), key=lambda i: ik[i])
                md = pd.DataFrame({"tag": [self.tags[i] for i in order]}, index=[ik[i] for i in order])
        return nap.TsGroup(data, bypass_check=self.bypass, metadata=md, **kw), objs


def impl_state(g):
    keys = [int(k) for k in g.keys()]
    hastag = "tag" in g._metadata.columns
    st = {"keys": keys, "sup": ticks_iset(g.time_support), "hastag": hastag,
          "tags": [int(g._metadata["tag"][k]) for k in g.keys()] if hastag else None,
          "index": [int(k) for k in g.index], "mem": []}
    for k in g.keys():
        m = g[k]
        st["mem"].append(([C.to_ns(x) for x in m.t], ticks_iset(m.time_support), float(m.rate), float(g.rates[k])))
    return st


def parse_state(s):
    if s.startswith("ERR"):
        return None
    f = s.split("|")
    ints = lambda x: [int(v) for v in x.split()]
    prs = lambda x: [(a, b) for a, b in zip(ints(x)[0::2], ints(x)[1::2])]
    keys = ints(f[0])
    st = {"keys": keys, "sup": prs(f[1]), "hastag": f[2] == "1", "tags": ints(f[3]), "mem": []}
    for i in range(len(keys)):
        r = f[6 + 3 * i].split()
        st["mem"].append((ints(f[4 + 3 * i]), prs(f[5 + 3 * i]), None if r == ["nan"] else (int(r[0]), int(r[1]))))
    return st


def rate_ok(r, md):
    if md is None:
        return math.isnan(r)
    n, d = md
    return (not math.isnan(r)) and abs(r * d / 1e9 - n) < 1e-6


def states_agree(im, mo):
    """implementation state vs model state"""
    if im is None or mo is None:
        return im is None and mo is None
    if im["keys"] != mo["keys"] or im["sup"] != mo["sup"] or im["hastag"] != mo["hastag"]:
        return False
    if im["hastag"] and im["tags"] != mo["tags"]:
        return False
    for (t, s, r, r2), (mt, ms, mr) in zip(im["mem"], mo["mem"]):
        if t != mt or s != ms or not rate_ok(r, mr) or not rate_ok(r2, mr):
            return False
    return True


def tot(ep):
    return sum(e - s for s, e in ep)


def invariant_viol(st, within=True):
    """statement-level invariants of a group state (implementation side); returns None or (part, description, extra key fields).
    within = the group does not descend (through get only) from a construction that opted out of the restriction"""
    k = st["keys"]
    if k != sorted(set(k)) or st["index"] != k:
        return ("invariant", "keys are not the strictly increasing integers of the index", {})
    if not G.canonical(st["sup"]):
        return ("invariant", "time support is not canonical", {})
    for key, (t, s, r, r2) in zip(k, st["mem"]):
        if t != sorted(t):
            return ("invariant", "member %d not sorted" % key, {})
        if within and any(not G.mem(x, st["sup"]) for x in t):
            return ("invariant", "member %d has a sample outside the group's time support" % key, {})
        if not (math.isnan(r) and math.isnan(r2)) and r != r2:
            return ("invariant", "rate column differs from the member's rate for key %d" % key, {})
        if t and tot(st["sup"]) > 0 and not rate_ok(r2, (len(t), tot(st["sup"]))):
            return ("rate", "rate[%d] != len / total support duration" % key, {"bypass_check": not within, "member_support_is_group_support": bool(s == st["sup"])})
    return None


# --------------------------------------------------------------------------------------
# construction
def construction_specs(tier, rng):
    specs = []
    nt = len(TEMPL)

    def member(i):
        _, kind, t, s = TEMPL[i]
        return (kind, sc(t), None if s is None else sci(s))
    # (a) every ordered tuple of 1..4 keys of the pool, dict input; templates rotate with the case number
    c = 0
    for n in range(1, 5):
        for ks in itertools.permutations(range(len(KEYS)), n):
            for sup in (None, [(1, 5)]):
                for bypass in (False, True):
                    for rot in ((0, 1) if tier == "thorough" else (c % 2,)):
                        tm = [(c + rot * 5 + 3 * j) % nt for j in range(n)]
                        specs.append(("keys", Spec([KEYS[i] for i in ks], [(c + j) % 4 for j in range(n)], [member(i) for i in tm],
                                                   None if sup is None else sci(sup), bypass, hastag=(c % 3 != 0))))
                    c += 1
    # (b) every tuple of member templates (supports disjoint / overlapping / touching / identical / empty), every support choice
    tuples = []
    for n in (1, 2, 3):
        tuples += list(itertools.product(range(nt), repeat=n))
    extra = [tuple(rng.randrange(nt) for _ in range(4)) for _ in range(60 if tier == "quick" else 600)]
    if tier == "quick":
        small = [t for t in tuples if len(t) <= 2]
        tuples = small + rng.sample([t for t in tuples if len(t) == 3], 150)
    for tm in tuples + extra:
        n = len(tm)
        for si, sup in enumerate(SUPS):
            for bypass in (False, True):
                if tier == "quick" and n >= 3 and (si + bypass + sum(tm)) % 3:
                    continue
                order = list(range(len(KEYS)))
                rng.shuffle(order)
                islist = (sum(tm) + si) % 4 == 0
                specs.append(("supports", Spec([KEYS[i] for i in order[:n]], [rng.randrange(4) for _ in range(n)], [member(i) for i in tm],
                                               None if sup is None else sci(sup), bypass, islist=islist)))
    # (c) keys that must be rejected: non-numeric, fractional, two keys with the same integer value
    for bad in BADKEYS:
        for pos in (0, 1):
            ks = [KEYS[2], KEYS[4]]
            ks.insert(pos, bad)
            specs.append(("badkeys", Spec(ks, [0, 1, 2], [member(0), member(1), member(3)], None, False, hastag=False)))
    for dup in ([("5", (1, 5)), (5, (0, 5))], [(5.0, (3, 5)), ("5", (1, 5))], [(0, (0, 0)), ("0", (1, 0)), (2, (0, 2))], [("-3", (1, -3)), (-3.0, (3, -3))]):
        specs.append(("badkeys", Spec(dup, list(range(len(dup))), [member(j) for j in range(len(dup))], None, False, hastag=False)))
    return specs


def check_construction(nap, res, spec, model_line, part):
    inp = spec.desc()
    mo = parse_state(model_line)
    try:
        g, objs = spec.build(nap)
        im = impl_state(g)
        err = None
    except Exception as ex:
        g, im, err = None, None, ex
    # what the statement expects, from the inputs alone
    try:
        ik = list(range(len(spec.members))) if spec.islist else [int(k) for k, _ in spec.keys]
        valid = spec.islist or all(float(k) == int(k) for k, _ in spec.keys)
    except Exception:
        ik, valid = None, False
    if ik is not None and len(set(ik)) != len(ik):
        valid = False
    nontrivial = valid and len(spec.members) >= 2 and (ik != sorted(ik) or part != "keys")
    res.case((part, str(inp)), nontrivial=bool(nontrivial))
    res.count(part)
    res.count("n_members=%d" % len(spec.members))
    if not states_agree(im, mo):
        res.disagreements.append({"op": "TsGroup()", "input": inp, "impl": im if im is not None else repr(err), "model": model_line})
    if not valid:
        res.count("rejected_keys")
        if err is None:
            res.violations.append({"key": {"op": "init", "part": "bad_keys"}, "what": "keys that are not distinct integer values were accepted", "input": inp, "impl": im["keys"]})
        else:
            res.count("rejected_with_" + type(err).__name__)
        return None
    # member objects as supplied (their own timestamps / supports)
    built = [mk_member(nap, k, t, s) for k, t, s in spec.members]
    if spec.sup is None:
        msup = []
        for o, (k, t, s) in zip(built, spec.members):
            if k == 1:
                msup.append([(t[0], t[-1])] if t and t[0] < t[-1] else [])
            else:
                msup.append(ticks_iset(o.time_support))
        union_empty = not any(msup)
    else:
        union_empty = False
    if err is not None:
        if spec.sup is None and union_empty and isinstance(err, RuntimeError):
            res.count("empty_union_rejected")
            return None
        res.violations.append({"key": {"op": "init", "part": "exception"}, "what": "TsGroup() raised %s on valid input" % type(err).__name__, "input": inp, "impl": repr(err)})
        return None
    order = sorted(range(len(ik)), key=lambda i: ik[i])
    kk = {"op": "init", "bypass_check": bool(spec.bypass), "explicit_support": spec.sup is not None}
    # 1. keys
    if im["keys"] != sorted(ik) or im["index"] != sorted(ik):
        res.violations.append({"key": dict(kk, part="keys"), "what": "keys are not the integer values of the supplied keys in increasing order", "input": inp,
                               "impl": im["keys"], "expected": sorted(ik)})
        return g
    # 2. support: the one supplied, else EXACTLY the union (as a point set) of the members' supports
    touches = set()
    two = len(spec.members) == 2
    if spec.sup is not None:
        want = list(spec.sup)
        if im["sup"] != spec.sup:
            res.violations.append({"key": dict(kk, part="support"), "what": "the time support is not the one supplied", "input": inp, "impl": im["sup"], "expected": spec.sup})
    else:
        sups = [msup[i] for i in order]
        want = exact_union(sups)
        touches = touch_points(sups)
        if touches:
            res.count("union_of_touching_supports(n=%s)" % ("2" if two else "3+"))
        bad = diff_points(im["sup"], want)
        if bad or not G.canonical(im["sup"]):
            res.violations.append({"key": dict(kk, part="support_union", two_members_touching_supports=bool(two and only_touching_trim(bad, touches))),
                                   "what": "the time support is not the union of the members' supports", "input": inp,
                                   "impl": im["sup"], "expected": "%s = union of %s (differs at ns %s)" % (want, sups, [x / 2 for x in bad[:3]])})
    # 3. members restricted to the support the statement fixes (or untouched when the caller opts out); 4. rate
    for j, i in enumerate(order):
        o = built[i]
        src = [C.to_ns(x) for x in (o if spec.members[i][0] == 1 else o.t)]
        if spec.members[i][0] == 1 and spec.sup is not None:
            src = [x for x in src if G.mem(x, spec.sup)]   # raw arrays become Ts(t, time_support = the supplied support)
        exp = src if spec.bypass else [x for x in src if G.mem(x, want)]
        got, gs, r, r2 = im["mem"][j]
        if got != exp:
            lost = [x for x in exp if x not in got]
            res.violations.append({"key": dict(kk, part="members", two_members_touching_supports=bool(two and lost and [x for x in exp if x in got] == got
                                                                                                     and only_touching_trim([2 * x for x in lost], touches))),
                                   "what": "member %d is not the supplied member %s" % (im["keys"][j], "as given" if spec.bypass else "restricted to the group's support"),
                                   "input": inp, "impl": got, "expected": exp})
        if got and tot(im["sup"]) > 0:
            if spec.bypass and gs != im["sup"]:
                res.count("bypass_member_keeps_own_support")
            if not rate_ok(r2, (len(got), tot(im["sup"]))):
                res.violations.append({"key": dict(kk, part="rate", member_support_is_group_support=bool(gs == im["sup"])),
                                       "what": "rate[%d] != len(member) / total support duration" % im["keys"][j], "input": inp,
                                       "impl": r2, "expected": "%d / (%d ns)" % (len(got), tot(im["sup"]))})
        elif got:
            res.count("rate_not_evaluated(zero-duration support)")
        if spec.hastag and im["tags"][j] != spec.tags[i]:
            res.disagreements.append({"op": "TsGroup() tags", "input": inp, "impl": im["tags"], "expected": [spec.tags[q] for q in order]})
    return g


# --------------------------------------------------------------------------------------
# histories
def rand_spec(rng, pool, sup, nmax=4, bypass_p=0.12, hastag_p=0.93):
    n = rng.randint(1, nmax)
    order = list(range(len(pool)))
    rng.shuffle(order)
    mem = []
    for _ in range(n):
        _, kind, t, s = TEMPL[rng.randrange(len(TEMPL))]
        mem.append((kind, sc(t), None if s is None else sci(s)))
    return Spec([pool[i] for i in order[:n]], [rng.randrange(4) for _ in range(n)], mem, sup, rng.random() < bypass_p, hastag=rng.random() < hastag_p)


EPS = [[(0, 12)], [(1, 5)], [(3, 5), (9, 11)], [], [(0, 4), (6, 12)], [(2, 3)], [(4, 10)]]


class Shadow:
    """generator-side bookkeeping of the current keys / tags / support, used ONLY to draw operations that mostly succeed
    (it shapes the input distribution; it is not an oracle: a wrong guess just yields an operation that raises on both sides)"""

    def __init__(self, spec):
        try:
            ik = [int(k) for k, _ in spec.keys]
        except Exception:
            ik = []
        self.tags = dict(zip(ik, spec.tags))
        self.keys = sorted(self.tags)
        self.hastag = spec.hastag
        self.sup = None if spec.sup is None else tuple(spec.sup)

    def apply(self, op, aux):
        k = op[0]
        if k == "keys":
            if all(x in self.keys for x in op[1]) and len(set(op[1])) == len(op[1]):
                self.keys = sorted(op[1])
        elif k == "mask":
            if len(op[1]) == len(self.keys):
                self.keys = [x for x, m in zip(self.keys, op[1]) if m]
        elif k in ("thr", "cat", "int") and self.hastag:
            tg = [self.tags.get(x, 0) for x in self.keys]
            if k == "thr":
                f = {0: lambda x: x > op[2], 1: lambda x: x < op[2], 2: lambda x: x >= op[2], 3: lambda x: x <= op[2]}[op[1]]
                self.keys = [x for x, t in zip(self.keys, tg) if f(t)]
            elif k == "cat":
                sel = [x for x, t in zip(self.keys, tg) if t == op[1]]
                self.keys = sel or self.keys
            else:
                cl = [[x for x, t in zip(self.keys, tg) if op[1][i] <= t < op[1][i + 1]] for i in range(len(op[1]) - 1)]
                cl = [c for c in cl if c]
                if op[2] < len(cl):
                    self.keys = cl[op[2]]
        elif k == "restrict":
            self.sup = tuple(op[1])
        elif k == "rt":
            self.hastag = False
        elif k == "msplit":
            if len(op[1]) == len(self.keys) == len(op[2]):
                a = [x for x, m in zip(self.keys, op[1]) if m]
                b = [x for x, m in zip(self.keys, op[2]) if m]
                if op[3]:
                    self.keys = list(range(len(a) + len(b)))
                    self.tags = {}
                elif not set(a) & set(b):
                    self.keys = sorted(a + b)
                else:
                    return
                if op[5]:
                    self.hastag = False
        elif k == "mwith":
            ok = (op[4] or self.hastag == aux.hastag) and (op[3] or (self.sup is not None and self.sup == aux.sup))
            if ok and op[2]:
                self.keys = list(range(len(self.keys) + len(aux.keys)))
                self.tags = {}
            elif ok and not set(self.keys) & set(aux.keys):
                self.keys = sorted(self.keys + aux.keys)
                self.tags.update(aux.tags)
            else:
                return
            if op[4]:
                self.hastag = False


def rand_op(rng, sh, keypool):
    r = rng.random()
    fl = lambda p: int(rng.random() < p)
    n = len(sh.keys)
    tg = sorted(set(sh.tags.get(x, 0) for x in sh.keys)) or [0]
    if r < 0.14:
        if rng.random() < 0.8 and n:
            ks = rng.sample(sh.keys, rng.randint(0, min(3, n)))
        else:
            ks = [rng.choice(keypool) for _ in range(rng.randint(0, 3))]
        return ("keys", ks)
    if r < 0.26:
        m = n if rng.random() < 0.92 else n + 1
        return ("mask", [fl(0.7) for _ in range(m)])
    if r < 0.36:
        return ("thr", rng.randrange(4), rng.randrange(4))
    if r < 0.43:
        return ("cat", rng.choice(tg) if rng.random() < 0.85 else rng.randrange(4))
    if r < 0.50:
        return ("int", rng.choice([[0, 2, 4], [1, 2, 3], [0, 1], [2, 5, 7], [0, 4]]), 0 if rng.random() < 0.7 else 1)
    if r < 0.62:
        return ("restrict", sci(rng.choice(EPS)))
    if r < 0.72:
        a, b = rng.randrange(-1, 13), rng.randrange(-1, 13)
        if rng.random() < 0.93 and a > b:
            a, b = b, a
        return ("get", a * U, b * U)
    if r < 0.80:
        return ("rt",)
    if r < 0.90:
        m1 = [fl(0.5) for _ in range(n)]
        m2 = [1 - x if rng.random() < 0.9 else x for x in m1]
        return ("msplit", m1, m2, fl(0.2), fl(0.3), fl(0.5))
    return ("mwith", fl(0.5), fl(0.25), fl(0.35), fl(0.5))


def op_args(op):
    k = op[0]
    if k == "keys":
        return ["0", C.fmt_ints(op[1]), ""]
    if k == "mask":
        return ["1", C.fmt_ints(op[1]), ""]
    if k == "thr":
        return ["2 %d %d" % (op[1], op[2]), "", ""]
    if k == "cat":
        return ["3 %d" % op[1], "", ""]
    if k == "int":
        return ["4 %d" % op[2], C.fmt_ints(op[1]), ""]
    if k == "restrict":
        return ["5", C.fmt_iset(op[1]), ""]
    if k == "get":
        return ["6 %d %d" % (op[1], op[2]), "", ""]
    if k == "rt":
        return ["7", "", ""]
    if k == "msplit":
        return ["8 %d %d %d" % (op[3], op[4], op[5]), C.fmt_ints(op[1]), C.fmt_ints(op[2])]
    return ["9 %d %d %d %d" % (op[2], op[3], op[4], op[1]), "", ""]


def apply_op(nap, g, op, aux):
    k = op[0]
    if k == "keys":
        return g[list(op[1])]
    if k == "mask":
        return g[np.array(op[1], dtype=bool)]
    if k == "thr":
        return g.getby_threshold("tag", op[2], OPS[op[1]])
    if k == "cat":
        return g.getby_category("tag")[op[1]]
    if k == "int":
        return g.getby_intervals("tag", np.array(op[1]))[0][op[2]]
    if k == "restrict":
        return g.restrict(mk_iset(nap, op[1]))
    if k == "get":
        return g.get(op[1] / 1e9, op[2] / 1e9)
    if k == "rt":
        return g.to_tsd().to_tsgroup()
    if k == "msplit":
        return g[np.array(op[1], dtype=bool)].merge(g[np.array(op[2], dtype=bool)], reset_index=bool(op[3]), reset_time_support=bool(op[4]), ignore_metadata=bool(op[5]))
    a, b = (g, aux) if op[1] else (aux, g)
    return a.merge(b, reset_index=bool(op[2]), reset_time_support=bool(op[3]), ignore_metadata=bool(op[4]))


def step_oracle(res, op, before, after, aux_st, inp, within, aux_bypass=False):
    """the statement's preservation clauses, on implementation states only.  after is None when the operation raised.
    within = the current group does not descend (through get only) from a construction that opted out of the restriction; every clause is
    evaluated in both cases, and a member that changes only because such a group is re-restricted to its support is reported under
    bypass_group_member_outside_support=True"""
    k = op[0]
    kk = {"op": {"keys": "getitem_keys", "mask": "getitem_mask", "thr": "getby_threshold", "cat": "getby_category", "int": "getby_intervals",
                 "restrict": "restrict", "get": "get", "rt": "to_tsd_to_tsgroup", "msplit": "merge_group", "mwith": "merge_group"}[k]}

    def viol(part, what, impl=None, expected=None, **extra):
        res.violations.append({"key": dict(kk, part=part, **extra), "what": what, "input": inp, "impl": impl, "expected": expected})

    bk = before["keys"]
    bmem = dict(zip(bk, before["mem"]))
    btag = dict(zip(bk, before["tags"])) if before["hastag"] else None
    optout = (not within) or (op[0] == "mwith" and aux_bypass)

    def members_preserved(part_what, keys, mems, source, sup, touches=(), two=False):
        for key, m in zip(keys, mems):
            exp = source[key]
            if m[0] != exp:
                lost = [x for x in exp if x not in m[0]]
                kept_rest = [x for x in exp if x in m[0]] == m[0]
                viol("members", part_what % key, m[0], exp,
                     bypass_group_member_outside_support=bool(optout and m[0] == [x for x in exp if G.mem(x, sup)]),
                     two_members_touching_supports=bool(two and lost and kept_rest and only_touching_trim([2 * x for x in lost], touches)))
    if k in ("keys", "mask", "thr", "cat", "int"):
        # which keys does the operation name?
        if k == "keys":
            sel, ok = list(op[1]), all(x in bk for x in op[1]) and len(set(op[1])) == len(op[1])
        elif k == "mask":
            ok = len(op[1]) == len(bk)
            sel = [x for x, m in zip(bk, op[1]) if m] if ok else []
        elif btag is None:
            sel, ok = [], False
        elif k == "thr":
            f = {0: lambda x: x > op[2], 1: lambda x: x < op[2], 2: lambda x: x >= op[2], 3: lambda x: x <= op[2]}[op[1]]
            sel, ok = [x for x in bk if f(btag[x])], True
        elif k == "cat":
            sel = [x for x in bk if btag[x] == op[1]]
            ok = bool(sel)
        else:
            bins = op[1]
            classes = [[x for x in bk if bins[i] <= btag[x] < bins[i + 1]] for i in range(len(bins) - 1)]
            classes = [c for c in classes if c]
            ok = op[2] < len(classes)
            sel = classes[op[2]] if ok else []
        if not ok:
            return   # ill-formed request (missing / repeated key, wrong mask length, no such column or class): any exception is acceptable
        if after is None:
            viol("exception", "selection of existing keys raised")
            return
        if after["keys"] != sorted(sel):
            viol("keys", "selected group does not hold exactly the selected keys", after["keys"], sorted(sel))
            return
        if after["sup"] != before["sup"]:
            viol("support", "selection changed the time support", after["sup"], before["sup"])
        members_preserved("member %d changed under selection", after["keys"], after["mem"], {x: bmem[x][0] for x in bk}, before["sup"])
        if btag is not None and after["hastag"] and [btag[x] for x in after["keys"]] != after["tags"]:
            viol("tags", "metadata did not follow the selected keys", after["tags"], [btag[x] for x in after["keys"]])
        return
    if k == "restrict":
        if after is None:
            viol("exception", "restrict raised")
            return
        if after["keys"] != bk or after["sup"] != op[1]:
            viol("keys_support", "restrict changed the keys or did not install ep as the support", (after["keys"], after["sup"]), (bk, op[1]))
            return
        for key, m in zip(after["keys"], after["mem"]):
            exp = [x for x in bmem[key][0] if G.mem(x, op[1])]
            if m[0] != exp:
                viol("members", "member %d is not the old member restricted to ep" % key, m[0], exp)
        return
    if k == "get":
        if op[1] > op[2]:
            return
        if after is None:
            viol("exception", "get raised")
            return
        if after["keys"] != bk or after["sup"] != before["sup"]:
            viol("keys_support", "get changed the keys or the support", (after["keys"], after["sup"]), (bk, before["sup"]))
            return
        for key, m in zip(after["keys"], after["mem"]):
            exp = [x for x in bmem[key][0] if op[1] <= x <= op[2]]
            if m[0] != exp:
                viol("members", "member %d is not the window of the old member" % key, m[0], exp)
        return
    if k == "rt":
        if after is None:
            viol("exception", "to_tsd / to_tsgroup raised")
            return
        expk = [x for x in bk if bmem[x][0]]
        if after["keys"] != expk:
            viol("keys", "round trip does not hold exactly the keys of the members with samples", after["keys"], expk,
                 bypass_group_member_outside_support=bool(optout and after["keys"] == [x for x in bk if any(G.mem(t, before["sup"]) for t in bmem[x][0])]))
            return
        if expk and after["sup"] != before["sup"]:
            viol("support", "round trip changed the support", after["sup"], before["sup"])
        members_preserved("member %d changed in the round trip", after["keys"], after["mem"], {x: bmem[x][0] for x in bk}, before["sup"])
        return
    # merges
    if k == "msplit":
        if len(op[1]) != len(bk) or len(op[2]) != len(bk):
            return
        parts = [{"keys": [x for x, m in zip(bk, mk) if m], "sup": before["sup"], "hastag": before["hastag"]} for mk in (op[1], op[2])]
        for p in parts:   # a selection preserves the member and hands it the group's support (no support without a sample)
            p["mem"] = [(bmem[x][0], before["sup"] if bmem[x][0] else []) for x in p["keys"]]
        ri, rs, im = op[3], op[4], op[5]
    else:
        if aux_st is None:
            return
        me = {"keys": bk, "sup": before["sup"], "hastag": before["hastag"], "mem": [(m[0], m[1]) for m in before["mem"]]}
        ax = {"keys": aux_st["keys"], "sup": aux_st["sup"], "hastag": aux_st["hastag"], "mem": [(m[0], m[1]) for m in aux_st["mem"]]}
        parts = [me, ax] if op[1] else [ax, me]
        ri, rs, im = op[2], op[3], op[4]
    legal = (im or parts[0]["hastag"] == parts[1]["hastag"]) and (ri or not set(parts[0]["keys"]) & set(parts[1]["keys"])) \
        and (rs or parts[0]["sup"] == parts[1]["sup"])
    items = [(x, m) for p in parts for x, m in zip(p["keys"], p["mem"])]
    if ri:
        items = [(i, m) for i, (_, m) in enumerate(items)]
    if after is None:
        if not legal or (rs and not any(m[1] for _, m in items)):
            return  # a documented ValueError, or RuntimeError: the union of the member supports is empty
        concat_sorted = [x for x, _ in items] == sorted(x for x, _ in items)
        # groups that opted out of the restriction: once re-restricted, no member may have a sample left, and the union of the supports is empty
        emptied = bool(k == "msplit" and optout and rs and not any(G.mem(x, p["sup"]) for p in parts for m in p["mem"] for x in m[0]))
        viol("exception", "merge of groups with disjoint keys and the same time support raised", ignore_metadata=bool(im), concat_keys_sorted=concat_sorted,
             reset_index=bool(ri), reset_time_support=bool(rs), bypass_group_member_outside_support=emptied)
        return
    # the merge returned a group: whatever was accepted, the statement's preservation clause applies to it
    diff_sup = bool(not rs and parts[0]["sup"] != parts[1]["sup"])
    if diff_sup:
        res.count("merge_accepted_different_supports(empty vs one interval)")
    kk = dict(kk, reset_time_support=bool(rs), accepted_different_supports=diff_sup)
    if after["keys"] != sorted(x for x, _ in items):
        viol("keys", "merged group does not hold the union of the keys", after["keys"], sorted(x for x, _ in items))
        return
    if not rs and not diff_sup and after["sup"] != parts[0]["sup"]:
        viol("support", "merge changed the common time support", after["sup"], parts[0]["sup"])
    touches, two = set(), False
    if rs:
        sups = [m[1] for _, m in sorted(items)]
        want = exact_union(sups)
        touches, two = touch_points(sups), len(items) == 2
        if touches:
            res.count("merge_union_of_touching_supports(n=%s)" % ("2" if two else "3+"))
        bad = diff_points(after["sup"], want)
        if bad:
            viol("support_union", "merged support is not the union of the members' supports", after["sup"], "%s = union of %s" % (want, sups),
                 two_members_touching_supports=bool(two and only_touching_trim(bad, touches)))
    members_preserved("member %d changed in the merge", after["keys"], after["mem"], {x: m[0] for x, m in items}, after["sup"], touches, two)


def directed_merge_cases():
    """two one-member groups whose supports touch (or are an empty support against one interval), merged both ways"""
    out = []
    byname = {n: (k, sc(t), None if s is None else sci(s)) for n, k, t, s in TEMPL}
    for a, b in (("A", "C"), ("L", "C"), ("M", "C"), ("C", "L"), ("G", "B")):
        for first in (0, 1):
            for ri in (0, 1):
                base = Spec([KEYS[2]], [1], [byname[a]], byname[a][2], False)
                aux = Spec([KEYS2[0]], [2], [byname[b]], byname[b][2], False)
                out.append((base, aux, [("mwith", first, ri, 1, first ^ ri)]))
    for a, sa, sb in (("A", [], [(0, 12)]), ("A", [(0, 12)], []), ("B", [], [(1, 5)])):
        for first in (0, 1):
            base = Spec([KEYS[2]], [1], [byname[a]], sci(sa), False)
            aux = Spec([KEYS2[0]], [2], [byname["D"]], sci(sb), False)
            out.append((base, aux, [("mwith", first, 0, 0, first)]))
    return out


def history_cases(tier, seed):
    rng = random.Random(seed * 7 + 12)
    out = directed_merge_cases()
    for c in range(700 if tier == "quick" else 7000):
        sup = rng.choice([[(0, 12)], [(0, 12)], [(0, 12)], [(1, 5)], [(3, 5), (9, 11)], None, [(0, 4), (6, 12)]])
        base = rand_spec(rng, KEYS, None if sup is None else sci(sup))
        r = rng.random()
        asup = sup if r < 0.6 else rng.choice(SUPS)
        aux = rand_spec(rng, KEYS2, None if asup is None else sci(asup), nmax=3, bypass_p=0.05)
        if aux.sup is None and not any(t and (k in (1, 2) or any(G.mem(x, sp) for x in t)) for k, t, sp in aux.members):
            aux.sup = sci([(0, 12)])   # the union of the members' supports would be empty: the second group must exist
        if base.hastag and rng.random() < 0.9:
            aux.hastag = True
        n = len(base.members)
        pool = [int(k) for k, _ in base.keys] * 4 + [int(k) for k, _ in KEYS] + [1, 9, 4, 8, 99] + list(range(4))
        ops = []
        sh, sha = Shadow(base), Shadow(aux)
        for _ in range(rng.randint(1, 6)):
            o = rand_op(rng, sh, pool)
            ops.append(o)
            sh.apply(o, sha)
        out.append((base, aux, ops))
    return out


def run_history(nap, res, base, aux, ops, line):
    inp = {"base": base.desc(), "aux": aux.desc(), "ops": [list(o) for o in ops]}
    steps = line.split("#")
    try:
        g, _ = base.build(nap)
    except Exception:
        g = None
    try:
        ga, _ = aux.build(nap)
        aux_st = impl_state(ga)
    except Exception:
        ga, aux_st = None, None
    res.count("histories")
    if g is None:
        if not line.startswith("ERR"):
            res.disagreements.append({"op": "history/base", "input": inp, "impl": "ERR", "model": steps[0]})
        res.case(("hist", str(inp)), nontrivial=False)
        return
    st = impl_state(g)
    model_ok = states_agree(st, parse_state(steps[0]))
    if not model_ok:   # the statement's clauses are still evaluated on the implementation's states below
        res.disagreements.append({"op": "history/base", "input": inp, "impl": st, "model": steps[0]})
    within = not base.bypass
    nerr = 0
    for i, op in enumerate(ops):
        if op[0] == "mwith" and ga is None:
            break
        try:
            g2 = apply_op(nap, g, op, ga)
            st2 = impl_state(g2)
            ex = None
        except Exception as e:
            g2, st2, ex = None, None, e
        mo = parse_state(steps[i + 1]) if i + 1 < len(steps) else None
        res.count("op_" + op[0])
        if st2 is None:
            res.count("op_raised")
            res.count("raised_" + op[0])
            nerr += 1
        step_oracle(res, op, st, st2, aux_st, dict(inp, step=i), within, aux.bypass)
        if model_ok and not states_agree(st2, mo):
            res.disagreements.append({"op": "history/" + op[0], "input": dict(inp, step=i), "impl": st2 if st2 is not None else repr(ex), "model": steps[i + 1] if i + 1 < len(steps) else None})
            model_ok = False
        if st2 is not None:
            if op[0] != "get":
                within = True
            iv = invariant_viol(st2, within)
            if iv:
                res.violations.append({"key": dict({"op": op[0], "part": iv[0]}, **iv[2]), "what": iv[1], "input": dict(inp, step=i), "impl": st2})
            g, st = g2, st2
    res.case(("hist", str(inp)), nontrivial=len(ops) - nerr >= 2)
    if model_ok:
        res.traces += 1


# --------------------------------------------------------------------------------------
# group-level count / value_from / trial_count = per member
def nan_eq(a, b):
    a, b = np.asarray(a, dtype=float), np.asarray(b, dtype=float)
    return a.shape == b.shape and bool(np.all((a == b) | (np.isnan(a) & np.isnan(b))))


def group_level(nap, res, tier, seed):
    rng = random.Random(seed * 11 + 5)
    cases, lines = [], []
    eps = [[(0, 12)], [(1, 5)], [(3, 5), (9, 11)], [(0, 4), (6, 12)], [(2, 6)]]
    for c in range(120 if tier == "quick" else 1200):
        sup = rng.choice([[(0, 12)], [(0, 12)], [(1, 9)], None])
        sp = rand_spec(rng, KEYS, None if sup is None else sci(sup), bypass_p=0.0)
        sp.members = [(0 if k == 4 else k, t, s) for k, t, s in sp.members]
        ep = sci(rng.choice(eps))
        b = rng.choice([2 * U, 4 * U, 6 * U])
        src = sorted(rng.sample(range(0, 13), rng.randint(1, 5)))
        mode = rng.randrange(3)
        cases.append((sp, ep, b, sc(src), mode))
        a = sp.args()
        lines.append("\t".join(["gcount"] + a + [C.fmt_iset(ep), str(b)]))
        lines.append("\t".join(["gcount_ep"] + a + [C.fmt_iset(ep)]))
        lines.append("\t".join(["gtrial"] + a + [C.fmt_iset(ep), str(b)]))
        lines.append("\t".join(["gvf"] + a + [str(mode), C.fmt_ints(sc(src)), C.fmt_iset(ep)]))
    out = C.run_model(lines, driver="driver_c12")
    for n, (sp, ep, b, src, mode) in enumerate(cases):
        try:
            _group_level_case(nap, res, out, n, sp, ep, b, src, mode)
        except Exception as ex:
            res.violations.append({"key": {"op": "group_level", "part": "exception"}, "what": "group-level count / trial_count / value_from raised %s" % repr(ex),
                                   "input": dict(sp.desc(), ep=ep, bin=b, source=src)})


def _group_level_case(nap, res, out, n, sp, ep, b, src, mode):
    if True:
        inp = dict(sp.desc(), ep=ep, bin=b, source=src, mode=["before", "closest", "after"][mode])
        try:
            g, _ = sp.build(nap)
        except Exception:
            return
        res.case(("group_level", str(inp)), nontrivial=len(g) >= 2)
        res.count("group_level")
        keys = [int(k) for k in g.keys()]
        epo = mk_iset(nap, ep)
        kk = {"op": "count"}
        # count with bins
        Cn = g.count(b / 1e9, epo)
        if [int(c) for c in Cn.columns] != keys:
            res.violations.append({"key": dict(kk, part="columns"), "what": "count columns are not the keys", "input": inp, "impl": list(Cn.columns)})
        cols_m = out[4 * n].split("#") if out[4 * n] else []
        for i, k in enumerate(keys):
            per = g[k].count(b / 1e9, epo)
            if not (np.array_equal(per.t, Cn.t) and np.array_equal(np.asarray(per.values).ravel(), Cn.values[:, i])):
                res.violations.append({"key": dict(kk, part="binned"), "what": "group count column %d differs from the member's count" % k, "input": inp,
                                       "impl": Cn.values[:, i].tolist(), "expected": np.asarray(per.values).ravel().tolist()})
            f = cols_m[i].split("|")
            if int(f[0]) != k or [int(v) for v in f[2].split()] != [int(v) for v in Cn.values[:, i]] or [int(v) for v in f[1].split()] != [2 * C.to_ns(t) for t in Cn.t]:
                res.disagreements.append({"op": "group count", "input": inp, "impl": Cn.values[:, i].tolist(), "model": cols_m[i]})
        # count per epoch
        Ce = g.count(ep=epo)
        cols_m = out[4 * n + 1].split("#") if out[4 * n + 1] else []
        for i, k in enumerate(keys):
            per = g[k].count(ep=epo)
            if not np.array_equal(np.asarray(per.values).ravel(), Ce.values[:, i]):
                res.violations.append({"key": dict(kk, part="per_epoch"), "what": "group count(ep) column %d differs from the member's" % k, "input": inp})
            f = cols_m[i].split("|")
            if int(f[0]) != k or [int(v) for v in f[1].split()] != [int(v) for v in Ce.values[:, i]]:
                res.disagreements.append({"op": "group count(ep)", "input": inp, "impl": Ce.values[:, i].tolist(), "model": cols_m[i]})
        # count on the group's own support (ep omitted)
        C0 = g.count(b / 1e9)
        for i, k in enumerate(keys):
            per = g[k].count(b / 1e9, g.time_support)
            if not np.array_equal(np.asarray(per.values).ravel(), C0.values[:, i]):
                res.violations.append({"key": dict(kk, part="default_ep"), "what": "group count() column %d differs from the member's count on the group support" % k, "input": inp})
        # trial_count
        for align in ("start", "end"):
            try:
                T = g.trial_count(epo, b / 1e9, align=align)
            except Exception as ex:
                res.violations.append({"key": {"op": "trial_count", "part": "exception", "align": align}, "what": "group trial_count raised " + type(ex).__name__, "input": inp})
                continue
            for i, k in enumerate(keys):
                per = g[k].trial_count(epo, b / 1e9, align=align)
                if not nan_eq(T[i], per):
                    res.violations.append({"key": {"op": "trial_count", "align": align}, "what": "group trial_count[%d] differs from the member's" % k, "input": inp,
                                           "impl": np.asarray(T[i]).tolist(), "expected": np.asarray(per).tolist()})
            if align == "start":
                blocks = out[4 * n + 2].split("#") if out[4 * n + 2] else []
                for i, k in enumerate(keys):
                    f = blocks[i].split("|")
                    rows = [[int(v) for v in r.split()] for r in f[1:]]
                    got = [[int(v) for v in row if not np.isnan(v)] for row in T[i]]
                    if int(f[0]) != k or got != rows:
                        res.disagreements.append({"op": "group trial_count", "input": inp, "impl": got, "model": rows})
        # value_from
        tsd = nap.Tsd(G.arr(src), np.arange(len(src)) + 100.0, time_support=mk_iset(nap, [(-U, 14 * U)]))
        ms = ["before", "closest", "after"][mode]
        V0 = g.value_from(tsd, mode=ms)   # ep omitted: the group's own support, as for each member
        for k in keys:
            per = g[k].value_from(tsd, mode=ms)
            if not (k in V0 and np.array_equal(per.t, V0[k].t) and nan_eq(per.values, V0[k].values)):
                res.violations.append({"key": {"op": "value_from", "mode": ms, "part": "default_ep"}, "what": "group value_from(ep omitted)[%d] differs from the member's" % k, "input": inp,
                                       "expected": np.asarray(per.values).tolist()})
        V = g.value_from(tsd, epo, mode=ms)
        if [int(k) for k in V.keys()] != keys or ticks_iset(V.time_support) != ep:
            res.violations.append({"key": {"op": "value_from", "part": "keys_support"}, "what": "group value_from changed the keys or did not install ep", "input": inp})
            return
        blocks = out[4 * n + 3].split("#") if out[4 * n + 3] else []
        srcr = [x for x in src if G.mem(x, ep)]
        for i, k in enumerate(keys):
            per = g[k].value_from(tsd, epo, mode=ms)
            if not (np.array_equal(per.t, V[k].t) and nan_eq(per.values, V[k].values)):
                res.violations.append({"key": {"op": "value_from", "mode": ms}, "what": "group value_from[%d] differs from the member's" % k, "input": inp,
                                       "impl": np.asarray(V[k].values).tolist(), "expected": np.asarray(per.values).tolist()})
            f = blocks[i].split("|")
            mt = [int(v) for v in f[1].split()]
            mv = [None if v == "nan" else src.index(srcr[int(v)]) + 100 for v in f[2].split()]
            gv = [None if np.isnan(v) else int(v) for v in V[k].values]
            if int(f[0]) != k or mt != [C.to_ns(t) for t in V[k].t] or mv != gv:
                res.disagreements.append({"op": "group value_from", "input": inp, "impl": gv, "model": blocks[i]})


# --------------------------------------------------------------------------------------
# n-ary merges (merge_group of 3 or 4 groups)
KEYS3 = [(10, (0, 10)), ("11", (1, 11)), (12.0, (3, 12)), (-7, (0, -7))]


def merge_nary(nap, res, tier, seed):
    rng = random.Random(seed * 13 + 3)
    cases, lines = [], []
    for c in range(150 if tier == "quick" else 1500):
        n = rng.choice([3, 3, 4])
        sup = rng.choice([[(0, 12)], [(1, 5)], [(3, 5), (9, 11)]])
        pools = [KEYS[:3], KEYS2[:4], KEYS3, KEYS[3:]]
        rng.shuffle(pools)
        specs = []
        for i in range(n):
            s_i = sup if rng.random() < 0.85 else rng.choice(SUPS[1:])
            sp = rand_spec(rng, pools[i], sci(s_i), nmax=2, bypass_p=0.0, hastag_p=0.95)
            specs.append(sp)
        ri, rs, im = int(rng.random() < 0.25), int(rng.random() < 0.3), int(rng.random() < 0.55)
        cases.append((specs, ri, rs, im))
        lines.append("\t".join(["merge", "%d %d %d %d" % (ri, rs, im, n)] + [x for sp in specs for x in sp.args()]))
    out = C.run_model(lines, driver="driver_c12")
    for (specs, ri, rs, im), line in zip(cases, out):
        inp = {"groups": [sp.desc() for sp in specs], "reset_index": ri, "reset_time_support": rs, "ignore_metadata": im}
        try:
            gs = [sp.build(nap)[0] for sp in specs]
            sts = [impl_state(g) for g in gs]
        except Exception as e:
            res.violations.append({"key": {"op": "init", "part": "exception"}, "what": "TsGroup() raised %s on valid input" % type(e).__name__, "input": inp, "impl": repr(e)})
            continue
        res.case(("merge_nary", str(inp)), nontrivial=True)
        res.count("merge_nary")
        try:
            r = nap.TsGroup.merge_group(*gs, reset_index=bool(ri), reset_time_support=bool(rs), ignore_metadata=bool(im))
            st = impl_state(r)
            ex = None
        except Exception as e:
            st, ex = None, e
        if not states_agree(st, parse_state(line)):
            res.disagreements.append({"op": "merge_group(n-ary)", "input": inp, "impl": st if st is not None else repr(ex), "model": line})
        same_sup = all(s_["sup"] == sts[0]["sup"] for s_ in sts)
        legal = (im or all(s_["hastag"] == sts[0]["hastag"] for s_ in sts)) and (rs or same_sup) \
            and (ri or sum(len(s_["keys"]) for s_ in sts) == len(set(k for s_ in sts for k in s_["keys"])))
        items = [(k, m) for s_ in sts for k, m in zip(s_["keys"], s_["mem"])]
        if ri:
            items = [(i, m) for i, (_, m) in enumerate(items)]
        kk = {"op": "merge_group", "ignore_metadata": bool(im), "concat_keys_sorted": [k for k, _ in items] == sorted(k for k, _ in items),
              "reset_index": bool(ri), "reset_time_support": bool(rs), "accepted_different_supports": bool(not rs and not same_sup)}
        if st is None:
            if legal and not (rs and not any(m[1] for _, m in items)):
                res.violations.append({"key": dict(kk, part="exception"), "what": "merge of groups with disjoint keys and the same time support raised", "input": inp, "impl": repr(ex)})
            continue
        # the merge returned a group: whatever was accepted, the statement's preservation clause applies to it
        if not rs and not same_sup:
            res.count("merge_accepted_different_supports(empty vs one interval)")
        src = dict(items)
        if st["keys"] != sorted(k for k, _ in items):
            res.violations.append({"key": dict(kk, part="keys"), "what": "merged group does not hold the union of the keys", "input": inp, "impl": st["keys"]})
            continue
        if not rs and same_sup and st["sup"] != sts[0]["sup"]:
            res.violations.append({"key": dict(kk, part="support"), "what": "merge changed the common time support", "input": inp, "impl": st["sup"]})
        if rs:
            sups = [m[1] for _, m in sorted(items)]
            want = exact_union(sups)
            if touch_points(sups):
                res.count("merge_union_of_touching_supports(n=3+)")
            if diff_points(st["sup"], want):
                res.violations.append({"key": dict(kk, part="support_union", two_members_touching_supports=False), "what": "merged support is not the union of the members' supports",
                                       "input": inp, "impl": st["sup"], "expected": "%s = union of %s" % (want, sups)})
        for k, m in zip(st["keys"], st["mem"]):
            if m[0] != src[k][0]:
                res.violations.append({"key": dict(kk, part="members", bypass_group_member_outside_support=False, two_members_touching_supports=False),
                                       "what": "member %d changed in the merge" % k, "input": inp, "impl": m[0], "expected": src[k][0]})
        iv = invariant_viol(st)
        if iv:
            res.violations.append({"key": dict(kk, part=iv[0], **iv[2]), "what": iv[1], "input": inp, "impl": st})


# --------------------------------------------------------------------------------------
def run(res, tier, seed):
    nap = _nap()
    warnings.simplefilter("ignore")
    rng = random.Random(seed * 3 + 12)
    res.rule = ("TsGroup(): (a) EVERY ordered tuple of 1..4 keys from {'7', 2.0, 5, 0, -3} (dict input) x support {none, explicit} x bypass_check [complete]; "
                "(b) EVERY tuple of <= %s member templates out of 13 (supports disjoint / overlapping / touching / identical / two-interval / default / empty member / raw array / Tsd / "
                "a sample 0.5 us before a touching end / a 0.5 us support touching the next one) "
                "x 5 support choices (none, covering, cutting, two-interval, empty) x bypass_check, dict and list input [complete for the stated sizes, sampled above]; "
                "(c) rejected keys (non-numeric, fractional, equal integer value). Histories: random sequences of <= 6 operations out of key-list / mask / getby_threshold / "
                "getby_category / getby_intervals / restrict / get / to_tsd->to_tsgroup / merge of two selections / merge with a second group (all flag combinations), "
                "preceded by 26 directed merges of two one-member groups (touching supports with reset_time_support, empty support against one interval), "
                "model and implementation compared after EVERY step, the statement's preservation clauses and invariants evaluated on the implementation's states "
                "(also after a model disagreement, also for groups built with bypass_check=True, also for merges the library accepts although documented to raise). "
                "Oracle: the support must equal the union of the members' supports AS A POINT SET (no tolerance), members are compared with the supplied members restricted to "
                "the support the statement fixes (not to the implementation's own), rate is checked for every member with a sample whatever bypass_check. "
                "n-ary merges (3-4 groups): keys, exact union when the support is reset, every member unchanged. "
                "Group-level count / value_from (with and without ep) / trial_count against the members' own. non-trivial = keys arrive unsorted (a), >= 2 members (b), >= 2 successful steps (histories)"
                % ("2 (+ samples of 3 and 4)" if tier == "quick" else "3 (+ samples of 4)"))
    res.exhaustive = True
    specs = construction_specs(tier, rng)
    lines = ["\t".join(["mk"] + sp.args()) for _, sp in specs]
    out = C.run_model(lines, driver="driver_c12")
    for n, (part, sp) in enumerate(specs):
        check_construction(nap, res, sp, out[n], part)
        if n % 997 == 0:
            res.sample({"construct": sp.desc(), "model_state": out[n]})
    hs = history_cases(tier, seed)
    hlines = ["\t".join(["hist"] + b.args() + a.args() + [x for o in ops for x in op_args(o)]) for b, a, ops in hs]
    hout = C.run_model(hlines, driver="driver_c12")
    for n, (b, a, ops) in enumerate(hs):
        run_history(nap, res, b, a, ops, hout[n])
        if n % 331 == 0:
            res.sample({"history": [list(o) for o in ops], "base": b.desc(), "trace": hout[n][:300]})
    merge_nary(nap, res, tier, seed)
    group_level(nap, res, tier, seed)


def search(res, seed):
    r2 = C.Result()
    run(r2, "thorough", seed)
    return r2.violations[0] if r2.violations else None


def replay(payload):
    """re-run the recorded construction / history / merge on the current tree and print both sides"""
    nap = _nap()
    warnings.simplefilter("ignore")
    v = payload.get("violation") or (payload.get("disagreements") or [{}])[0]
    inp = v.get("input", {})
    print("replay input:", inp)

    def spec_of(d):
        keys = []
        for r in d["keys"]:
            k = eval(r, {"__builtins__": {}}, {})
            code = (2, 0) if not isinstance(k, (int, float, str)) else None
            if code is None:
                try:
                    code = ((1 if isinstance(k, str) else 3 if isinstance(k, float) else 0), int(k)) if float(k) == int(k) else (4, int(k))
                except Exception:
                    code = (2, 0)
            keys.append((k, code))
        return Spec(keys, d["tags"], [(k, t, None if s_ is None else [tuple(x) for x in s_]) for k, t, s_ in d["members"]],
                    None if d["support"] is None else [tuple(x) for x in d["support"]], d["bypass_check"], islist=d.get("list_input", False))
    res = C.Result()
    if "base" in inp:
        b, a = spec_of(inp["base"]), spec_of(inp["aux"])
        ops = [("restrict", [tuple(x) for x in o[1]]) if o[0] == "restrict" else tuple(o) for o in inp["ops"]]
        line = C.run_model(["\t".join(["hist"] + b.args() + a.args() + [x for o in ops for x in op_args(o)])], driver="driver_c12")[0]
        run_history(nap, res, b, a, ops, line)
    elif "groups" in inp:
        specs = [spec_of(d) for d in inp["groups"]]
        gs = [sp.build(nap)[0] for sp in specs]
        try:
            r = nap.TsGroup.merge_group(*gs, reset_index=bool(inp["reset_index"]), reset_time_support=bool(inp["reset_time_support"]), ignore_metadata=bool(inp["ignore_metadata"]))
            print("merged keys", list(r.keys()))
        except Exception as ex:
            print("merge_group raised", repr(ex))
            return 1
        return 0
    elif "keys" in inp and "members" in inp:
        sp = spec_of(inp)
        line = C.run_model(["\t".join(["mk"] + sp.args())], driver="driver_c12")[0]
        check_construction(nap, res, sp, line, "replay")
    for x in res.violations:
        print("VIOLATION", x["key"], x["what"], "impl:", x.get("impl"), "expected:", x.get("expected"))
    for x in res.disagreements:
        print("DISAGREEMENT", x.get("op"), "impl:", x.get("impl"), "model:", x.get("model"))
    if not res.violations and not res.disagreements:
        print("no violation / disagreement on the current tree")
    return 1 if (res.violations or res.disagreements) else 0
