"""C12 a TsGroup is a consistent keyed collection on one time support."""
import itertools
import math
import random
import warnings

import numpy as np
import pandas as pd

import common as C
import gen as G

LEVEL = "proof"
DRIVERS = ["driver_c12"]
TRUSTED = ["model: coq/Model/Group.v (mk_group: key conversion / uniqueness / sort / union of supports / member restriction; Ts constructor incl. the empty-series rule; "
           "select_keys, masks, getby_*, g_restrict, g_get, merge_group (as repaired) and merge_group_orig, to_tsd, to_tsgroup, rate, step/trace) over Model/Iset.v, Restrict.v, "
           "Slice.v, Count.v, ValueFrom.v; theorems: Proofs/GroupProofs.v (reusing RestrictProofs, UnionProofs, C02Top, C01Top, SliceProofs, CountProofs)",
           "the model is the library AS REPAIRED by two proposed fixes (_union_intervals: n-ary kernel for two members too; merge_group: shapes of the supports compared "
           "before np.allclose); the earlier behaviours are kept as union_supports_orig / merge_group_lax with _refuted witnesses",
           "metadata is one integer column 'tag' supplied as a DataFrame indexed by the sorted integer keys (attachment of metadata is C13's)",
           "python's int()/float() on the supplied keys is abstracted as rawkey (int / numeric string / rejected by int() / float with or without a fraction)",
           "np.argsort in to_tsd is modelled as a stable sort; the round trip does not depend on the order of equal timestamps (proved: filter commutes with the sort)"]
ASSUMPTIONS = ["members are built with >= 2 distinct timestamps or an explicit support (a single-timestamp series has an empty default support: known quirk)",
               "time supports compared by merge_group differ by 0 or by more than 1 ns (np.allclose with atol=1e-9 is float-ambiguous at exactly 1 ns)",
               "the rate clause is not evaluated when the group's support has zero total duration (len / 0 is not a number the statement fixes)",
               "keys that have no integer value, or two keys with the same integer value, must be rejected with SOME exception (the statement fixes no exception type)",
               "off-lattice samples sit 300-500 ns before a touching endpoint, never exactly on a 1 us-trimmed end (the float of `end - 1e-6` may be one ulp off the tick: DESIGN.md section 2)"]

U = 1953125  # 2^-9 s in ticks

# python key object, (kind, value) for the model: kind 0 int, 1 numeric string, 2 rejected by int(), 3 float, 4 float with a fraction
KEYS = [("7", (1, 7)), (2.0, (3, 2)), (5, (0, 5)), (0, (0, 0)), (-3, (0, -3)), ("10", (1, 10)), ("100", (1, 100))]
KEYS2 = [(1, (0, 1)), ("9", (1, 9)), (4.0, (3, 4)), (8, (0, 8)), (5, (0, 5)), (-3, (0, -3)), ("12", (1, 12))]
BADKEYS = [("a", (2, 0)), ("2.0", (2, 0)), (2.5, (4, 2)), (-2.5, (4, -2)), (None, (2, 0))]

# member templates: (name, kind, timestamps, support) in units of U.  kind 0 Ts(t, support) 1 raw array 2 Ts(t) 4 Tsd(t, d, support)
TEMPL = [
    ("A", 0, [0, 2, 4], [(0, 4)]),
    ("B", 0, [3, 5], [(2, 6)]),            # overlaps A
    ("C", 0, [4, 6, 8], [(4, 8)]),         # touches A at 4
    ("D", 0, [10, 11, 12], [(10, 12)]),    # disjoint
    ("E", 0, [], [(0, 4)]),                # no sample: the member's support is empty whatever is passed
    ("F", 0, [1, 1, 3], [(0, 4)]),         # same support as A, duplicates
    ("G", 0, [1, 6], [(0, 2), (5, 7)]),    # two intervals
    ("H", 2, [2, 9], None),                # default support [2, 9]
    ("I", 1, [3, 7, 7], None),             # raw array
    ("J", 0, [0, 5, 9], [(0, 4)]),         # samples outside its own support dropped by Ts()
    ("K", 4, [1, 5, 11], [(0, 12)]),       # a Tsd
    ("L", 0, [0, 2, (4, -500)], [(0, 4)]),  # a sample 0.5 us before its support's end, which touches C's start
    ("M", 0, [(4, -300)], [((4, -500), 4)]),  # a 0.5 us support that touches C's start (a 1 us trim would erase it)
]
SUPS = [None, [(0, 12)], [(1, 5)], [(3, 5), (9, 11)], []]
OPS = {0: ">", 1: "<", 2: ">=", 3: "<="}


def _nap():
    import pynapple as nap
    return nap


def tk(v):
    """template coordinate -> ticks: n (units of U) or (n, offset in ns)"""
    return v[0] * U + v[1] if isinstance(v, tuple) else v * U


def sc(x):
    return [tk(v) for v in x]


def sci(ep):
    return [(tk(s), tk(e)) for s, e in ep]


def exact_union(sups):
    """the union of closed interval sets as a point set, in canonical form (touching and overlapping intervals are one interval)"""
    ivs = sorted(iv for s in sups for iv in s if iv[0] < iv[1])
    out = []
    for a, b in ivs:
        if out and a <= out[-1][1]:
            out[-1][1] = max(out[-1][1], b)
        else:
            out.append([a, b])
    return [tuple(iv) for iv in out]


def diff_points(A, B):
    """where two sets of closed intervals differ: the doubled coordinates 2x of every endpoint x and of every midpoint between consecutive endpoints
    at which membership differs (exhaustive: membership is constant between consecutive endpoints)"""
    pts = sorted(set(p for S in (A, B) for iv in S for p in iv))
    cand = [2 * p for p in pts] + [p + q for p, q in zip(pts, pts[1:])]
    m2 = lambda x2, S: any(2 * a <= x2 <= 2 * b for a, b in S)
    return sorted(x2 for x2 in cand if m2(x2, A) != m2(x2, B))


def touch_points(sups):
    """instants p that end an interval of one member's support and start an interval of ANOTHER member's support"""
    out = set()
    for i, a in enumerate(sups):
        for j, b in enumerate(sups):
            if i != j:
                out.update(e for _, e in a if any(s == e for s, _ in b))
    return out


def only_touching_trim(x2s, touches):
    """every doubled coordinate lies strictly inside the microsecond that precedes a touching point"""
    return bool(x2s) and all(any(2 * (p - 1000) < x2 < 2 * p for p in touches) for x2 in x2s)


def mk_iset(nap, ep):
    return nap.IntervalSet(G.arr([s for s, _ in ep]), G.arr([e for _, e in ep]))


def ns_list(x):
    """C.to_ns of every element (round half to even of x * 1e9), vectorised"""
    return np.rint(np.asarray(x, dtype=np.float64) * 1e9).astype(np.int64).tolist()


def ticks_iset(ep):
    v = ns_list(ep.values)
    return [(a, b) for a, b in v]


def mk_member(nap, kind, t, sup):
    """t, sup in ticks"""
    if kind == 1:
        return G.arr(t)
    if kind == 2:
        return nap.Ts(G.arr(t))
    if kind == 4:
        return nap.Tsd(G.arr(t), np.arange(len(t)) + 50.0, time_support=mk_iset(nap, sup))
    return nap.Ts(G.arr(t), time_support=mk_iset(nap, sup))


# --------------------------------------------------------------------------------------
# argument FORMS: the same instants / keys / flags handed over in another container, dtype, unit, call style or object history.
# A form never changes what the statement expects: the oracle always works from the ticks of the specification.
DIV = {"s": 10 ** 9, "ms": 10 ** 6, "us": 10 ** 3}
INTF = {"i64": np.int64, "i32": np.int32, "i16": np.int16, "u8": np.uint8, "u16": np.uint16, "u32": np.uint32, "u64": np.uint64}
TFORMS = ("f64", "list", "tuple", "series", "pdindex", "i64", "i32", "i16", "u8", "u16", "u32", "u64", "f32", "pyint", "unsorted", "view", "strided",
          "tsindex", "dot_t", "scalar", "npscalar")
RAW_TFORMS = ("f64", "list", "series", "pdindex", "i64", "i32", "i16", "u8", "u16", "u32", "u64", "f32", "pyint", "unsorted", "view", "strided", "tsindex", "dot_t")
SFORMS = ("f64", "list", "tuple", "series", "i64", "i32", "u8", "u16", "u64", "f32", "pyint", "pairs", "pairs_list", "df", "copy", "meta", "shuffled", "scalar",
          "npscalar", "view", "positional")
DDTYPES = ("f64", "f32", "i64", "i32", "i16", "i8", "u8", "u16", "u64", "bool", "nan", "inf", "const", "zeros")
CANON_KIND = {0: 0, 1: 1, 2: 2, 4: 4, 5: 0, 6: 0, 7: 2}   # 5 TsdFrame(t, d, support) 6 TsdTensor(t, d, support) 7 Tsd(t, d): same timestamps / support as Ts
MODEL_KIND = {0: 0, 1: 1, 2: 2, 4: 0, 5: 0, 6: 0, 7: 2}


def tvals(ticks, tu):
    """the instants `ticks` (ns) as float64 numbers of the unit tu"""
    if tu == "s":
        return G.arr(ticks)
    return np.asarray(ticks, dtype=np.float64) / DIV[tu] if len(ticks) else np.array([], dtype=np.float64)


def tform(nap, ticks, tu, f, salt=0):
    """the instants `ticks` as a time argument of unit tu in container / dtype form f -> (object, unit to pass) or None when f cannot hold them exactly"""
    v = tvals(ticks, tu)
    n = len(ticks)
    whole = all(x % DIV[tu] == 0 for x in ticks)
    iv = [x // DIV[tu] for x in ticks]
    if f == "f64":
        return v, tu
    if f == "list":
        return [float(x) for x in v], tu
    if f == "tuple":
        return tuple(float(x) for x in v), tu
    if f == "series":
        return pd.Series(v, dtype=np.float64), tu
    if f == "pdindex":
        return pd.Index(v, dtype=np.float64), tu
    if f in INTF:
        ii = np.iinfo(INTF[f])
        if not whole or (n and (min(iv) < ii.min or max(iv) > ii.max)):
            return None
        return np.array(iv, dtype=INTF[f]), tu
    if f == "f32":
        w = v.astype(np.float32)
        return (w, tu) if np.array_equal(w.astype(np.float64), v) else None
    if f == "pyint":
        return ([int(x) for x in iv], tu) if whole else None
    if f == "unsorted":
        if n < 2 or ticks[0] == ticks[-1]:
            return None
        return (v[::-1].copy() if salt % 2 == 0 else np.roll(v, 1 + salt % (n - 1))), tu
    if f == "view":
        base = np.full(n + 2, -77.0)
        base[1:-1] = v
        return base[1:-1], tu
    if f == "strided":
        base = np.full(2 * n, -77.0)
        base[::2] = v
        return base[::2], tu
    if f == "tsindex":     # another object's index: already seconds
        return nap.Ts(v, time_units=tu).index, "s"
    if f == "dot_t":
        return nap.Ts(v, time_units=tu).t, "s"
    if f == "scalar":
        if n != 1:
            return None
        return (int(iv[0]) if whole and salt % 2 else float(v[0])), tu
    if f == "npscalar":
        if n != 1:
            return None
        if whole and salt % 3 == 0:
            return np.int64(iv[0]), tu
        if salt % 3 == 1 and float(np.float32(v[0])) == float(v[0]):
            return np.float32(v[0]), tu
        return np.float64(v[0]), tu
    raise ValueError(f)


def sform(nap, ep, tu, f, salt=0):
    """the interval set ep (ticks) as an IntervalSet built in unit tu through form f, or None when f cannot hold it exactly"""
    n = len(ep)
    st, en = [s for s, _ in ep], [e for _, e in ep]
    if f == "f64" and tu == "s":
        return mk_iset(nap, ep)
    if f in ("f64", "list", "tuple", "series", "f32", "pyint", "view") or f in INTF:
        a, b = tform(nap, st, tu, f), tform(nap, en, tu, f)
        if a is None or b is None:
            return None
        return nap.IntervalSet(start=a[0], end=b[0], time_units=tu)
    if f == "positional":
        return nap.IntervalSet(tvals(st, tu), tvals(en, tu), tu, None)
    if f in ("scalar", "npscalar"):
        a, b = tform(nap, st, tu, f, salt), tform(nap, en, tu, f, salt)
        if a is None or b is None:
            return None
        return nap.IntervalSet(a[0], b[0], time_units=tu)
    if f == "pairs":
        return nap.IntervalSet(np.column_stack([tvals(st, tu), tvals(en, tu)]), time_units=tu) if n else None
    if f == "pairs_list":
        return nap.IntervalSet([(float(a), float(b)) for a, b in zip(tvals(st, tu), tvals(en, tu))], time_units=tu) if n else None
    if f == "df":
        return nap.IntervalSet(pd.DataFrame({"start": tvals(st, tu), "end": tvals(en, tu)}), time_units=tu)
    if f == "copy":
        return nap.IntervalSet(nap.IntervalSet(tvals(st, tu), tvals(en, tu), time_units=tu))
    if f == "meta":
        return nap.IntervalSet(tvals(st, tu), tvals(en, tu), time_units=tu, metadata={"lab": list(range(n))}) if n else None
    if f == "shuffled":
        return nap.IntervalSet(tvals(st, tu)[::-1].copy(), tvals(en, tu)[::-1].copy(), time_units=tu) if n >= 2 else None
    raise ValueError(f)


def sform_or(nap, ep, tu, f, salt=0):
    """-> (IntervalSet, form actually used)"""
    r = sform(nap, ep, tu, f, salt)
    return (r, f) if r is not None else (sform(nap, ep, tu, "f64"), "f64")


def ddata(n, dd, width=None):
    """data of a Tsd / TsdFrame / TsdTensor member or source in dtype / content class dd (the statement speaks of timestamps only)"""
    base = np.arange(n) + 50
    if dd == "f64":
        d = base.astype(np.float64)
    elif dd == "f32":
        d = base.astype(np.float32)
    elif dd in ("i64", "i32", "i16", "i8", "u8", "u16", "u64"):
        d = base.astype({"i64": np.int64, "i32": np.int32, "i16": np.int16, "i8": np.int8, "u8": np.uint8, "u16": np.uint16, "u64": np.uint64}[dd])
    elif dd == "bool":
        d = (base % 2).astype(bool)
    elif dd == "nan":
        d = base.astype(np.float64)
        d[::2] = np.nan
    elif dd == "inf":
        d = base.astype(np.float64)
        d[::3] = np.inf
        d[1::3] = -np.inf
    elif dd == "const":
        d = np.full(n, 7.0)
    else:
        d = np.zeros(n)
    if width is not None:
        d = np.stack([d] * width[0], axis=1) if len(width) == 1 else np.stack([d] * (width[0] * width[1]), axis=1).reshape(n, width[0], width[1])
    return d


def mk_member_form(nap, kind, t, sup, tu, tf, sf, dd, salt, isets=None):
    """a member in the requested form -> (object, forms actually used)"""
    r = tform(nap, t, tu, tf, salt) if (tf in RAW_TFORMS if kind == 1 else (tf != "series" or kind in (0, 2))) else None   # Tsd(t=Series) means index + values
    if r is None or (kind == 1 and r[1] != tu):
        r, tf = (tvals(t, tu), tu), "f64"
    tv, tue = r
    if kind == 1:
        return tv, (tf, None)
    ts = None
    if kind not in (2, 7):
        key = (tuple(sup), sf)
        if isets is not None and key in isets:
            ts, sf = isets[key], sf + "+shared"
        else:
            ts, sf = sform_or(nap, sup, tu, sf, salt)
            if isets is not None:
                isets[key] = ts
    else:
        sf = None
    n = len(t)
    pos = salt % 2 == 0
    if kind == 2:
        return (nap.Ts(tv, tue) if pos else nap.Ts(t=tv, time_units=tue, time_support=None)), (tf, sf)
    if kind == 0:
        return (nap.Ts(tv, tue, ts) if pos else nap.Ts(time_support=ts, time_units=tue, t=tv)), (tf, sf)
    if kind in (4, 7):
        d = ddata(n, dd)
        if tf == "scalar" and salt % 4 == 1:
            d = d[0]
        return (nap.Tsd(tv, d, tue, ts) if pos else nap.Tsd(t=tv, d=d, time_support=ts, time_units=tue)), (tf, sf)
    if tf in ("scalar", "npscalar"):
        tv = np.array([tv])
    if kind == 5:
        cols = [None, ["b", "a"], [7, 3], ["x", "x2"]][salt % 4]
        return nap.TsdFrame(tv, ddata(n, dd, (2,)), tue, ts, columns=cols), (tf, sf)
    return nap.TsdTensor(tv, ddata(n, dd, (2, 1)), time_units=tue, time_support=ts), (tf, sf)


class Spec:
    """a group to be constructed: keys (python object, code), tags, members (kind, t, sup) in ticks, support, flags.
    form = None: the plain form (dict / list of objects built from float64 second arrays, keyword call); otherwise a dict
    {tu, mf[], msf[], dd[], sf, call, data, md, share} that says how the SAME specification is handed to the library"""

    def __init__(self, keys, tags, members, sup, bypass, hastag=True, islist=False, form=None):
        self.keys, self.tags, self.members, self.sup, self.bypass, self.hastag, self.islist = keys, tags, members, sup, bypass, hastag, islist
        self.form = form
        self.used = None

    def args(self):
        a = ["%d %d %d %d" % (self.sup is not None, self.bypass, self.hastag, self.islist),
             C.fmt_iset(self.sup or []),
             " ".join("%d %d" % c for _, c in self.keys),
             C.fmt_ints(self.tags),
             C.fmt_ints([MODEL_KIND[k] for k, _, _ in self.members])]
        for _, t, s in self.members:
            a.append(C.fmt_ints(t))
            a.append(C.fmt_iset(s or []))
        return a

    def desc(self):
        d = {"keys": [repr(k) for k, _ in self.keys], "tags": self.tags, "members": [(k, t, s) for k, t, s in self.members], "support": self.sup,
             "bypass_check": self.bypass, "list_input": self.islist}
        if self.form is not None:
            d["form"] = self.form
        if not self.hastag:
            d["no_tag"] = True
        return d

    def _metadata(self, ik_list):
        md = None
        ik = ik_list
        if self.hastag:
            if ik is None:
                try:
                    ik = [int(k) for k, _ in self.keys]
                except Exception:
                    ik = None
            if ik is not None and len(set(ik)) == len(ik):
                order = sorted(range(len(ik)), key=lambda i: ik[i])
                md = pd.DataFrame({"tag": [self.tags[i] for i in order]}, index=[ik[i] for i in order])
        return md

    def build(self, nap):
        if self.form is not None:
            return self._build_form(nap)
        objs = [mk_member(nap, k, t, s) for k, t, s in self.members]
        kw = {}
        if self.sup is not None:
            kw["time_support"] = mk_iset(nap, self.sup)
        if self.islist:
            data = objs
            ik = list(range(len(objs)))
        else:
            data = {k: o for (k, _), o in zip(self.keys, objs)}
            ik = None
        md = self._metadata(ik)
        return nap.TsGroup(data, bypass_check=self.bypass, metadata=md, **kw), objs

    def _build_form(self, nap):
        import collections
        fm = self.form
        tu, n = fm["tu"], len(self.members)
        salt = fm.get("salt", 0)
        share = fm.get("share", "none")
        isets = {} if share in ("sup", "all") else None
        objs, used, memo = [], [], {}
        for i, (k, t, s) in enumerate(self.members):
            mkey = (k, tuple(t), None if s is None else tuple(s))
            if share in ("member", "all") and mkey in memo:      # the same live object under two keys
                o, u = memo[mkey]
                u = (u[0] + "+same_object", u[1])
            else:
                o, u = mk_member_form(nap, k, t, s, tu, fm["mf"][i], fm["msf"][i], fm["dd"][i], salt + i, isets)
                memo[mkey] = (o, u)
            objs.append(o)
            used.append(u)
        ts, sfu = None, None
        if self.sup is not None:
            key = (tuple(self.sup), fm["sf"])
            if isets is not None and key in isets:
                ts, sfu = isets[key], fm["sf"] + "+shared"
            else:
                ts, sfu = sform_or(nap, self.sup, tu, fm["sf"], salt)
        if self.islist:
            ik = list(range(n))
            df = fm.get("data", "list")
            data = {"list": lambda: objs, "tuple": lambda: tuple(objs), "gen": lambda: (o for o in objs), "iter": lambda: iter(objs),
                    "values": lambda: dict(enumerate(objs)).values()}[df]()
        else:
            ik = None
            df = fm.get("data", "dict")
            data = {k: o for (k, _), o in zip(self.keys, objs)}
            if df == "odict":
                data = collections.OrderedDict(data)
        md = self._metadata(ik)
        mdf = fm.get("md", "df")
        kwmd = {}
        if md is not None and mdf == "dict":
            md = {"tag": [int(x) for x in md["tag"].values]}
        elif md is not None and mdf == "dict_float":
            md = {"tag": [float(x) for x in md["tag"].values]}
        elif md is not None and mdf == "dict_arr":
            md = {"tag": np.asarray(md["tag"].values, dtype=np.int16)}
        elif md is not None and mdf == "kwargs":
            kwmd, md = {"tag": np.asarray(md["tag"].values)}, None
        elif md is not None and mdf == "kw_series":
            kwmd, md = {"tag": md["tag"]}, None
        call = fm.get("call", "kw")
        self.used = {"members": used, "support": sfu, "data": df, "md": mdf if self.hastag else None, "call": call}
        by = self.bypass
        if call == "pos" and not kwmd:
            g = nap.TsGroup(data, ts, tu, by, md)
        elif call == "allkw":
            g = nap.TsGroup(data=data, time_support=ts, time_units=tu, bypass_check=by, metadata=md, **kwmd)
        elif call == "mixed":
            g = nap.TsGroup(data, ts, bypass_check=by, time_units=tu, metadata=md, **kwmd)
        elif call == "min":     # only what differs from the defaults
            kw = dict(kwmd)
            if ts is not None:
                kw["time_support"] = ts
            if tu != "s":
                kw["time_units"] = tu
            if by:
                kw["bypass_check"] = True
            if md is not None:
                kw["metadata"] = md
            g = nap.TsGroup(data, **kw)
        else:
            kw = dict(kwmd)
            if ts is not None:
                kw["time_support"] = ts
            g = nap.TsGroup(data, bypass_check=by, metadata=md, time_units=tu, **kw)
        return g, objs


def impl_state(g):
    keys = [int(k) for k in g.keys()]
    hastag = "tag" in g._metadata.columns
    st = {"keys": keys, "sup": ticks_iset(g.time_support), "hastag": hastag,
          "tags": [int(g._metadata["tag"][k]) for k in g.keys()] if hastag else None,
          "index": [int(k) for k in g.index], "mem": []}
    rates = g.rates
    for k in g.keys():
        m = g[k]
        st["mem"].append((ns_list(m.t), ticks_iset(m.time_support), float(m.rate), float(rates[k])))
    return st


def parse_state(s):
    if s.startswith("ERR"):
        return None
    f = s.split("|")
    ints = lambda x: [int(v) for v in x.split()]
    prs = lambda x: [(a, b) for a, b in zip(ints(x)[0::2], ints(x)[1::2])]
    keys = ints(f[0])
    st = {"keys": keys, "sup": prs(f[1]), "hastag": f[2] == "1", "tags": ints(f[3]), "mem": []}
    for i in range(len(keys)):
        r = f[6 + 3 * i].split()
        st["mem"].append((ints(f[4 + 3 * i]), prs(f[5 + 3 * i]), None if r == ["nan"] else (int(r[0]), int(r[1]))))
    return st


def rate_ok(r, md):
    if md is None:
        return math.isnan(r)
    n, d = md
    return (not math.isnan(r)) and abs(r * d / 1e9 - n) < 1e-6


def states_agree(im, mo):
    """implementation state vs model state"""
    if im is None or mo is None:
        return im is None and mo is None
    if im["keys"] != mo["keys"] or im["sup"] != mo["sup"] or im["hastag"] != mo["hastag"]:
        return False
    if im["hastag"] and im["tags"] != mo["tags"]:
        return False
    for (t, s, r, r2), (mt, ms, mr) in zip(im["mem"], mo["mem"]):
        if t != mt or s != ms or not rate_ok(r, mr) or not rate_ok(r2, mr):
            return False
    return True


def tot(ep):
    return sum(e - s for s, e in ep)


def invariant_viol(st, within=True):
    """statement-level invariants of a group state (implementation side); returns None or (part, description, extra key fields).
    within = the group does not descend (through get only) from a construction that opted out of the restriction"""
    k = st["keys"]
    if k != sorted(set(k)) or st["index"] != k:
        return ("invariant", "keys are not the strictly increasing integers of the index", {})
    if not G.canonical(st["sup"]):
        return ("invariant", "time support is not canonical", {})
    for key, (t, s, r, r2) in zip(k, st["mem"]):
        if t != sorted(t):
            return ("invariant", "member %d not sorted" % key, {})
        if within and any(not G.mem(x, st["sup"]) for x in t):
            return ("invariant", "member %d has a sample outside the group's time support" % key, {})
        if not (math.isnan(r) and math.isnan(r2)) and r != r2:
            return ("invariant", "rate column differs from the member's rate for key %d" % key, {})
        if t and tot(st["sup"]) > 0 and not rate_ok(r2, (len(t), tot(st["sup"]))):
            return ("rate", "rate[%d] != len / total support duration" % key, {"bypass_check": not within, "member_support_is_group_support": bool(s == st["sup"])})
    return None


# --------------------------------------------------------------------------------------
# construction
def construction_specs(tier, rng):
    specs = []
    nt = len(TEMPL)

    def member(i):
        _, kind, t, s = TEMPL[i]
        return (kind, sc(t), None if s is None else sci(s))
    # (a) every ordered tuple of 1..4 keys of the pool, dict input; templates rotate with the case number
    c = 0
    for n in range(1, 5):
        for ks in itertools.permutations(range(len(KEYS)), n):
            for sup in (None, [(1, 5)]):
                for bypass in (False, True):
                    for rot in ((0, 1) if tier == "thorough" else (c % 2,)):
                        tm = [(c + rot * 5 + 3 * j) % nt for j in range(n)]
                        specs.append(("keys", Spec([KEYS[i] for i in ks], [(c + j) % 4 for j in range(n)], [member(i) for i in tm],
                                                   None if sup is None else sci(sup), bypass, hastag=(c % 3 != 0))))
                    c += 1
    # (b) every tuple of member templates (supports disjoint / overlapping / touching / identical / empty), every support choice
    tuples = []
    for n in (1, 2, 3):
        tuples += list(itertools.product(range(nt), repeat=n))
    extra = [tuple(rng.randrange(nt) for _ in range(4)) for _ in range(60 if tier == "quick" else 600)]
    if tier == "quick":
        small = [t for t in tuples if len(t) <= 2]
        tuples = small + rng.sample([t for t in tuples if len(t) == 3], 150)
    for tm in tuples + extra:
        n = len(tm)
        for si, sup in enumerate(SUPS):
            for bypass in (False, True):
                if tier == "quick" and n >= 3 and (si + bypass + sum(tm)) % 3:
                    continue
                order = list(range(len(KEYS)))
                rng.shuffle(order)
                islist = (sum(tm) + si) % 4 == 0
                specs.append(("supports", Spec([KEYS[i] for i in order[:n]], [rng.randrange(4) for _ in range(n)], [member(i) for i in tm],
                                               None if sup is None else sci(sup), bypass, islist=islist)))
    # (c) keys that must be rejected: non-numeric, fractional, two keys with the same integer value
    for bad in BADKEYS:
        for pos in (0, 1):
            ks = [KEYS[2], KEYS[4]]
            ks.insert(pos, bad)
            specs.append(("badkeys", Spec(ks, [0, 1, 2], [member(0), member(1), member(3)], None, False, hastag=False)))
    for dup in ([("5", (1, 5)), (5, (0, 5))], [(5.0, (3, 5)), ("5", (1, 5))], [(0, (0, 0)), ("0", (1, 0)), (2, (0, 2))], [("-3", (1, -3)), (-3.0, (3, -3))]):
        specs.append(("badkeys", Spec(dup, list(range(len(dup))), [member(j) for j in range(len(dup))], None, False, hastag=False)))
    return specs


# --------------------------------------------------------------------------------------
# construction in other argument forms
KEYS_F = [(np.int64(5), (0, 5)), (np.float64(2.0), (3, 2)), (np.int8(-3), (0, -3)), (np.uint8(200), (0, 200)), (True, (0, 1)), (" 7", (1, 7)), ("+10", (1, 10)),
          ("0012", (1, 12)), (np.float32(4.0), (3, 4)), (10 ** 6, (0, 10 ** 6)), (np.int16(0), (0, 0)), ("1_1", (1, 11)), (-1e3, (3, -1000)), ("-8", (1, -8))]
BADKEYS_F = [("1e1", (2, 0)), ("7.0", (2, 0)), ("", (2, 0)), (float("nan"), (2, 0)), (float("inf"), (2, 0)), (np.float64(2.5), (4, 2)), ((1, 2), (2, 0)),
             ("0x10", (2, 0)), (np.float32(-0.5), (4, 0)), ("seven", (2, 0))]
DUPKEYS_F = [[(np.int64(5), (0, 5)), ("5", (1, 5))], [(" 7", (1, 7)), ("007", (1, 7))], [(True, (0, 1)), ("1", (1, 1))], [(np.float64(3.0), (3, 3)), ("3", (1, 3)), (4, (0, 4))]]
TEMPL_F = [
    ("N", 0, [3, 3, 3], [(0, 4)]),                       # all timestamps equal, explicit support
    ("O", 2, [3, 3], None),                              # all timestamps equal, default support: EMPTY (known quirk, on purpose)
    ("P", 0, [5], [(0, 12)]),                            # one sample
    ("Q", 5, [1, 5, 11], [(0, 12)]),                     # a TsdFrame
    ("R", 6, [2, 4, 9], [(1, 10)]),                      # a TsdTensor
    ("S", 7, [2, 6, 9], None),                           # a Tsd with its default support
    ("T", 1, [], None),                                  # an empty raw array
    ("V", 2, [], None),                                  # an empty Ts
    ("X", 0, list(range(12)), [(0, 3), (4, 7), (8, 11)]),  # many samples, three intervals, samples exactly on every end
    ("Y", 1, [0, 6, 6, 12], None),                       # raw array with a duplicate
    ("Z", 4, [0, 4, 8, 12], [(0, 4), (8, 12)]),          # a Tsd with samples on the ends of two intervals
]
LATTICES = [(U, "s"), (U, "ms"), (U, "us"), (10 ** 9, "s"), (10 ** 9, "ms"), (10 ** 9, "us"), (10 ** 6, "ms"), (10 ** 6, "us"), (10 ** 3, "us"), (10 ** 6, "s"), (10 ** 3, "s"),
            (10 ** 8, "ms"), (10 ** 8, "us")]   # 0.1 s steps given in ms / us: whole numbers that a float32 holds exactly while their value in seconds is not a float32
WHOLE_LATTICES = [3, 4, 5, 6, 7, 8, 11, 12]     # every lattice point is a whole number of the unit: integer dtypes can hold the times
OFFSETS = [0, 0, -6, -13, "1e5s", "-1e3s"]    # in lattice steps, or an absolute offset (a multiple of every lattice step)
CALLS = ("kw", "pos", "allkw", "mixed", "min")
MDFORMS = ("df", "dict", "dict_arr", "dict_float", "kwargs", "kw_series")
SHARES = ("none", "none", "sup", "member", "all")


def off_ticks(o, unit):
    return {"1e5s": 10 ** 14, "-1e3s": -10 ** 12}[o] if isinstance(o, str) else o * unit


def lat(v, unit, off):
    """template coordinate (n or (n, ns)) -> ticks on the lattice unit, shifted by off ticks"""
    return v[0] * unit + v[1] + off if isinstance(v, tuple) else v * unit + off


def lat_ep(ep, unit, off):
    return [(lat(a, unit, off), lat(b, unit, off)) for a, b in ep]


def relat(x, unit, off):
    """a tick of the lattice U (as the operation generators draw them) -> the same lattice point of another lattice"""
    q, r = divmod(x, U)
    if r > U // 2:
        q, r = q + 1, r - U
    return q * unit + r + off


def rand_form(rng, members, unit_i, c=None, pin=None):
    """a random form for a specification; pin = {field: value} forces chosen fields (used to cycle through every class of form)"""
    unit, tu = LATTICES[unit_i]
    n = len(members)
    pin = pin or {}
    fm = {"tu": tu, "salt": rng.randrange(1000),
          "mf": [rng.choice(RAW_TFORMS if k == 1 else TFORMS) if rng.random() < 0.7 else "f64" for k, _, _ in members],
          "msf": [rng.choice(SFORMS) if rng.random() < 0.5 else "f64" for _ in range(n)],
          "dd": [rng.choice(DDTYPES) for _ in range(n)],
          "sf": rng.choice(SFORMS), "call": rng.choice(CALLS), "md": rng.choice(MDFORMS), "share": rng.choice(SHARES)}
    for k_, v in pin.items():
        if k_ in ("mf", "msf", "dd"):
            if n:
                j = rng.randrange(n)
                if k_ != "mf" or members[j][0] != 1 or v in RAW_TFORMS:
                    fm[k_][j] = v
        else:
            fm[k_] = v
    return fm


def form_specs(tier, seed):
    """specifications handed over in every class of argument form (cycled deterministically so that the quick tier meets each class), the rest sampled"""
    rng = random.Random(seed * 17 + 1201)
    pool_t = TEMPL + TEMPL_F
    out = []
    N = 800 if tier == "quick" else 9000
    pins = [("mf", f) for f in TFORMS] + [("msf", f) for f in SFORMS] + [("sf", f) for f in SFORMS] + [("dd", f) for f in DDTYPES] \
        + [("call", f) for f in CALLS] + [("md", f) for f in MDFORMS] + [("share", f) for f in SHARES[1:]] + [("data", f) for f in ("odict", "tuple", "gen", "iter", "values")]
    for c in range(N):
        pk, pv = pins[c % len(pins)]
        needs_whole = pv in INTF or pv in ("pyint", "f32", "scalar", "npscalar")
        unit_i = rng.choice(WHOLE_LATTICES) if (needs_whole and rng.random() < 0.9) else rng.randrange(len(LATTICES))
        unit, tu = LATTICES[unit_i]
        o = rng.choice(OFFSETS if unit >= 10 ** 6 else OFFSETS[:4])   # 1e5 s away a float64 resolves 15 ps: microsecond-long supports would make the rate a rounding matter
        if pv in ("u8", "u16", "u32", "u64") and rng.random() < 0.8:
            o = 0
        if pv == "u8" or pv == "f32":
            unit_i = 3 if pv == "u8" else rng.choice([3, 4, 6])
            unit, tu = LATTICES[unit_i]
        off = off_ticks(o, unit)
        n = rng.choice([0, 1, 2, 2, 3, 3, 4]) if c % 23 else 0
        tm = [rng.randrange(len(pool_t)) for _ in range(n)]
        if abs(off) >= 10 ** 12:     # no sub-microsecond features far from the origin (the rate of a 500 ns support would be a rounding matter)
            tm = [i if not any(isinstance(v, tuple) for v in pool_t[i][2]) else 0 for i in tm]
        if pk in ("mf", "msf") and pv in ("scalar", "npscalar") and n:
            tm[0] = [i for i, x in enumerate(pool_t) if x[0] in ("P", "M")][1 if abs(off) >= 10 ** 12 else c % 2]      # one sample / one interval (M, P)
        if pk == "dd" and n:
            tm[0] = [i for i, x in enumerate(pool_t) if x[1] in (4, 5, 6, 7)][c % 5]
        members = []
        for i in tm:
            _, kind, t, sp = pool_t[i]
            members.append((kind, [lat(v, unit, off) for v in t], None if sp is None else lat_ep(sp, unit, off)))
        sup = rng.choice(SUPS + [[(0, 12)], None, [(0, 3), (4, 7), (8, 11)]])
        if pk == "sf" and sup is None:
            sup = [(0, 12)] if pv in ("scalar", "npscalar") else rng.choice(SUPS[1:4])
        if pk == "sf" and pv in ("scalar", "npscalar"):
            sup = rng.choice([[(0, 12)], [(1, 5)]])
        if pk == "sf" and pv in ("shuffled",):
            sup = [(3, 5), (9, 11)]
        islist = rng.random() < 0.25 or pk == "data" and pv != "odict"
        if pk == "data" and pv == "odict":
            islist = False
        keypool = KEYS_F + KEYS if rng.random() < 0.7 else KEYS + KEYS2[:1]
        order = list(range(len(keypool)))
        rng.shuffle(order)
        keys, seen = [], set()
        for i in order:
            if keypool[i][1][1] not in seen and len(keys) < n:
                keys.append(keypool[i])
                seen.add(keypool[i][1][1])
        pin = {pk: pv}
        if islist and pk != "data":
            pin["data"] = rng.choice(["list", "tuple", "gen", "iter", "values"])
        fm = rand_form(rng, members, unit_i, pin=pin)
        out.append(("forms", Spec(keys, [rng.randrange(4) for _ in range(n)], members, None if sup is None else lat_ep(sup, unit, off), rng.random() < 0.3,
                                  hastag=rng.random() < 0.8, islist=islist, form=fm)))
    # keys that must be rejected, in other spellings
    byname = {x[0]: x for x in pool_t}

    def member_of(name):
        _, kind, t, sp = byname[name]
        return (kind, sc(t), None if sp is None else sci(sp))
    for bad in BADKEYS_F:
        for pos in (0, 1, 2):
            ks = [KEYS_F[0], KEYS_F[5]]
            ks.insert(pos, bad)
            ms = [member_of("A"), member_of("B"), member_of("D")]
            out.append(("badkeys", Spec(ks, [0, 1, 2], ms, None, False, hastag=False, form=rand_form(rng, ms, 0, pin={"data": "dict"}))))
    for dup in DUPKEYS_F:
        ms = [member_of("ABD"[j]) for j in range(len(dup))]
        out.append(("badkeys", Spec(dup, list(range(len(dup))), ms, None, False, hastag=False, form=rand_form(rng, ms, 0, pin={"data": "dict"}))))
    return out


_SUPPLIED = {}


def supplied(nap, kind, t, s):
    """the member as supplied, built once in the canonical form (float64 seconds, Ts / Tsd): its own (timestamps, support) in ticks.
    TsdFrame / TsdTensor members carry the timestamps and support of the Ts built from the same arguments"""
    key = (CANON_KIND[kind], tuple(t), None if s is None else tuple(s))
    if key not in _SUPPLIED:
        o = mk_member(nap, key[0], t, s)
        _SUPPLIED[key] = (tuple(C.to_ns(x) for x in (o if kind == 1 else o.t)), None if kind == 1 else ticks_iset(o.time_support))
    return _SUPPLIED[key]


def count_forms(res, spec):
    u = spec.used
    if not u:
        return
    fm = spec.form
    res.count("form:time_units=" + fm["tu"])
    res.count("form:call=" + u["call"])
    res.count("form:data=" + u["data"])
    if u["md"]:
        res.count("form:metadata=" + u["md"])
    if u["support"]:
        res.count("form:support=" + u["support"])
    if fm.get("share", "none") != "none":
        res.count("form:share=" + fm["share"])
    for (k, _, _), (tf, sf), dd in zip(spec.members, u["members"], fm["dd"]):
        res.count("form:member_t=" + tf)
        res.count("form:member_class=" + {0: "Ts", 1: "raw", 2: "Ts(default support)", 4: "Tsd", 5: "TsdFrame", 6: "TsdTensor", 7: "Tsd(default support)"}[k])
        if sf:
            res.count("form:member_support=" + sf)
        if k in (4, 5, 6, 7):
            res.count("form:member_data=" + dd)


def check_construction(nap, res, spec, model_line, part):
    inp = spec.desc()
    mo = parse_state(model_line)
    try:
        g, objs = spec.build(nap)
        im = impl_state(g)
        err = None
    except Exception as ex:
        g, im, err = None, None, ex
    # what the statement expects, from the inputs alone
    try:
        ik = list(range(len(spec.members))) if spec.islist else [int(k) for k, _ in spec.keys]
        valid = spec.islist or all(float(k) == int(k) for k, _ in spec.keys)
    except Exception:
        ik, valid = None, False
    if ik is not None and len(set(ik)) != len(ik):
        valid = False
    nontrivial = valid and len(spec.members) >= 2 and (ik != sorted(ik) or part != "keys")
    res.case((part, str(inp)), nontrivial=bool(nontrivial))
    res.count(part)
    res.count("n_members=%d" % len(spec.members))
    count_forms(res, spec)
    if any(k in (2, 7) and t and t[0] == t[-1] for k, t, _ in spec.members):
        # a series whose timestamps all coincide, built without a support: its default support is empty and its own rate is len / 0 (known quirk);
        # the model does not cover that rate, the statement's clauses below are evaluated all the same
        res.count("model_not_compared(coinciding timestamps, default support)")
    elif not states_agree(im, mo):
        res.disagreements.append({"op": "TsGroup()", "input": inp, "impl": im if im is not None else repr(err), "model": model_line})
    if not valid:
        res.count("rejected_keys")
        if err is None:
            res.violations.append({"key": {"op": "init", "part": "bad_keys"}, "what": "keys that are not distinct integer values were accepted", "input": inp, "impl": im["keys"]})
        else:
            res.count("rejected_with_" + type(err).__name__)
        return None
    # member objects as supplied (their own timestamps / supports)
    built = [supplied(nap, k, t, s) for k, t, s in spec.members]
    if spec.sup is None:
        msup = []
        for (_, bsup), (k, t, s) in zip(built, spec.members):
            if k == 1:
                msup.append([(t[0], t[-1])] if t and t[0] < t[-1] else [])
            else:
                msup.append(bsup)
        union_empty = not any(msup)
    else:
        union_empty = False
    if err is not None:
        if spec.sup is None and union_empty and isinstance(err, RuntimeError):
            res.count("empty_union_rejected")
            return None
        res.violations.append({"key": {"op": "init", "part": "exception"}, "what": "TsGroup() raised %s on valid input" % type(err).__name__, "input": inp, "impl": repr(err)})
        return None
    order = sorted(range(len(ik)), key=lambda i: ik[i])
    kk = {"op": "init", "bypass_check": bool(spec.bypass), "explicit_support": spec.sup is not None}
    # 1. keys
    if im["keys"] != sorted(ik) or im["index"] != sorted(ik):
        res.violations.append({"key": dict(kk, part="keys"), "what": "keys are not the integer values of the supplied keys in increasing order", "input": inp,
                               "impl": im["keys"], "expected": sorted(ik)})
        return g
    # 2. support: the one supplied, else EXACTLY the union (as a point set) of the members' supports
    touches = set()
    two = len(spec.members) == 2
    if spec.sup is not None:
        want = list(spec.sup)
        if im["sup"] != spec.sup:
            res.violations.append({"key": dict(kk, part="support"), "what": "the time support is not the one supplied", "input": inp, "impl": im["sup"], "expected": spec.sup})
    else:
        sups = [msup[i] for i in order]
        want = exact_union(sups)
        touches = touch_points(sups)
        if touches:
            res.count("union_of_touching_supports(n=%s)" % ("2" if two else "3+"))
        bad = diff_points(im["sup"], want)
        if bad or not G.canonical(im["sup"]):
            res.violations.append({"key": dict(kk, part="support_union", two_members_touching_supports=bool(two and only_touching_trim(bad, touches))),
                                   "what": "the time support is not the union of the members' supports", "input": inp,
                                   "impl": im["sup"], "expected": "%s = union of %s (differs at ns %s)" % (want, sups, [x / 2 for x in bad[:3]])})
    # 3. members restricted to the support the statement fixes (or untouched when the caller opts out); 4. rate
    for j, i in enumerate(order):
        src = list(built[i][0])
        if spec.members[i][0] == 1 and spec.sup is not None:
            src = [x for x in src if G.mem(x, spec.sup)]   # raw arrays become Ts(t, time_support = the supplied support)
        exp = src if spec.bypass else [x for x in src if G.mem(x, want)]
        got, gs, r, r2 = im["mem"][j]
        if got != exp:
            lost = [x for x in exp if x not in got]
            res.violations.append({"key": dict(kk, part="members", two_members_touching_supports=bool(two and lost and [x for x in exp if x in got] == got
                                                                                                     and only_touching_trim([2 * x for x in lost], touches))),
                                   "what": "member %d is not the supplied member %s" % (im["keys"][j], "as given" if spec.bypass else "restricted to the group's support"),
                                   "input": inp, "impl": got, "expected": exp})
        if got and tot(im["sup"]) > 0:
            if spec.bypass and gs != im["sup"]:
                res.count("bypass_member_keeps_own_support")
            if not rate_ok(r2, (len(got), tot(im["sup"]))):
                res.violations.append({"key": dict(kk, part="rate", member_support_is_group_support=bool(gs == im["sup"])),
                                       "what": "rate[%d] != len(member) / total support duration" % im["keys"][j], "input": inp,
                                       "impl": r2, "expected": "%d / (%d ns)" % (len(got), tot(im["sup"]))})
        elif got:
            res.count("rate_not_evaluated(zero-duration support)")
        if spec.hastag and im["tags"][j] != spec.tags[i]:
            res.disagreements.append({"op": "TsGroup() tags", "input": inp, "impl": im["tags"], "expected": [spec.tags[q] for q in order]})
    return g


# --------------------------------------------------------------------------------------
# histories
def rand_spec(rng, pool, sup, nmax=4, bypass_p=0.12, hastag_p=0.93):
    n = rng.randint(1, nmax)
    order = list(range(len(pool)))
    rng.shuffle(order)
    mem = []
    for _ in range(n):
        _, kind, t, s = TEMPL[rng.randrange(len(TEMPL))]
        mem.append((kind, sc(t), None if s is None else sci(s)))
    return Spec([pool[i] for i in order[:n]], [rng.randrange(4) for _ in range(n)], mem, sup, rng.random() < bypass_p, hastag=rng.random() < hastag_p)


EPS = [[(0, 12)], [(1, 5)], [(3, 5), (9, 11)], [], [(0, 4), (6, 12)], [(2, 3)], [(4, 10)]]


class Shadow:
    """generator-side bookkeeping of the current keys / tags / support, used ONLY to draw operations that mostly succeed
    (it shapes the input distribution; it is not an oracle: a wrong guess just yields an operation that raises on both sides)"""

    def __init__(self, spec):
        try:
            ik = [int(k) for k, _ in spec.keys]
        except Exception:
            ik = []
        self.tags = dict(zip(ik, spec.tags))
        self.keys = sorted(self.tags)
        self.hastag = spec.hastag
        self.sup = None if spec.sup is None else tuple(spec.sup)

    def apply(self, op, aux):
        k = op[0]
        if k == "keys":
            if all(x in self.keys for x in op[1]) and len(set(op[1])) == len(op[1]):
                self.keys = sorted(op[1])
        elif k == "mask":
            if len(op[1]) == len(self.keys):
                self.keys = [x for x, m in zip(self.keys, op[1]) if m]
        elif k in ("thr", "cat", "int") and self.hastag:
            tg = [self.tags.get(x, 0) for x in self.keys]
            if k == "thr":
                f = {0: lambda x: x > op[2], 1: lambda x: x < op[2], 2: lambda x: x >= op[2], 3: lambda x: x <= op[2]}[op[1]]
                self.keys = [x for x, t in zip(self.keys, tg) if f(t)]
            elif k == "cat":
                sel = [x for x, t in zip(self.keys, tg) if t == op[1]]
                self.keys = sel or self.keys
            else:
                cl = [[x for x, t in zip(self.keys, tg) if op[1][i] <= t < op[1][i + 1]] for i in range(len(op[1]) - 1)]
                cl = [c for c in cl if c]
                if op[2] < len(cl):
                    self.keys = cl[op[2]]
        elif k == "restrict":
            self.sup = tuple(op[1])
        elif k == "rt":
            self.hastag = False
        elif k == "msplit":
            if len(op[1]) == len(self.keys) == len(op[2]):
                a = [x for x, m in zip(self.keys, op[1]) if m]
                b = [x for x, m in zip(self.keys, op[2]) if m]
                if op[3]:
                    self.keys = list(range(len(a) + len(b)))
                    self.tags = {}
                elif not set(a) & set(b):
                    self.keys = sorted(a + b)
                else:
                    return
                if op[5]:
                    self.hastag = False
        elif k == "mwith":
            ok = (op[4] or self.hastag == aux.hastag) and (op[3] or (self.sup is not None and self.sup == aux.sup))
            if ok and op[2]:
                self.keys = list(range(len(self.keys) + len(aux.keys)))
                self.tags = {}
            elif ok and not set(self.keys) & set(aux.keys):
                self.keys = sorted(self.keys + aux.keys)
                self.tags.update(aux.tags)
            else:
                return
            if op[4]:
                self.hastag = False


def rand_op(rng, sh, keypool):
    r = rng.random()
    fl = lambda p: int(rng.random() < p)
    n = len(sh.keys)
    tg = sorted(set(sh.tags.get(x, 0) for x in sh.keys)) or [0]
    if r < 0.14:
        if rng.random() < 0.8 and n:
            ks = rng.sample(sh.keys, rng.randint(0, min(3, n)))
        else:
            ks = [rng.choice(keypool) for _ in range(rng.randint(0, 3))]
        return ("keys", ks)
    if r < 0.26:
        m = n if rng.random() < 0.92 else n + 1
        return ("mask", [fl(0.7) for _ in range(m)])
    if r < 0.36:
        return ("thr", rng.randrange(4), rng.randrange(4))
    if r < 0.43:
        return ("cat", rng.choice(tg) if rng.random() < 0.85 else rng.randrange(4))
    if r < 0.50:
        return ("int", rng.choice([[0, 2, 4], [1, 2, 3], [0, 1], [2, 5, 7], [0, 4]]), 0 if rng.random() < 0.7 else 1)
    if r < 0.62:
        return ("restrict", sci(rng.choice(EPS)))
    if r < 0.72:
        a, b = rng.randrange(-1, 13), rng.randrange(-1, 13)
        if rng.random() < 0.93 and a > b:
            a, b = b, a
        return ("get", a * U, b * U)
    if r < 0.80:
        return ("rt",)
    if r < 0.90:
        m1 = [fl(0.5) for _ in range(n)]
        m2 = [1 - x if rng.random() < 0.9 else x for x in m1]
        return ("msplit", m1, m2, fl(0.2), fl(0.3), fl(0.5))
    return ("mwith", fl(0.5), fl(0.25), fl(0.35), fl(0.5))


def op_args(op):
    k = op[0]
    if k == "keys":
        return ["0", C.fmt_ints(op[1]), ""]
    if k == "mask":
        return ["1", C.fmt_ints(op[1]), ""]
    if k == "thr":
        return ["2 %d %d" % (op[1], op[2]), "", ""]
    if k == "cat":
        return ["3 %d" % op[1], "", ""]
    if k == "int":
        return ["4 %d" % op[2], C.fmt_ints(op[1]), ""]
    if k == "restrict":
        return ["5", C.fmt_iset(op[1]), ""]
    if k == "get":
        return ["6 %d %d" % (op[1], op[2]), "", ""]
    if k == "rt":
        return ["7", "", ""]
    if k == "msplit":
        return ["8 %d %d %d" % (op[3], op[4], op[5]), C.fmt_ints(op[1]), C.fmt_ints(op[2])]
    return ["9 %d %d %d %d" % (op[2], op[3], op[4], op[1]), "", ""]


def apply_op(nap, g, op, aux, sty=None):
    if sty is not None:
        return apply_op_form(nap, g, op, aux, sty)
    k = op[0]
    if k == "keys":
        return g[list(op[1])]
    if k == "mask":
        return g[np.array(op[1], dtype=bool)]
    if k == "thr":
        return g.getby_threshold("tag", op[2], OPS[op[1]])
    if k == "cat":
        return g.getby_category("tag")[op[1]]
    if k == "int":
        return g.getby_intervals("tag", np.array(op[1]))[0][op[2]]
    if k == "restrict":
        return g.restrict(mk_iset(nap, op[1]))
    if k == "get":
        return g.get(op[1] / 1e9, op[2] / 1e9)
    if k == "rt":
        return g.to_tsd().to_tsgroup()
    if k == "msplit":
        return g[np.array(op[1], dtype=bool)].merge(g[np.array(op[2], dtype=bool)], reset_index=bool(op[3]), reset_time_support=bool(op[4]), ignore_metadata=bool(op[5]))
    a, b = (g, aux) if op[1] else (aux, g)
    return a.merge(b, reset_index=bool(op[2]), reset_time_support=bool(op[3]), ignore_metadata=bool(op[4]))


KEYLIST_FORMS = ("list", "ndarray_i64", "list_np_int", "list_float", "pd_index", "ndarray_i32", "ndarray_float", "ndarray_i8_or_i64")
MASK_FORMS = ("ndarray_bool", "list_bool", "series_bool", "list_np_bool", "comparison")
SCALAR_FORMS = ("float", "int_if_whole", "np_float64", "np_int64_if_whole", "np_float32_if_exact")


def scalar_form(x, tu, f):
    """the instant x (ticks) as a scalar of unit tu -> (value, name of the form used)"""
    v = x / 1e9 if tu == "s" else x / DIV[tu]
    whole = x % DIV[tu] == 0
    name = SCALAR_FORMS[f % len(SCALAR_FORMS)]
    if name == "int_if_whole" and whole:
        return int(x // DIV[tu]), "int"
    if name == "np_float64":
        return np.float64(v), name
    if name == "np_int64_if_whole" and whole:
        return np.int64(x // DIV[tu]), "np_int64"
    if name == "np_float32_if_exact" and float(np.float32(v)) == v:
        return np.float32(v), "np_float32"
    return float(v), "float"


def mask_form(g, m, f, used):
    name = MASK_FORMS[f % len(MASK_FORMS)] if len(m) else "ndarray_bool"     # an empty python list is an empty list of keys, not a mask
    if name == "series_bool" and len(m) == len(g):
        used.append("mask=" + name)
        return pd.Series([bool(x) for x in m], index=list(g.keys()), dtype=bool)
    if name == "list_bool":
        used.append("mask=" + name)
        return [bool(x) for x in m]
    if name == "list_np_bool":
        used.append("mask=" + name)
        return [np.bool_(x) for x in m]
    if name == "comparison":
        used.append("mask=" + name)
        return np.array(m, dtype=np.int64) > 0
    used.append("mask=ndarray_bool")
    return np.array(m, dtype=bool)


def merge_form(nap, a, b, ri, rs, im, f, used):
    kw = {"reset_index": bool(ri), "reset_time_support": bool(rs), "ignore_metadata": bool(im)}
    c = f % 4
    if c == 1:
        used.append("merge=static merge_group(a, b)")
        return nap.TsGroup.merge_group(a, b, **kw)
    if c == 2:
        used.append("merge=only non-default flags")
        return a.merge(b, **{k_: v for k_, v in kw.items() if v})
    if c == 3:
        used.append("merge=merge_group(*[a, b]) numpy bool flags")
        return nap.TsGroup.merge_group(*[a, b], **{k_: bool(np.bool_(v)) for k_, v in kw.items()})
    used.append("merge=a.merge(b)")
    return a.merge(b, **kw)


def apply_op_form(nap, g, op, aux, sty):
    """the same operation as apply_op, called through another argument form (container, dtype, unit, positional / keyword, defaults omitted, live object reused)"""
    k, f = op[0], sty["f"]
    used = sty.setdefault("used", [])
    if k == "keys":
        ks = [int(x) for x in op[1]]
        name = KEYLIST_FORMS[f % len(KEYLIST_FORMS)]
        used.append("keys=" + name)
        small = all(-128 <= x < 128 for x in ks)
        key = {"list": lambda: ks, "ndarray_i64": lambda: np.array(ks, dtype=np.int64), "list_np_int": lambda: [np.int64(x) if i % 2 else np.int32(x) for i, x in enumerate(ks)],
               "list_float": lambda: [float(x) for x in ks], "pd_index": lambda: pd.Index(ks, dtype="int64"), "ndarray_i32": lambda: np.array(ks, dtype=np.int32),
               "ndarray_float": lambda: np.array(ks, dtype=np.float64), "ndarray_i8_or_i64": lambda: np.array(ks, dtype=np.int8 if small else np.int64)}[name]()
        return g[key]
    if k == "mask":
        return g[mask_form(g, op[1], f, used)]
    if k == "thr":
        c = f % 6
        thr = [op[2], float(op[2]), np.int64(op[2]), np.float32(op[2]), op[2], np.float64(op[2])][c]
        c2 = (f // 6) % 3
        if op[1] == 0 and (f // 18) % 2:
            c2 = 2          # the default operator is '>': leave it out
        elif c2 == 2 and op[1] != 0:
            c2 = 0
        used += ["thr_type=" + type(thr).__name__, "thr_call=" + ["positional", "keyword", "op omitted ('>' is the default)"][c2]]
        if c2 == 1:
            return g.getby_threshold(key="tag", thr=thr, op=OPS[op[1]])
        if c2 == 2:
            return g.getby_threshold("tag", thr) if (f // 36) % 2 else g.getby_threshold(thr=thr, key="tag")
        return g.getby_threshold("tag", thr, OPS[op[1]])
    if k == "cat":
        used.append("cat=" + ["positional", "keyword", "np.int64 class label"][f % 3])
        d = g.getby_category(key="tag") if f % 3 == 1 else g.getby_category("tag")
        return d[np.int64(op[1])] if f % 3 == 2 else d[op[1]]
    if k == "int":
        c = f % 5
        bins = [lambda: np.array(op[1]), lambda: list(op[1]), lambda: tuple(op[1]), lambda: np.array(op[1], dtype=np.float64), lambda: np.array(op[1], dtype=np.int16)][c]()
        used += ["bins=" + type(bins).__name__ + (" " + str(bins.dtype) if c in (0, 3, 4) else ""), "bins_call=" + ("keyword" if (f // 5) % 2 else "positional")]
        r = g.getby_intervals(key="tag", bins=bins) if (f // 5) % 2 else g.getby_intervals("tag", bins)
        return r[0][op[2]]
    if k == "restrict":
        tu = ("s", "ms", "us")[(f // 32) % 3]
        ep, sf = sform_or(nap, op[1], tu, SFORMS[f % len(SFORMS)], f)
        used += ["restrict_ep=" + sf, "restrict_ep_units=" + tu, "restrict_call=" + ("keyword" if (f // 128) % 2 else "positional")]
        return g.restrict(ep=ep) if (f // 128) % 2 else g.restrict(ep)
    if k == "get":
        tu = ("s", "ms", "us")[f % 3]
        a, fa = scalar_form(op[1], tu, f // 3)
        b, fb = scalar_form(op[2], tu, f // 15)
        c = (f // 75) % 3
        used += ["get_bound=" + fa, "get_bound=" + fb, "get_units=" + tu, "get_call=" + ["positional", "keyword", "mixed"][c]]
        sty["key"] = {"np_float32_bound": bool("np_float32" in (fa, fb))}
        if c == 1:
            return g.get(start=a, end=b, time_units=tu)
        if c == 2:
            return g.get(a, end=b, time_units=tu) if tu != "s" else g.get(a, b)
        return g.get(a, b, tu)
    if k == "rt":
        c = f % 4
        used.append("to_tsd=" + ["()", "(list of the keys)", "(ndarray of the keys)", "(Series of the keys)"][c])
        keys = [int(x) for x in g.keys()]
        if c == 1:
            return g.to_tsd(keys).to_tsgroup()
        if c == 2:
            return g.to_tsd(np.array(keys, dtype=np.int64)).to_tsgroup()
        if c == 3:
            return g.to_tsd(pd.Series(keys, index=keys, dtype=np.int64)).to_tsgroup()
        return g.to_tsd().to_tsgroup()
    if k == "msplit":
        if len(op[1]) == len(g) and all(op[1]) and all(op[2]) and (f // 4) % 2:
            used.append("merge=the same live group twice")
            sty["live"] = True
            a = b = g         # selecting every key gives the group itself (its members as they are, with the supports they carry)
        else:
            a, b = g[mask_form(g, op[1], f // 8, used)], g[mask_form(g, op[2], f // 40, used)]
        return merge_form(nap, a, b, op[3], op[4], op[5], f, used)
    a, b = (g, aux) if op[1] else (aux, g)
    return merge_form(nap, a, b, op[2], op[3], op[4], f, used)


def step_oracle(res, op, before, after, aux_st, inp, within, aux_bypass=False, formkey=None, live=False):
    """the statement's preservation clauses, on implementation states only.  after is None when the operation raised.
    within = the current group does not descend (through get only) from a construction that opted out of the restriction; every clause is
    evaluated in both cases, and a member that changes only because such a group is re-restricted to its support is reported under
    bypass_group_member_outside_support=True"""
    k = op[0]
    kk = {"op": {"keys": "getitem_keys", "mask": "getitem_mask", "thr": "getby_threshold", "cat": "getby_category", "int": "getby_intervals",
                 "restrict": "restrict", "get": "get", "rt": "to_tsd_to_tsgroup", "msplit": "merge_group", "mwith": "merge_group"}[k]}
    if formkey:
        kk.update(formkey)     # the triggers of the argument form the operation was called through (one boolean each)

    def viol(part, what, impl=None, expected=None, **extra):
        res.violations.append({"key": dict(kk, part=part, **extra), "what": what, "input": inp, "impl": impl, "expected": expected})

    bk = before["keys"]
    bmem = dict(zip(bk, before["mem"]))
    btag = dict(zip(bk, before["tags"])) if before["hastag"] else None
    optout = (not within) or (op[0] == "mwith" and aux_bypass)

    def members_preserved(part_what, keys, mems, source, sup, touches=(), two=False):
        for key, m in zip(keys, mems):
            exp = source[key]
            if m[0] != exp:
                lost = [x for x in exp if x not in m[0]]
                kept_rest = [x for x in exp if x in m[0]] == m[0]
                viol("members", part_what % key, m[0], exp,
                     bypass_group_member_outside_support=bool(optout and m[0] == [x for x in exp if G.mem(x, sup)]),
                     two_members_touching_supports=bool(two and lost and kept_rest and only_touching_trim([2 * x for x in lost], touches)))
    if k in ("keys", "mask", "thr", "cat", "int"):
        # which keys does the operation name?
        if k == "keys":
            sel, ok = list(op[1]), all(x in bk for x in op[1]) and len(set(op[1])) == len(op[1])
        elif k == "mask":
            ok = len(op[1]) == len(bk)
            sel = [x for x, m in zip(bk, op[1]) if m] if ok else []
        elif btag is None:
            sel, ok = [], False
        elif k == "thr":
            f = {0: lambda x: x > op[2], 1: lambda x: x < op[2], 2: lambda x: x >= op[2], 3: lambda x: x <= op[2]}[op[1]]
            sel, ok = [x for x in bk if f(btag[x])], True
        elif k == "cat":
            sel = [x for x in bk if btag[x] == op[1]]
            ok = bool(sel)
        else:
            bins = op[1]
            classes = [[x for x in bk if bins[i] <= btag[x] < bins[i + 1]] for i in range(len(bins) - 1)]
            classes = [c for c in classes if c]
            ok = op[2] < len(classes)
            sel = classes[op[2]] if ok else []
        if not ok:
            return   # ill-formed request (missing / repeated key, wrong mask length, no such column or class): any exception is acceptable
        if after is None:
            viol("exception", "selection of existing keys raised")
            return
        if after["keys"] != sorted(sel):
            viol("keys", "selected group does not hold exactly the selected keys", after["keys"], sorted(sel))
            return
        if after["sup"] != before["sup"]:
            viol("support", "selection changed the time support", after["sup"], before["sup"])
        members_preserved("member %d changed under selection", after["keys"], after["mem"], {x: bmem[x][0] for x in bk}, before["sup"])
        if btag is not None and after["hastag"] and [btag[x] for x in after["keys"]] != after["tags"]:
            viol("tags", "metadata did not follow the selected keys", after["tags"], [btag[x] for x in after["keys"]])
        return
    if k == "restrict":
        if after is None:
            viol("exception", "restrict raised")
            return
        if after["keys"] != bk or after["sup"] != op[1]:
            viol("keys_support", "restrict changed the keys or did not install ep as the support", (after["keys"], after["sup"]), (bk, op[1]))
            return
        for key, m in zip(after["keys"], after["mem"]):
            exp = [x for x in bmem[key][0] if G.mem(x, op[1])]
            if m[0] != exp:
                viol("members", "member %d is not the old member restricted to ep" % key, m[0], exp)
        return
    if k == "get":
        if op[1] > op[2]:
            return
        if after is None:
            viol("exception", "get raised")
            return
        if after["keys"] != bk or after["sup"] != before["sup"]:
            viol("keys_support", "get changed the keys or the support", (after["keys"], after["sup"]), (bk, before["sup"]))
            return
        for key, m in zip(after["keys"], after["mem"]):
            exp = [x for x in bmem[key][0] if op[1] <= x <= op[2]]
            if m[0] != exp:
                viol("members", "member %d is not the window of the old member" % key, m[0], exp)
        return
    if k == "rt":
        if after is None:
            viol("exception", "to_tsd / to_tsgroup raised")
            return
        expk = [x for x in bk if bmem[x][0]]
        if after["keys"] != expk:
            viol("keys", "round trip does not hold exactly the keys of the members with samples", after["keys"], expk,
                 bypass_group_member_outside_support=bool(optout and after["keys"] == [x for x in bk if any(G.mem(t, before["sup"]) for t in bmem[x][0])]))
            return
        if expk and after["sup"] != before["sup"]:
            viol("support", "round trip changed the support", after["sup"], before["sup"])
        members_preserved("member %d changed in the round trip", after["keys"], after["mem"], {x: bmem[x][0] for x in bk}, before["sup"])
        return
    # merges
    if k == "msplit":
        if len(op[1]) != len(bk) or len(op[2]) != len(bk):
            return
        parts = [{"keys": [x for x, m in zip(bk, mk) if m], "sup": before["sup"], "hastag": before["hastag"]} for mk in (op[1], op[2])]
        for p in parts:   # a selection preserves the member and hands it the group's support (no support without a sample)
            p["mem"] = [(bmem[x][0], before["sup"] if bmem[x][0] else []) for x in p["keys"]]
            if live:      # the group itself was passed for both operands: its members carry the supports they have
                p["mem"] = [(bmem[x][0], bmem[x][1]) for x in p["keys"]]
        ri, rs, im = op[3], op[4], op[5]
    else:
        if aux_st is None:
            return
        me = {"keys": bk, "sup": before["sup"], "hastag": before["hastag"], "mem": [(m[0], m[1]) for m in before["mem"]]}
        ax = {"keys": aux_st["keys"], "sup": aux_st["sup"], "hastag": aux_st["hastag"], "mem": [(m[0], m[1]) for m in aux_st["mem"]]}
        parts = [me, ax] if op[1] else [ax, me]
        ri, rs, im = op[2], op[3], op[4]
    legal = (im or parts[0]["hastag"] == parts[1]["hastag"]) and (ri or not set(parts[0]["keys"]) & set(parts[1]["keys"])) \
        and (rs or parts[0]["sup"] == parts[1]["sup"])
    items = [(x, m) for p in parts for x, m in zip(p["keys"], p["mem"])]
    if ri:
        items = [(i, m) for i, (_, m) in enumerate(items)]
    if after is None:
        if not legal or (rs and not any(m[1] for _, m in items)):
            return  # a documented ValueError, or RuntimeError: the union of the member supports is empty
        concat_sorted = [x for x, _ in items] == sorted(x for x, _ in items)
        # groups that opted out of the restriction: once re-restricted, no member may have a sample left, and the union of the supports is empty
        emptied = bool(k == "msplit" and optout and rs and not any(G.mem(x, p["sup"]) for p in parts for m in p["mem"] for x in m[0]))
        viol("exception", "merge of groups with disjoint keys and the same time support raised", ignore_metadata=bool(im), concat_keys_sorted=concat_sorted,
             reset_index=bool(ri), reset_time_support=bool(rs), bypass_group_member_outside_support=emptied)
        return
    # the merge returned a group: whatever was accepted, the statement's preservation clause applies to it
    diff_sup = bool(not rs and parts[0]["sup"] != parts[1]["sup"])
    if diff_sup:
        res.count("merge_accepted_different_supports(empty vs one interval)")
    kk = dict(kk, reset_time_support=bool(rs), accepted_different_supports=diff_sup)
    if after["keys"] != sorted(x for x, _ in items):
        viol("keys", "merged group does not hold the union of the keys", after["keys"], sorted(x for x, _ in items))
        return
    if not rs and not diff_sup and after["sup"] != parts[0]["sup"]:
        viol("support", "merge changed the common time support", after["sup"], parts[0]["sup"])
    touches, two = set(), False
    if rs:
        sups = [m[1] for _, m in sorted(items)]
        want = exact_union(sups)
        touches, two = touch_points(sups), len(items) == 2
        if touches:
            res.count("merge_union_of_touching_supports(n=%s)" % ("2" if two else "3+"))
        bad = diff_points(after["sup"], want)
        if bad:
            viol("support_union", "merged support is not the union of the members' supports", after["sup"], "%s = union of %s" % (want, sups),
                 two_members_touching_supports=bool(two and only_touching_trim(bad, touches)))
    members_preserved("member %d changed in the merge", after["keys"], after["mem"], {x: m[0] for x, m in items}, after["sup"], touches, two)


def directed_merge_cases():
    """two one-member groups whose supports touch (or are an empty support against one interval), merged both ways"""
    out = []
    byname = {n: (k, sc(t), None if s is None else sci(s)) for n, k, t, s in TEMPL}
    for a, b in (("A", "C"), ("L", "C"), ("M", "C"), ("C", "L"), ("G", "B")):
        for first in (0, 1):
            for ri in (0, 1):
                base = Spec([KEYS[2]], [1], [byname[a]], byname[a][2], False)
                aux = Spec([KEYS2[0]], [2], [byname[b]], byname[b][2], False)
                out.append((base, aux, [("mwith", first, ri, 1, first ^ ri)]))
    for a, sa, sb in (("A", [], [(0, 12)]), ("A", [(0, 12)], []), ("B", [], [(1, 5)])):
        for first in (0, 1):
            base = Spec([KEYS[2]], [1], [byname[a]], sci(sa), False)
            aux = Spec([KEYS2[0]], [2], [byname["D"]], sci(sb), False)
            out.append((base, aux, [("mwith", first, 0, 0, first)]))
    return out


def history_cases(tier, seed):
    rng = random.Random(seed * 7 + 12)
    out = directed_merge_cases()
    for c in range(700 if tier == "quick" else 7000):
        sup = rng.choice([[(0, 12)], [(0, 12)], [(0, 12)], [(1, 5)], [(3, 5), (9, 11)], None, [(0, 4), (6, 12)]])
        base = rand_spec(rng, KEYS, None if sup is None else sci(sup))
        r = rng.random()
        asup = sup if r < 0.6 else rng.choice(SUPS)
        aux = rand_spec(rng, KEYS2, None if asup is None else sci(asup), nmax=3, bypass_p=0.05)
        if aux.sup is None and not any(t and (k in (1, 2) or any(G.mem(x, sp) for x in t)) for k, t, sp in aux.members):
            aux.sup = sci([(0, 12)])   # the union of the members' supports would be empty: the second group must exist
        if base.hastag and rng.random() < 0.9:
            aux.hastag = True
        n = len(base.members)
        pool = [int(k) for k, _ in base.keys] * 4 + [int(k) for k, _ in KEYS] + [1, 9, 4, 8, 99] + list(range(4))
        ops = []
        sh, sha = Shadow(base), Shadow(aux)
        for _ in range(rng.randint(1, 6)):
            o = rand_op(rng, sh, pool)
            ops.append(o)
            sh.apply(o, sha)
        out.append((base, aux, ops))
    return out


def same_state(a, b):
    if a is None or b is None:
        return False
    if (a["keys"], a["sup"], a["hastag"], a["tags"], a["index"]) != (b["keys"], b["sup"], b["hastag"], b["tags"], b["index"]):
        return False
    return all(x[0] == y[0] and x[1] == y[1] and nan_eq([x[2], x[3]], [y[2], y[3]]) for x, y in zip(a["mem"], b["mem"]))


def source_step(nap, g, kind):
    """the group after an object history that is not one of this property's operations (their own contracts are other properties'): the result is only
    used as the receiver of what follows"""
    import os
    import pickle
    import tempfile
    if kind == "pickle":
        return pickle.loads(pickle.dumps(g))
    if kind == "saveload":
        d = tempfile.mkdtemp(prefix="c12_", dir=os.path.join(C.CACHE))
        try:
            f = os.path.join(d, "g.npz")
            g.save(f)
            return nap.load_file(f)
        finally:
            for x in os.listdir(d):
                os.remove(os.path.join(d, x))
            os.rmdir(d)
    if kind == "value_from":
        pts = sorted(set(float(x) for k in g.keys() for x in g[k].t) | set(float(x) for x in g.time_support.values.ravel()))
        tsd = nap.Tsd(np.array(pts), np.arange(len(pts), dtype=np.float64))
        return g.value_from(tsd, g.time_support)
    if kind == "restrict_own_support":
        return g.restrict(g.time_support)
    raise ValueError(kind)


def run_history(nap, res, base, aux, ops, line, styles=None, source=None):
    inp = {"base": base.desc(), "aux": aux.desc(), "ops": [list(o) for o in ops]}
    if styles is not None:
        inp["styles"] = [st_["f"] for st_ in styles]
        styles = [{"f": st_["f"]} for st_ in styles]
    if source is not None:
        inp["source"] = source
    steps = line.split("#")
    try:
        g, _ = base.build(nap)
    except Exception:
        g = None
    try:
        ga, _ = aux.build(nap)
        aux_st = impl_state(ga)
    except Exception:
        ga, aux_st = None, None
    res.count("histories")
    if styles is not None:
        res.count("histories_in_other_forms")
        count_forms(res, base)
    if g is None:
        if not line.startswith("ERR"):
            res.disagreements.append({"op": "history/base", "input": inp, "impl": "ERR", "model": steps[0]})
        res.case(("hist", str(inp)), nontrivial=False)
        return
    st = impl_state(g)
    model_ok = states_agree(st, parse_state(steps[0]))
    if any(k in (2, 7) and t and t[0] == t[-1] for sp_ in (base, aux) for k, t, _ in sp_.members):
        model_ok = False
    elif not model_ok:   # the statement's clauses are still evaluated on the implementation's states below
        res.disagreements.append({"op": "history/base", "input": inp, "impl": st, "model": steps[0]})
    within = not base.bypass
    if source is not None:
        try:
            gs = source_step(nap, g, source)
            sts = impl_state(gs)
        except Exception as ex:
            gs, sts = None, None
            res.count("source=%s raised %s (receiver kept as built)" % (source, type(ex).__name__))
        if sts is not None:
            if same_state(st, sts):
                res.count("source=%s (same state)" % source)
            else:
                res.count("source=%s (state changed: model not compared)" % source)
                model_ok = False
            if source != "pickle":
                within = True
            iv = invariant_viol(sts, within)
            if iv and source != "saveload":
                res.violations.append({"key": dict({"op": source, "part": iv[0]}, **iv[2]), "what": iv[1], "input": inp, "impl": sts})
            g, st = gs, sts
    nerr = 0
    for i, op in enumerate(ops):
        if op[0] == "mwith" and ga is None:
            break
        sty = styles[i] if styles is not None else None
        try:
            g2 = apply_op(nap, g, op, ga, sty)
            st2 = impl_state(g2)
            ex = None
        except Exception as e:
            g2, st2, ex = None, None, e
        mo = parse_state(steps[i + 1]) if i + 1 < len(steps) else None
        res.count("op_" + op[0])
        # the receiver and the second operand are still the groups they were: their keys, members, supports, rates and metadata are read again AFTER the
        # operation (seed C12-7: merge_group renumbered the rate table of its first operand in place, visible only on the next use of that operand)
        for who, obj, was in (("receiver", g, st), ("operand", ga if op[0] == "mwith" else None, aux_st)):
            if obj is None or was is None:
                continue
            try:
                now = impl_state(obj)
                bad = None if same_state(was, now) else "state differs after the call"
            except Exception as e2:
                now, bad = None, "reading it back raises %s: %s" % (type(e2).__name__, str(e2)[:80])
            if bad:
                res.violations.append({"key": {"op": op[0], "part": "operand_changed_by_operation", "which": who},
                                       "what": "the %s of %s is no longer the group it was (keys / members / support / rates / metadata): %s" % (who, op[0], bad),
                                       "input": dict(inp, step=i), "impl": now, "expected": was})
        res.count("operands_read_back_after_op")
        if sty is not None:
            for u in sty.get("used", []):
                res.count("opform:" + u)
        if st2 is None:
            res.count("op_raised")
            res.count("raised_" + op[0])
            nerr += 1
        nv = len(res.violations)
        step_oracle(res, op, st, st2, aux_st, dict(inp, step=i), within, aux.bypass, sty.get("key") if sty else None, bool(sty and sty.get("live")))
        if sty is not None and sty.get("live") and any(m[0] and m[1] != st["sup"] for m in st["mem"]):
            res.count("model_not_compared(live group whose members carry their own supports)")
            model_ok = False     # the model merges two SELECTIONS of the group (members handed the group's support)
        if sty is not None and len(res.violations) > nv and not states_agree(st2, mo):
            model_ok = False     # the step is already reported as a violation of the statement; the model (which satisfies it) necessarily differs
        if model_ok and not states_agree(st2, mo):
            res.disagreements.append({"op": "history/" + op[0], "input": dict(inp, step=i), "impl": st2 if st2 is not None else repr(ex), "model": steps[i + 1] if i + 1 < len(steps) else None})
            model_ok = False
        if st2 is not None:
            if op[0] != "get":
                within = True
            iv = invariant_viol(st2, within)
            if iv:
                res.violations.append({"key": dict({"op": op[0], "part": iv[0]}, **iv[2]), "what": iv[1], "input": dict(inp, step=i), "impl": st2})
            g, st = g2, st2
    res.case(("hist", str(inp)), nontrivial=len(ops) - nerr >= 2)
    if model_ok:
        res.traces += 1


KEYS_FB = [(np.int64(5), (0, 5)), (np.float64(2.0), (3, 2)), (np.int8(-3), (0, -3)), (" 7", (1, 7)), ("+10", (1, 10)), (np.int16(0), (0, 0)), (10 ** 6, (0, 10 ** 6))]
KEYS_FA = [(True, (0, 1)), ("0009", (1, 9)), (np.float32(4.0), (3, 4)), (np.uint8(8), (0, 8)), (5, (0, 5)), ("-3", (1, -3)), ("1_2", (1, 12))]
SOURCES = (None, None, None, "pickle", "saveload", "value_from", "restrict_own_support")


def respec(sp, unit, off, rng, unit_i, far):
    """a specification drawn on the lattice U moved to another lattice / offset and given a form; some Ts members become TsdFrame / TsdTensor"""
    mem = []
    for k, t, s_ in sp.members:
        if far and any(x % U for x in t + [y for iv in (s_ or []) for y in iv]):
            k, t, s_ = 0, sc([0, 2, 4]), sci([(0, 4)])      # no sub-microsecond features far from the origin
        if k == 0 and rng.random() < 0.15:
            k = rng.choice([5, 6])
        mem.append((k, [relat(x, unit, off) for x in t], None if s_ is None else [(relat(a, unit, off), relat(b, unit, off)) for a, b in s_]))
    sup = None if sp.sup is None else [(relat(a, unit, off), relat(b, unit, off)) for a, b in sp.sup]
    fm = rand_form(rng, mem, unit_i)
    if not sp.hastag or rng.random() < 0.5:
        fm["md"] = "df"
    return Spec(sp.keys, sp.tags, mem, sup, sp.bypass, sp.hastag, sp.islist, fm)


def history_form_cases(tier, seed):
    """histories as in history_cases, on other lattices / offsets, receivers built in other forms or coming out of an object history (pickle, save + load,
    value_from, restrict to their own support), every operation called through a sampled argument form"""
    rng = random.Random(seed * 19 + 1207)
    out = []
    for c in range(260 if tier == "quick" else 3000):
        unit_i = rng.randrange(len(LATTICES))
        unit, tu = LATTICES[unit_i]
        o = rng.choice(OFFSETS if unit >= 10 ** 6 else OFFSETS[:4])
        off = off_ticks(o, unit)
        far = abs(off) >= 10 ** 12
        sup = rng.choice([[(0, 12)], [(0, 12)], [(0, 12)], [(1, 5)], [(3, 5), (9, 11)], None, [(0, 4), (6, 12)]])
        base = rand_spec(rng, KEYS if rng.random() < 0.4 else KEYS_FB, None if sup is None else sci(sup))
        asup = sup if rng.random() < 0.6 else rng.choice(SUPS)
        aux = rand_spec(rng, KEYS2 if rng.random() < 0.4 else KEYS_FA, None if asup is None else sci(asup), nmax=3, bypass_p=0.05)
        if aux.sup is None and not any(t and (k in (1, 2) or any(G.mem(x, sp) for x in t)) for k, t, sp in aux.members):
            aux.sup = sci([(0, 12)])
        if base.hastag and rng.random() < 0.9:
            aux.hastag = True
        pool = [int(k) for k, _ in base.keys] * 4 + [int(k) for k, _ in KEYS] + [1, 9, 4, 8, 99] + list(range(4))
        ops = []
        sh, sha = Shadow(base), Shadow(aux)
        nops = rng.randint(1, 5)
        for j in range(nops):
            if c % 11 == 0 and j == nops - 1:     # the same live group merged with itself
                o_ = ("msplit", [1] * len(sh.keys), [1] * len(sh.keys), 1, int(rng.random() < 0.5), int(rng.random() < 0.5))
            else:
                o_ = rand_op(rng, sh, pool)
            ops.append(o_)
            sh.apply(o_, sha)
        ops = [("restrict", [(relat(a, unit, off), relat(b, unit, off)) for a, b in o_[1]]) if o_[0] == "restrict"
               else ("get", relat(o_[1], unit, off), relat(o_[2], unit, off)) if o_[0] == "get" else o_ for o_ in ops]
        styles = [{"f": rng.randrange(10 ** 6) if not (c % 11 == 0 and j == nops - 1) else 4 + 8 * rng.randrange(1000)} for j in range(nops)]
        out.append((respec(base, unit, off, rng, unit_i, far), respec(aux, unit, off, rng, unit_i, far), ops, styles, rng.choice(SOURCES)))
    return out


def run_history_forms(nap, res, tier, seed):
    hs = history_form_cases(tier, seed)
    hlines = ["\t".join(["hist"] + b.args() + a.args() + [x for o in ops for x in op_args(o)]) for b, a, ops, _, _ in hs]
    hout = C.run_model(hlines, driver="driver_c12")
    for n, (b, a, ops, styles, source) in enumerate(hs):
        run_history(nap, res, b, a, ops, hout[n], styles, source)
        if n % 163 == 5:
            res.sample({"history_form": [list(o) for o in ops], "styles": [x["f"] for x in styles], "source": source, "base": b.desc()})


# --------------------------------------------------------------------------------------
# group-level count / value_from / trial_count = per member
def nan_eq(a, b):
    a, b = np.asarray(a, dtype=float), np.asarray(b, dtype=float)
    return a.shape == b.shape and bool(np.all((a == b) | (np.isnan(a) & np.isnan(b))))


def group_level(nap, res, tier, seed):
    rng = random.Random(seed * 11 + 5)
    cases, lines = [], []
    eps = [[(0, 12)], [(1, 5)], [(3, 5), (9, 11)], [(0, 4), (6, 12)], [(2, 6)]]

    def add(sp, ep, b, src, mode, fx):
        cases.append((sp, ep, b, src, mode, fx))
        a = sp.args()
        lines.append("\t".join(["gcount"] + a + [C.fmt_iset(ep), str(b)]))
        lines.append("\t".join(["gcount_ep"] + a + [C.fmt_iset(ep)]))
        lines.append("\t".join(["gtrial"] + a + [C.fmt_iset(ep), str(b)]))
        lines.append("\t".join(["gvf"] + a + [str(mode), C.fmt_ints(src), C.fmt_iset(ep)]))
    for c in range(120 if tier == "quick" else 1200):
        sup = rng.choice([[(0, 12)], [(0, 12)], [(1, 9)], None])
        sp = rand_spec(rng, KEYS, None if sup is None else sci(sup), bypass_p=0.0)
        sp.members = [(0 if k == 4 else k, t, s) for k, t, s in sp.members]
        ep = sci(rng.choice(eps))
        b = rng.choice([2 * U, 4 * U, 6 * U])
        src = sorted(rng.sample(range(0, 13), rng.randint(1, 5)))
        mode = rng.randrange(3)
        add(sp, ep, b, sc(src), mode, {"forms": seed * 29 + c})
    # receivers in other forms: other lattices / units / offsets, every class of member, built through every form, empty groups, groups of empty members;
    # the model (integer ticks) is compared on the dyadic lattice only (on decimal lattices a bin edge is a rounded float: DESIGN.md section 2)
    rng = random.Random(seed * 31 + 1213)
    for c in range(56 if tier == "quick" else 800):
        unit_i = rng.choice([0, 0, 1, 2, 3, 4, 5, 6, 7, 8, 9, 11, 12])
        kind = c % 8
        if kind == 2:
            unit_i = 11 + c % 2      # bins of 200 / 400 / 600 ms handed over as np.float32 (exact) numbers of ms / us
        unit, tu = LATTICES[unit_i]
        o = rng.choice(OFFSETS if unit >= 10 ** 6 else OFFSETS[:4])
        off = off_ticks(o, unit)
        sup = rng.choice([[(0, 12)], [(0, 12)], [(1, 9)], None])
        sp = rand_spec(rng, KEYS if rng.random() < 0.5 else KEYS_FB, None if sup is None else sci(sup), bypass_p=0.0)
        if kind == 0:       # an empty group
            sp = Spec([], [], [], sci(sup or [(0, 12)]), False, hastag=False)
        elif kind == 1:     # only members without a sample
            sp.members = [(0, [], sci([(0, 4)])) for _ in sp.members]
            sp.sup = sci(sup or [(0, 12)])
        spf = respec(sp, unit, off, rng, unit_i, abs(off) >= 10 ** 12)
        rl = lambda x: relat(x, unit, off)
        ep = [(rl(a), rl(b_)) for a, b_ in sci(rng.choice(eps))]
        b = rng.choice([2, 4, 6]) * unit
        src = [rl(x) for x in sc(sorted(rng.sample(range(0, 13), rng.randint(1, 5))))]
        add(spf, ep, b, src, rng.randrange(3), {"forms": seed * 37 + c, "model": unit == U, "tu": tu, "vf_sup": [(rl(-U), rl(14 * U))], "f32_bin": tu if kind == 2 else None})
    out = C.run_model(lines, driver="driver_c12")
    for n, (sp, ep, b, src, mode, fx) in enumerate(cases):
        try:
            _group_level_case(nap, res, out, n, sp, ep, b, src, mode, fx)
        except Exception as ex:
            res.violations.append({"key": {"op": "group_level", "part": "exception"}, "what": "group-level count / trial_count / value_from raised %s" % repr(ex),
                                   "input": dict(sp.desc(), ep=ep, bin=b, source=src)})


def as_ts(nap, m):
    """trial_count is a method of Ts only: the per-member reference of a Tsd / TsdFrame / TsdTensor member is the Ts of its timestamps on its support"""
    return m if type(m) is nap.Ts else nap.Ts(m.t, time_support=m.time_support)


COUNT_DTYPES = (np.int32, "int16", np.float32, np.uint8, np.float64, np.dtype("int64"), "uint16", np.int8)
VF_SOURCES = ("Tsd", "Tsd", "TsdFrame", "TsdFrame(labels)", "TsdTensor")


def group_level_forms(nap, res, g, keys, inp, ep, b, src, ms, vsup, Cn, Ce, C0, Tc, V, rng, f32_bin=None):
    """count / trial_count / value_from called through other argument forms (units, scalar types, interval-set forms, positional / keyword, defaults, dtype,
    padding, source class and data dtype): the result must be the one of the plain call (same instants, same result) and equal the members' own"""
    def viol(op, part, what, impl=None, expected=None, **extra):
        res.violations.append({"key": dict({"op": op, "part": part, "form": True}, **extra), "what": what, "input": dict(inp, form_call=desc), "impl": impl, "expected": expected})
    # ---- count
    tu = rng.choice(["s", "ms", "us"])
    bv, bf = scalar_form(b, tu, rng.choice([0, 1, 2]))     # float / int / np.float64 (the documented types: isinstance float or int)
    epf, sf = sform_or(nap, ep, rng.choice(["s", "ms", "us"]), rng.choice(SFORMS), rng.randrange(100))
    dt = rng.choice(COUNT_DTYPES + (None, None))
    call = rng.randrange(4)
    desc = {"count": [bf, tu, sf, str(dt), ["positional", "keyword", "mixed", "ep omitted"][call]]}
    for x in ("count_bin=" + bf, "count_units=" + tu, "ep=" + sf, "count_dtype=" + str(dt if dt is None else np.dtype(dt)), "count_call=" + desc["count"][4]):
        res.count("glform:" + x)
    want_dt = np.dtype(np.int64) if dt is None else np.dtype(dt)
    ref = C0 if call == 3 else Cn
    if call == 0:
        Cf = g.count(bv, epf, tu, dt)
        pers = [g[k].count(bv, epf, tu, dt) for k in keys]
    elif call == 1:
        Cf = g.count(dtype=dt, time_units=tu, ep=epf, bin_size=bv)
        pers = [g[k].count(dtype=dt, time_units=tu, ep=epf, bin_size=bv) for k in keys]
    elif call == 2:
        Cf = g.count(bv, epf, time_units=tu) if dt is None else g.count(bv, epf, dtype=dt, time_units=tu)
        pers = [g[k].count(bv, epf, time_units=tu) if dt is None else g[k].count(bv, epf, dtype=dt, time_units=tu) for k in keys]
    else:
        Cf = g.count(bv, time_units=tu, dtype=dt)
        pers = [g[k].count(bv, g.time_support, tu, dt) for k in keys]
    if [int(c_) for c_ in Cf.columns] != keys or not np.array_equal(Cf.t, ref.t) or not np.array_equal(np.asarray(Cf.values, dtype=np.float64), np.asarray(ref.values, dtype=np.float64)) \
            or ticks_iset(Cf.time_support) != ticks_iset(ref.time_support):
        viol("count", "binned", "count called through another form differs from the plain call on the same instants", np.asarray(Cf.values).tolist(), np.asarray(ref.values).tolist(),
             units=tu, dtype_given=dt is not None)
    if len(keys) and Cf.values.dtype != want_dt:
        viol("count", "dtype", "count(dtype=%s) returned %s" % (dt, Cf.values.dtype), str(Cf.values.dtype), str(want_dt))
    for i, (k, per) in enumerate(zip(keys, pers)):
        if not (np.array_equal(per.t, Cf.t) and np.array_equal(np.asarray(per.values).ravel(), Cf.values[:, i]) and np.asarray(per.values).dtype == Cf.values.dtype):
            viol("count", "binned", "group count column %d differs from the member's count (same arguments)" % k, Cf.values[:, i].tolist(), np.asarray(per.values).ravel().tolist(),
                 units=tu, dtype_given=dt is not None)
    # count per epoch, spelled in the other ways
    c2 = rng.randrange(3)
    Cg = [lambda: g.count(None, epf), lambda: g.count(ep=epf, dtype=dt), lambda: g.count(bin_size=None, ep=epf, time_units=tu)][c2]()
    res.count("glform:count_ep_call=" + ["(None, ep)", "(ep=, dtype=)", "(bin_size=None, ep=, time_units=)"][c2])
    if [int(c_) for c_ in Cg.columns] != keys or not np.array_equal(Cg.t, Ce.t) or not np.array_equal(np.asarray(Cg.values, dtype=np.float64), np.asarray(Ce.values, dtype=np.float64)):
        viol("count", "per_epoch", "count(ep) called through another form differs from the plain call", np.asarray(Cg.values).tolist(), np.asarray(Ce.values).tolist())
    # no argument at all: one count per interval of the group's support
    Cz = g.count()
    for i, k in enumerate(keys):
        per = g[k].count(ep=g.time_support)
        if not np.array_equal(np.asarray(per.values).ravel(), Cz.values[:, i]):
            viol("count", "no_argument", "group count() column %d differs from the member's count per interval of the support" % k, Cz.values[:, i].tolist(), np.asarray(per.values).ravel().tolist())
    # ---- trial_count
    tu = rng.choice(["s", "ms", "us"])
    bv, bf = scalar_form(b, tu, rng.randrange(5))
    if f32_bin:
        tu = f32_bin
        bv, bf = scalar_form(b, tu, 4)
    align = rng.choice(["start", "end"])
    pad = rng.choice([np.nan, np.nan, 0, -1, 0.5, np.float32(2)])
    call = rng.randrange(3)
    desc = {"trial_count": [bf, tu, sf, align, repr(pad), ["positional", "keyword", "defaults omitted"][call]]}
    for x in ("trial_bin=" + bf, "trial_units=" + tu, "trial_pad=" + repr(pad), "trial_call=" + desc["trial_count"][5], "trial_align=" + align):
        res.count("glform:" + x)
    tk_ = {"np_float32_bin": bf == "np_float32"}
    pad_default = isinstance(pad, float) and math.isnan(pad)
    try:
        if call == 0:
            Tf = g.trial_count(epf, bv, align, pad, tu)
            pers = [as_ts(nap, g[k]).trial_count(epf, bv, align, pad, tu) for k in keys]
        elif call == 1:
            Tf = g.trial_count(time_unit=tu, padding_value=pad, align=align, bin_size=bv, ep=epf)
            pers = [as_ts(nap, g[k]).trial_count(time_unit=tu, padding_value=pad, align=align, bin_size=bv, ep=epf) for k in keys]
        else:
            kw = {}
            if align != "start":
                kw["align"] = align
            if not pad_default:
                kw["padding_value"] = pad
            if tu != "s":
                kw["time_unit"] = tu
            Tf = g.trial_count(epf, bv, **kw)
            pers = [as_ts(nap, g[k]).trial_count(epf, bv, **kw) for k in keys]
    except Exception as ex:
        viol("trial_count", "exception", "trial_count raised " + repr(ex), **tk_)
        Tf = None
    if Tf is not None and align in Tc:
        want = np.where(np.isnan(Tc[align]), pad, Tc[align]) if not pad_default else Tc[align]
        if not nan_eq(Tf, want):
            viol("trial_count", "tensor", "trial_count called through another form differs from the plain call on the same instants", np.asarray(Tf).tolist(), np.asarray(want).tolist(), **tk_)
        for i, (k, per) in enumerate(zip(keys, pers)):
            if not nan_eq(Tf[i], per):
                viol("trial_count", "member", "group trial_count[%d] differs from the member's (same arguments)" % k, np.asarray(Tf[i]).tolist(), np.asarray(per).tolist(), **tk_)
    # ---- value_from
    cls = rng.choice(VF_SOURCES)
    dd = rng.choice(DDTYPES)
    tf = rng.choice([f_ for f_ in TFORMS if f_ not in ("series", "scalar", "npscalar", "unsorted")])
    tu = rng.choice(["s", "ms", "us"])
    r = tform(nap, src, tu, tf, rng.randrange(100))
    if r is None:
        r, tf = tform(nap, src, tu, "f64"), "f64"
    tv, tue = r
    vs, vsf = sform_or(nap, vsup, tu, rng.choice(SFORMS), rng.randrange(100))
    n = len(src)
    if cls == "Tsd":
        data = nap.Tsd(tv, ddata(n, dd), tue, vs)
    elif cls.startswith("TsdFrame"):
        data = nap.TsdFrame(tv, ddata(n, dd, (2,)), tue, vs, columns=["b", "a"] if cls.endswith(")") and rng.random() < 0.5 else [7, 3] if cls.endswith(")") else None)
    else:
        data = nap.TsdTensor(tv, ddata(n, dd, (2, 1)), tue, vs)
    call = rng.randrange(4)
    desc = {"value_from": [cls, dd, tf, tu, vsf, sf, ["positional", "keyword", "mode omitted when closest", "ep omitted"][call]]}
    for x in ("vf_source=" + cls, "vf_data=" + dd, "vf_source_t=" + tf, "vf_call=" + desc["value_from"][6]):
        res.count("glform:" + x)
    if call == 0:
        Vf = g.value_from(data, epf, ms)
    elif call == 1:
        Vf = g.value_from(tsd=data, mode=ms, ep=epf)
    elif call == 2:
        Vf = g.value_from(data, epf) if ms == "closest" else g.value_from(data, ep=epf, mode=ms)
    else:
        Vf = g.value_from(data, mode=ms)
    exp_sup = ep if call != 3 else vsup
    if [int(k) for k in Vf.keys()] != keys or ticks_iset(Vf.time_support) != exp_sup:
        viol("value_from", "keys_support", "group value_from changed the keys or did not install ep (the source's support when ep is omitted)",
             ([int(k) for k in Vf.keys()], ticks_iset(Vf.time_support)), (keys, exp_sup))
        return
    for k in keys:
        per = g[k].value_from(data, epf if call != 3 else None, ms)
        pv, gv = np.asarray(per.values), np.asarray(Vf[k].values)
        if not (np.array_equal(per.t, Vf[k].t) and pv.shape == gv.shape and pv.dtype == gv.dtype and type(per) is type(Vf[k]) and nan_eq(pv.ravel(), gv.ravel())):
            viol("value_from", "member", "group value_from[%d] differs from the member's (same arguments)" % k, gv.tolist(), pv.tolist(), source=cls)
        if call != 3 and not np.array_equal(Vf[k].t, V[k].t):
            viol("value_from", "timestamps", "value_from from a source of another class / dtype keeps other timestamps than from the plain Tsd on the same instants",
                 [C.to_ns(x) for x in Vf[k].t], [C.to_ns(x) for x in V[k].t], source=cls)


def _group_level_case(nap, res, out, n, sp, ep, b, src, mode, fx=None):
    fx = fx or {}
    cm = fx.get("model", True)     # is the model compared (dyadic lattice)
    if True:
        inp = dict(sp.desc(), ep=ep, bin=b, source=src, mode=["before", "closest", "after"][mode])
        try:
            g, _ = sp.build(nap)
        except Exception:
            return
        res.case(("group_level", str(inp)), nontrivial=len(g) >= 2)
        res.count("group_level")
        if sp.form is not None:
            res.count("group_level_receiver_in_other_form")
            res.count("group_level:n_members=%d" % len(g))
            if not cm:
                res.count("group_level:model_not_compared(decimal lattice)")
            count_forms(res, sp)
        keys = [int(k) for k in g.keys()]
        epo = mk_iset(nap, ep)
        kk = {"op": "count"}
        # count with bins
        Cn = g.count(b / 1e9, epo)
        if [int(c) for c in Cn.columns] != keys:
            res.violations.append({"key": dict(kk, part="columns"), "what": "count columns are not the keys", "input": inp, "impl": list(Cn.columns)})
        cols_m = out[4 * n].split("#") if out[4 * n] else []
        for i, k in enumerate(keys):
            per = g[k].count(b / 1e9, epo)
            if not (np.array_equal(per.t, Cn.t) and np.array_equal(np.asarray(per.values).ravel(), Cn.values[:, i])):
                res.violations.append({"key": dict(kk, part="binned"), "what": "group count column %d differs from the member's count" % k, "input": inp,
                                       "impl": Cn.values[:, i].tolist(), "expected": np.asarray(per.values).ravel().tolist()})
            f = cols_m[i].split("|")
            if cm and (int(f[0]) != k or [int(v) for v in f[2].split()] != [int(v) for v in Cn.values[:, i]] or [int(v) for v in f[1].split()] != [2 * C.to_ns(t) for t in Cn.t]):
                res.disagreements.append({"op": "group count", "input": inp, "impl": Cn.values[:, i].tolist(), "model": cols_m[i]})
        # count per epoch
        Ce = g.count(ep=epo)
        cols_m = out[4 * n + 1].split("#") if out[4 * n + 1] else []
        for i, k in enumerate(keys):
            per = g[k].count(ep=epo)
            if not np.array_equal(np.asarray(per.values).ravel(), Ce.values[:, i]):
                res.violations.append({"key": dict(kk, part="per_epoch"), "what": "group count(ep) column %d differs from the member's" % k, "input": inp})
            f = cols_m[i].split("|")
            if cm and (int(f[0]) != k or [int(v) for v in f[1].split()] != [int(v) for v in Ce.values[:, i]]):
                res.disagreements.append({"op": "group count(ep)", "input": inp, "impl": Ce.values[:, i].tolist(), "model": cols_m[i]})
        # count on the group's own support (ep omitted)
        C0 = g.count(b / 1e9)
        for i, k in enumerate(keys):
            per = g[k].count(b / 1e9, g.time_support)
            if not np.array_equal(np.asarray(per.values).ravel(), C0.values[:, i]):
                res.violations.append({"key": dict(kk, part="default_ep"), "what": "group count() column %d differs from the member's count on the group support" % k, "input": inp})
        # trial_count
        Tc = {}
        for align in ("start", "end"):
            try:
                T = g.trial_count(epo, b / 1e9, align=align)
            except Exception as ex:
                res.violations.append({"key": {"op": "trial_count", "part": "exception", "align": align}, "what": "group trial_count raised " + type(ex).__name__, "input": inp})
                continue
            Tc[align] = T
            for i, k in enumerate(keys):
                per = as_ts(nap, g[k]).trial_count(epo, b / 1e9, align=align)
                if not nan_eq(T[i], per):
                    res.violations.append({"key": {"op": "trial_count", "align": align}, "what": "group trial_count[%d] differs from the member's" % k, "input": inp,
                                           "impl": np.asarray(T[i]).tolist(), "expected": np.asarray(per).tolist()})
            if align == "start":
                blocks = out[4 * n + 2].split("#") if out[4 * n + 2] else []
                for i, k in enumerate(keys):
                    f = blocks[i].split("|")
                    rows = [[int(v) for v in r.split()] for r in f[1:]]
                    got = [[int(v) for v in row if not np.isnan(v)] for row in T[i]]
                    if cm and (int(f[0]) != k or got != rows):
                        res.disagreements.append({"op": "group trial_count", "input": inp, "impl": got, "model": rows})
        # value_from
        vsup = fx.get("vf_sup", [(-U, 14 * U)])
        tsd = nap.Tsd(G.arr(src), np.arange(len(src)) + 100.0, time_support=mk_iset(nap, vsup))
        ms = ["before", "closest", "after"][mode]
        V0 = g.value_from(tsd, mode=ms)   # ep omitted: the group's own support, as for each member
        for k in keys:
            per = g[k].value_from(tsd, mode=ms)
            if not (k in V0 and np.array_equal(per.t, V0[k].t) and nan_eq(per.values, V0[k].values)):
                res.violations.append({"key": {"op": "value_from", "mode": ms, "part": "default_ep"}, "what": "group value_from(ep omitted)[%d] differs from the member's" % k, "input": inp,
                                       "expected": np.asarray(per.values).tolist()})
        V = g.value_from(tsd, epo, mode=ms)
        if [int(k) for k in V.keys()] != keys or ticks_iset(V.time_support) != ep:
            res.violations.append({"key": {"op": "value_from", "part": "keys_support"}, "what": "group value_from changed the keys or did not install ep", "input": inp})
            return
        blocks = out[4 * n + 3].split("#") if out[4 * n + 3] else []
        srcr = [x for x in src if G.mem(x, ep)]
        for i, k in enumerate(keys):
            per = g[k].value_from(tsd, epo, mode=ms)
            if not (np.array_equal(per.t, V[k].t) and nan_eq(per.values, V[k].values)):
                res.violations.append({"key": {"op": "value_from", "mode": ms}, "what": "group value_from[%d] differs from the member's" % k, "input": inp,
                                       "impl": np.asarray(V[k].values).tolist(), "expected": np.asarray(per.values).tolist()})
            f = blocks[i].split("|")
            mt = [int(v) for v in f[1].split()]
            mv = [None if v == "nan" else src.index(srcr[int(v)]) + 100 for v in f[2].split()]
            gv = [None if np.isnan(v) else int(v) for v in V[k].values]
            if cm and (int(f[0]) != k or mt != [C.to_ns(t) for t in V[k].t] or mv != gv):
                res.disagreements.append({"op": "group value_from", "input": inp, "impl": gv, "model": blocks[i]})
        if "forms" in fx:
            group_level_forms(nap, res, g, keys, inp, ep, b, src, ms, vsup, Cn, Ce, C0, Tc, V, random.Random(fx["forms"]), fx.get("f32_bin"))


# --------------------------------------------------------------------------------------
# n-ary merges (merge_group of 3 or 4 groups)
KEYS3 = [(10, (0, 10)), ("11", (1, 11)), (12.0, (3, 12)), (-7, (0, -7))]


def merge_nary(nap, res, tier, seed):
    rng = random.Random(seed * 13 + 3)
    cases, lines = [], []
    for c in range(150 if tier == "quick" else 1500):
        n = rng.choice([3, 3, 4])
        sup = rng.choice([[(0, 12)], [(1, 5)], [(3, 5), (9, 11)]])
        pools = [KEYS[:3], KEYS2[:4], KEYS3, KEYS[3:]]
        rng.shuffle(pools)
        specs = []
        for i in range(n):
            s_i = sup if rng.random() < 0.85 else rng.choice(SUPS[1:])
            sp = rand_spec(rng, pools[i], sci(s_i), nmax=2, bypass_p=0.0, hastag_p=0.95)
            specs.append(sp)
        ri, rs, im = int(rng.random() < 0.25), int(rng.random() < 0.3), int(rng.random() < 0.55)
        cases.append((specs, ri, rs, im, 0))
        lines.append("\t".join(["merge", "%d %d %d %d" % (ri, rs, im, n)] + [x for sp in specs for x in sp.args()]))
    # the same in other forms: groups built on other lattices / units / offsets through other argument forms, an empty group among the operands,
    # the same live group passed twice, the bound method with several operands, flags given only when they differ from the defaults
    rng = random.Random(seed * 41 + 1217)
    for c in range(64 if tier == "quick" else 900):
        n = rng.choice([2, 3, 3, 4])
        unit_i = rng.randrange(len(LATTICES))
        unit, tu = LATTICES[unit_i]
        off = off_ticks(rng.choice(OFFSETS if unit >= 10 ** 6 else OFFSETS[:4]), unit)
        sup = rng.choice([[(0, 12)], [(1, 5)], [(3, 5), (9, 11)]])
        pools = [KEYS[:3], KEYS_FA[:4], KEYS3, KEYS_FB[3:]]
        rng.shuffle(pools)
        specs = []
        for i in range(n):
            s_i = sup if rng.random() < 0.85 else rng.choice(SUPS[1:])
            sp = rand_spec(rng, pools[i], sci(s_i), nmax=2, bypass_p=0.0, hastag_p=0.95)
            if c % 9 == 4 and i == 1:
                sp = Spec([], [], [], sci(s_i), False, hastag=False)       # an empty group
            specs.append(respec(sp, unit, off, rng, unit_i, abs(off) >= 10 ** 12))
        ri, rs, im = int(rng.random() < 0.25), int(rng.random() < 0.3), int(rng.random() < 0.55)
        cf = 1 + c % 4
        if cf == 4:      # the same live group twice
            specs.append(specs[0])
            ri, n = 1, n + 1
        cases.append((specs, ri, rs, im, cf))
        lines.append("\t".join(["merge", "%d %d %d %d" % (ri, rs, im, n)] + [x for sp in specs for x in sp.args()]))
    out = C.run_model(lines, driver="driver_c12")
    for (specs, ri, rs, im, cf), line in zip(cases, out):
        inp = {"groups": [sp.desc() for sp in specs], "reset_index": ri, "reset_time_support": rs, "ignore_metadata": im}
        if cf:
            inp["call_form"] = cf
        try:
            built = {}
            for sp in specs:
                if id(sp) not in built:
                    built[id(sp)] = sp.build(nap)[0]
            gs = [built[id(sp)] for sp in specs]
            sts = [impl_state(g) for g in gs]
        except Exception as e:
            res.violations.append({"key": {"op": "init", "part": "exception"}, "what": "TsGroup() raised %s on valid input" % type(e).__name__, "input": inp, "impl": repr(e)})
            continue
        res.case(("merge_nary", str(inp)), nontrivial=True)
        res.count("merge_nary")
        if cf:
            res.count("merge_nary_form=" + ["", "bound g.merge(g2, g3, ..)", "only non-default flags", "static, groups in other forms", "the same live group twice"][cf])
            if any(not sp.members for sp in specs):
                res.count("merge_nary_with_an_empty_group")
        try:
            if cf == 1:
                r = gs[0].merge(*gs[1:], reset_index=bool(ri), reset_time_support=bool(rs), ignore_metadata=bool(im))
            elif cf == 2:
                r = gs[0].merge(*gs[1:], **{k_: True for k_, v_ in (("reset_index", ri), ("reset_time_support", rs), ("ignore_metadata", im)) if v_})
            else:
                r = nap.TsGroup.merge_group(*gs, reset_index=bool(ri), reset_time_support=bool(rs), ignore_metadata=bool(im))
            st = impl_state(r)
            ex = None
        except Exception as e:
            st, ex = None, e
        if not states_agree(st, parse_state(line)):
            res.disagreements.append({"op": "merge_group(n-ary)", "input": inp, "impl": st if st is not None else repr(ex), "model": line})
        same_sup = all(s_["sup"] == sts[0]["sup"] for s_ in sts)
        legal = (im or all(s_["hastag"] == sts[0]["hastag"] for s_ in sts)) and (rs or same_sup) \
            and (ri or sum(len(s_["keys"]) for s_ in sts) == len(set(k for s_ in sts for k in s_["keys"])))
        items = [(k, m) for s_ in sts for k, m in zip(s_["keys"], s_["mem"])]
        if ri:
            items = [(i, m) for i, (_, m) in enumerate(items)]
        kk = {"op": "merge_group", "ignore_metadata": bool(im), "concat_keys_sorted": [k for k, _ in items] == sorted(k for k, _ in items),
              "reset_index": bool(ri), "reset_time_support": bool(rs), "accepted_different_supports": bool(not rs and not same_sup)}
        if st is None:
            if legal and not (rs and not any(m[1] for _, m in items)):
                res.violations.append({"key": dict(kk, part="exception"), "what": "merge of groups with disjoint keys and the same time support raised", "input": inp, "impl": repr(ex)})
            continue
        # the merge returned a group: whatever was accepted, the statement's preservation clause applies to it
        if not rs and not same_sup:
            res.count("merge_accepted_different_supports(empty vs one interval)")
        src = dict(items)
        if st["keys"] != sorted(k for k, _ in items):
            res.violations.append({"key": dict(kk, part="keys"), "what": "merged group does not hold the union of the keys", "input": inp, "impl": st["keys"]})
            continue
        if not rs and same_sup and st["sup"] != sts[0]["sup"]:
            res.violations.append({"key": dict(kk, part="support"), "what": "merge changed the common time support", "input": inp, "impl": st["sup"]})
        if rs:
            sups = [m[1] for _, m in sorted(items)]
            want = exact_union(sups)
            if touch_points(sups):
                res.count("merge_union_of_touching_supports(n=3+)")
            if diff_points(st["sup"], want):
                res.violations.append({"key": dict(kk, part="support_union", two_members_touching_supports=False), "what": "merged support is not the union of the members' supports",
                                       "input": inp, "impl": st["sup"], "expected": "%s = union of %s" % (want, sups)})
        for k, m in zip(st["keys"], st["mem"]):
            if m[0] != src[k][0]:
                res.violations.append({"key": dict(kk, part="members", bypass_group_member_outside_support=False, two_members_touching_supports=False),
                                       "what": "member %d changed in the merge" % k, "input": inp, "impl": m[0], "expected": src[k][0]})
        iv = invariant_viol(st)
        if iv:
            res.violations.append({"key": dict(kk, part=iv[0], **iv[2]), "what": iv[1], "input": inp, "impl": st})


# --------------------------------------------------------------------------------------
def run(res, tier, seed):
    nap = _nap()
    warnings.simplefilter("ignore")
    rng = random.Random(seed * 3 + 12)
    res.rule = ("TsGroup(): (a) EVERY ordered tuple of 1..4 keys from {'7', 2.0, 5, 0, -3} (dict input) x support {none, explicit} x bypass_check [complete]; "
                "(b) EVERY tuple of <= %s member templates out of 13 (supports disjoint / overlapping / touching / identical / two-interval / default / empty member / raw array / Tsd / "
                "a sample 0.5 us before a touching end / a 0.5 us support touching the next one) "
                "x 5 support choices (none, covering, cutting, two-interval, empty) x bypass_check, dict and list input [complete for the stated sizes, sampled above]; "
                "(c) rejected keys (non-numeric, fractional, equal integer value). Histories: random sequences of <= 6 operations out of key-list / mask / getby_threshold / "
                "getby_category / getby_intervals / restrict / get / to_tsd->to_tsgroup / merge of two selections / merge with a second group (all flag combinations), "
                "preceded by 26 directed merges of two one-member groups (touching supports with reset_time_support, empty support against one interval), "
                "model and implementation compared after EVERY step, the statement's preservation clauses and invariants evaluated on the implementation's states "
                "(also after a model disagreement, also for groups built with bypass_check=True, also for merges the library accepts although documented to raise). "
                "Oracle: the support must equal the union of the members' supports AS A POINT SET (no tolerance), members are compared with the supplied members restricted to "
                "the support the statement fixes (not to the implementation's own), rate is checked for every member with a sample whatever bypass_check. "
                "n-ary merges (3-4 groups): keys, exact union when the support is reset, every member unchanged. "
                "Group-level count / value_from (with and without ep) / trial_count against the members' own. non-trivial = keys arrive unsorted (a), >= 2 members (b), >= 2 successful steps (histories)"
                % ("2 (+ samples of 3 and 4)" if tier == "quick" else "3 (+ samples of 4)"))
    res.rule += (
        " ARGUMENT FORMS (the oracle is unchanged: it works from the ticks of the specification, so the same instants must give the same result). "
        "[axis 1 data dtype] members that are Tsd / TsdFrame / TsdTensor with float64, float32, int64..int8, uint8..uint64, bool data, data holding NaN, +inf / -inf, constant and zero data; "
        "value_from sources of the same dtypes and of class Tsd / TsdFrame (default, string and unsorted integer column labels) / TsdTensor. "
        "[axis 2 time forms] every member's timestamps and every support / epoch given as float64 ndarray, list, tuple, pandas Series / Index, int64 / int32 / int16 / uint8..uint64 / float32 arrays, "
        "lists of Python ints, unsorted arrays, views and strided views of a larger buffer, another object's TsIndex (x.index) and x.t, Python / numpy scalars for one sample or one interval; "
        "interval sets also as an array or list of pairs, a DataFrame, a copy of an IntervalSet, with metadata, with the intervals given in reverse order; get bounds as float, int, np.float64, np.int64, np.float32; "
        "key lists as list of int / np.int / float, int64 / int32 / int8 / float arrays, pandas Index; masks as bool ndarray, list of bool / np.bool_, bool Series, a comparison result; thresholds as int / float / np scalars; bins as ndarray / list / tuple. "
        "[axis 3 call forms] TsGroup(), Ts(), Tsd(), IntervalSet(), get, restrict, getby_*, merge / merge_group, count, trial_count, value_from called positionally, by keyword, mixed, with explicit None / default values and with the defaults omitted; "
        "flags combined (bypass_check x time_units x time_support x metadata form; reset_index x reset_time_support x ignore_metadata; dtype x time_units x ep; align x padding_value x time_unit); metadata as DataFrame / dict of list / dict of int16 array / dict of floats / deprecated keyword arguments. "
        "[axis 4 units] every time argument in s / ms / us (constructor time_units for raw arrays, Ts / Tsd / IntervalSet time_units, get time_units, count time_units, trial_count time_unit). "
        "[axis 5 placement] lattices of 2^-9 s, 1 s, 1 ms, 1 us shifted by 0, -6 and -13 steps (straddling 0, all negative), +1e5 s and -1e3 s (only on lattices of >= 1 ms, without the sub-microsecond templates); samples on every interval end. "
        "[axis 6 degenerate] the empty group (with a support; without one the documented RuntimeError), groups of empty members, empty raw array / empty Ts, one sample, all timestamps equal with an explicit support and (on purpose) with the empty default support, "
        "three-interval supports with a sample on every end; keys np.int64 / np.int8 / np.uint8 / np.float64 / np.float32 / True / ' 7' / '+10' / '0012' / '1_1' / 10**6 / -1e3; rejected keys '1e1', '7.0', '', nan, inf, a tuple, '0x10', -0.5 and equal values in other spellings. "
        "[axis 7 classes] data as dict / OrderedDict / list / tuple / generator / iterator / dict.values(); members Ts, Tsd, TsdFrame, TsdTensor, raw arrays; IntervalSet with and without metadata; n-ary merges with an empty group among the operands. "
        "[axis 8 histories] receivers that come out of pickle, save + load, value_from, restrict to their own support; the same live Ts under two keys, one IntervalSet object shared by the members and the group, "
        "the same live group merged with itself (reset_index) two-ary and n-ary, raw members that are views of other buffers; groups built with bypass_check=True. "
        "Every sampled class of form is counted in the distribution under form:, opform:, glform:, merge_nary_form=, source=. The model is compared on every form except: series with coinciding timestamps and a default (empty) support, "
        "a live bypass_check group merged with itself, receivers whose state changed in an object history, group-level calls on decimal lattices.")
    res.exhaustive = True
    specs = construction_specs(tier, rng)
    lines = ["\t".join(["mk"] + sp.args()) for _, sp in specs]
    out = C.run_model(lines, driver="driver_c12")
    for n, (part, sp) in enumerate(specs):
        check_construction(nap, res, sp, out[n], part)
        if n % 997 == 0:
            res.sample({"construct": sp.desc(), "model_state": out[n]})
    fspecs = form_specs(tier, seed)
    fout = C.run_model(["\t".join(["mk"] + sp.args()) for _, sp in fspecs], driver="driver_c12")
    for n, (part, sp) in enumerate(fspecs):
        check_construction(nap, res, sp, fout[n], part)
        if n % 449 == 7:
            res.sample({"construct_form": sp.desc(), "forms_used": sp.used, "model_state": fout[n]})
    hs = history_cases(tier, seed)
    hlines = ["\t".join(["hist"] + b.args() + a.args() + [x for o in ops for x in op_args(o)]) for b, a, ops in hs]
    hout = C.run_model(hlines, driver="driver_c12")
    for n, (b, a, ops) in enumerate(hs):
        run_history(nap, res, b, a, ops, hout[n])
        if n % 331 == 0:
            res.sample({"history": [list(o) for o in ops], "base": b.desc(), "trace": hout[n][:300]})
    run_history_forms(nap, res, tier, seed)
    merge_nary(nap, res, tier, seed)
    group_level(nap, res, tier, seed)


def search(res, seed):
    r2 = C.Result()
    run(r2, "thorough", seed)
    return r2.violations[0] if r2.violations else None


def replay(payload):
    """re-run the recorded construction / history / merge on the current tree and print both sides"""
    nap = _nap()
    warnings.simplefilter("ignore")
    v = payload.get("violation") or (payload.get("disagreements") or [{}])[0]
    inp = v.get("input", {})
    print("replay input:", inp)

    def spec_of(d):
        keys = []
        for r in d["keys"]:
            k = eval(r, {"__builtins__": {}}, {"np": np, "nan": float("nan"), "inf": float("inf")})
            code = (2, 0) if not isinstance(k, (int, float, str)) else None
            if code is None:
                try:
                    code = ((1 if isinstance(k, str) else 3 if isinstance(k, float) else 0), int(k)) if float(k) == int(k) else (4, int(k))
                except Exception:
                    code = (2, 0)
            keys.append((k, code))
        return Spec(keys, d["tags"], [(k, t, None if s_ is None else [tuple(x) for x in s_]) for k, t, s_ in d["members"]],
                    None if d["support"] is None else [tuple(x) for x in d["support"]], d["bypass_check"], hastag=not d.get("no_tag", False),
                    islist=d.get("list_input", False), form=d.get("form"))
    res = C.Result()
    if "base" in inp:
        b, a = spec_of(inp["base"]), spec_of(inp["aux"])
        ops = [("restrict", [tuple(x) for x in o[1]]) if o[0] == "restrict" else tuple(o) for o in inp["ops"]]
        line = C.run_model(["\t".join(["hist"] + b.args() + a.args() + [x for o in ops for x in op_args(o)])], driver="driver_c12")[0]
        run_history(nap, res, b, a, ops, line, [{"f": f_} for f_ in inp["styles"]] if "styles" in inp else None, inp.get("source"))
    elif "groups" in inp:
        specs = [spec_of(d) for d in inp["groups"]]
        gs = [sp.build(nap)[0] for sp in specs]
        if inp.get("call_form") == 4:
            gs[-1] = gs[0]
        try:
            r = nap.TsGroup.merge_group(*gs, reset_index=bool(inp["reset_index"]), reset_time_support=bool(inp["reset_time_support"]), ignore_metadata=bool(inp["ignore_metadata"]))
            print("merged keys", list(r.keys()))
        except Exception as ex:
            print("merge_group raised", repr(ex))
            return 1
        return 0
    elif "keys" in inp and "members" in inp:
        sp = spec_of(inp)
        line = C.run_model(["\t".join(["mk"] + sp.args())], driver="driver_c12")[0]
        check_construction(nap, res, sp, line, "replay")
    for x in res.violations:
        print("VIOLATION", x["key"], x["what"], "impl:", x.get("impl"), "expected:", x.get("expected"))
    for x in res.disagreements:
        print("DISAGREEMENT", x.get("op"), "impl:", x.get("impl"), "model:", x.get("model"))
    if not res.violations and not res.disagreements:
        print("no violation / disagreement on the current tree")
    return 1 if (res.violations or res.disagreements) else 0
