"""C07 threshold and dropna keep the right samples and a support that separates them."""
import itertools
import random
import warnings
from collections import Counter

import numpy as np

import common as C
import gen as G

LEVEL = "proof"
TRUSTED = ["model: coq/Model/Threshold.v (thr_go run detection with epoch cursor; runs_go for dropna); theorems: Proofs/ThresholdProofs.v",
           "the IntervalSet constructor applied to the raw (starts, ends) of threshold / dropna (rounding to ns, dropping zero-length intervals, joining / trimming) "
           "is NOT part of the C07 model: the model support is compared with the implementation only when it is canonical on whole ticks; "
           "the statement oracle runs on every case"]
ASSUMPTIONS = ["the threshold theorems assume strictly increasing timestamps (C07 sections 1-4); the oracle does not: duplicate timestamps are generated (all kept, all rejected, mixed). "
               "Refutation witnesses for repeated timestamps: C07_contains_kept_refuted_with_duplicates, C07_excludes_rejected_refuted_with_shared_time",
               "a kept and a rejected sample AT ONE TIMESTAMP cannot be separated by any support (C07_shared_time_inseparable): the statement cannot hold there; "
               "violations located within 1 us of such a timestamp carry within_1us_of_time_shared_by_kept_and_rejected",
               "a kept and a rejected neighbour exactly 1 ns apart have no representable midpoint (times have ns resolution; C07_one_tick_neighbours_refuted): "
               "violations located within 1 us of such a pair carry within_1us_of_kept_rejected_pair_1ns_apart (threshold) / kept_singleton_1ns_before_rejected (dropna)",
               "dropna: C07_dropna assumes all consecutive samples more than 1 us apart; C07_dropna_exact / _converse give the exact condition (a lone kept row is more than 1 us before the next row); "
               "the oracle assumes nothing",
               "the statement does not ask the dropna support to lie inside the old one (it bridges gaps and can extend 1 us past the old end): not checked",
               "dropna with the default support is not run on a series whose timestamps all coincide (its default support is empty and it holds no sample: zero-span quirk, see C04/C08)",
               "widened forms: data values stay exactly representable in float64 (|v| <= 2^40 for 64-bit integers; float32 extremes are exact doubles), so 'satisfies the comparison' is the exact mathematical comparison of "
               "the stored value with the threshold (Python int/float comparison is exact); float16 data / thresholds (numba has no float16), array-valued thresholds, non-bool update_time_support and non-numeric thresholds "
               "are outside the documented signature and are not generated",
               "clauses added with the widened forms, each under its own key part: the result keeps the dtype of the data ('each with its original value'; not for an all-NaN dropna, whose result is empty), "
               "a TsdFrame keeps its column labels, dropna(update_time_support=False) leaves the support unchanged and an unknown / differently-cased method string raises ValueError "
               "(the last two restate the docstrings of the parameters: the statement's support clauses speak of x.dropna() and of the four method strings only)"]

U2 = 2 * 1953125
METHODS = {"above": lambda v, t: v > t, "below": lambda v, t: v < t, "aboveequal": lambda v, t: v >= t, "belowequal": lambda v, t: v <= t}


def _nap():
    import pynapple as nap
    from pynapple.core import _jitted_functions as J
    return nap, J


def sup(o):
    return [(C.to_ns(s), C.to_ns(e)) for s, e in o.time_support.values]


def _bad_times(exp_t, got_t):
    """times at which the multiset of returned timestamps differs from the expected one"""
    a, b = Counter(exp_t), Counter(got_t)
    return sorted(set((a - b) + (b - a)))


def _interval_of(t, ep):
    for a, b in ep:
        if a <= t <= b:
            return (a, b)
    return (t, t)


def _classes(ts, kept):
    cls = {}
    for t, k in zip(ts, kept):
        cls.setdefault(t, set()).add(bool(k))
    return cls, {t for t, c in cls.items() if len(c) == 2}


THR_CAUSES = ["within_1us_of_time_shared_by_kept_and_rejected", "all_samples_of_interval_coincide", "within_1us_of_kept_rejected_pair_1ns_apart"]


def _thr_cause(t, ts, kept, ep):
    """The precise trigger of a violation located at sample time t (None = none of the recorded ones):
       within_1us_of_time_shared_by_kept_and_rejected: a kept and a rejected sample of t's interval carry one and the same timestamp u, |t - u| <= 1 us
            (no support separates them; the zero-length / touching raw intervals this produces make the IntervalSet constructor trim 1 us);
       all_samples_of_interval_coincide: >= 2 samples, all kept, all at time t, are the only samples of their interval of the old support;
       within_1us_of_kept_rejected_pair_1ns_apart: a kept and a rejected sample of t's interval are exactly 1 ns apart, both within 1 us of t
            (their midpoint is not representable: times have ns resolution)."""
    cls, shared = _classes(ts, kept)
    a, b = _interval_of(t, ep)
    here = sorted(u for u in cls if a <= u <= b)
    if any(u in shared and abs(u - t) <= 1000 for u in here):
        return THR_CAUSES[0]
    if cls.get(t) == {True} and here == [t] and sum(1 for u in ts if u == t) >= 2:
        return THR_CAUSES[1]
    for u, v in zip(here, here[1:]):
        if v - u == 1 and cls[u] != cls[v] and abs(u - t) <= 1000 and abs(v - t) <= 1000:
            return THR_CAUSES[2]
    return None


def _report(res, key, causes, what, inp, bad, cause_of, **extra):
    """one violation per distinct cause among the offending times; returns the set of causes"""
    groups = {}
    for t in bad:
        groups.setdefault(cause_of(t), []).append(t)
    if not bad:
        groups[None] = []
    for c, at in groups.items():
        res.violations.append(dict({"key": dict(key, **{n: n == c for n in causes}), "what": what, "input": inp, "at": at}, **extra))
    return set(groups)


# ------------------------------------------------------------------------------------------------------------------------
# Widened argument forms (third-round lesson: the most common form of every argument is not enough).  A `form` is a small JSON
# dict; every key is optional and its absence means the base form used by the first rounds (float64 ndarray times, two float
# arrays for the support, a fresh C-contiguous ndarray of data, positional call).  The ORACLE never looks at the form: it works on
# the effective content (timestamps in ns, Python values, support in ns) of the receiver.
NPDT = {"float": np.float64, "int": np.int64, "float64": np.float64, "float32": np.float32, "int64": np.int64, "int32": np.int32, "int16": np.int16,
        "int8": np.int8, "uint8": np.uint8, "uint16": np.uint16, "uint32": np.uint32, "uint64": np.uint64, "bool": np.bool_}
FLOAT_DT = ("float", "float64", "float32")
INT_T = {"int64": np.int64, "int32": np.int32, "uint8": np.uint8, "uint64": np.uint64, "float32": np.float32}      # whole-second time arrays
SEC = 10**9
_TMP = [None, 0]


def _tmpfile(ext):
    if _TMP[0] is None:
        import atexit
        import shutil
        import tempfile
        _TMP[0] = tempfile.mkdtemp(prefix="c07_")
        atexit.register(shutil.rmtree, _TMP[0], True)
    _TMP[1] += 1
    import os
    return os.path.join(_TMP[0], "f%d%s" % (_TMP[1], ext))


def _whole_s(xs):
    return all(x % SEC == 0 for x in xs)


def _times_arg(nap, ts, tf):
    """the timestamps ts (ns) as the `t` argument in the form tf -> (argument, constructor keywords)"""
    a = G.arr(ts)
    if tf in (None, "base", "pandas"):
        return a, {}
    if tf == "list":
        return a.tolist(), {}
    if tf == "tuple":
        return tuple(a.tolist()), {}
    if tf == "intlist":
        return [t // SEC for t in ts], {}
    if tf in INT_T:
        return np.array([t // SEC for t in ts], dtype=INT_T[tf]), {}
    if tf in ("tsindex", "ts.t"):
        o = nap.Ts(a, time_support=nap.IntervalSet(ts[0] / 1e9 - 1.0, ts[-1] / 1e9 + 1.0)) if ts else nap.Ts(a)
        if len(o) != len(ts):
            raise RuntimeError("C07 generator: Ts dropped samples")
        return (o.index if tf == "tsindex" else o.t), {}
    if tf == "pdindex":
        import pandas as pd
        return pd.Index(a), {}
    if tf == "strided":
        big = np.zeros(2 * len(ts))
        big[::2] = a
        return big[::2], {}
    if tf == "ms":
        return np.asarray(ts, dtype=np.float64) / 1e6, {"time_units": "ms"}
    if tf == "us":
        return np.asarray(ts, dtype=np.float64) / 1e3, {"time_units": "us"}
    if tf == "ms_int":
        return np.array([t // 10**6 for t in ts], dtype=np.int64), {"time_units": "ms"}
    raise ValueError("unknown time form %r" % (tf,))


def _time_form_ok(tf, ts, ep):
    if tf in ("intlist", "ms_int") or tf in INT_T:
        if not _whole_s(ts):
            return False
        lo, hi = (min(ts), max(ts)) if ts else (0, 0)
        if tf in ("uint8", "uint64") and lo < 0:
            return False
        if tf == "uint8" and hi > 255 * SEC:
            return False
        if tf == "float32" and max(abs(lo), abs(hi)) > 2**24 * SEC:
            return False
    return True


def _support_arg(nap, ep, sf):
    """the canonical interval set ep (ns) as an IntervalSet built in the form sf (None for 'default': no time_support given)"""
    if sf == "default":
        return None
    a, b = [s for s, _ in ep], [e for _, e in ep]
    st, en = G.arr(a), G.arr(b)
    I = nap.IntervalSet
    if sf in (None, "base"):
        return I(st, en)
    if sf == "kw":
        return I(start=st, end=en)
    if sf == "lists":
        return I(st.tolist(), en.tolist())
    if sf == "tuples":
        return I(tuple(st.tolist()), tuple(en.tolist()))
    if sf == "pairs":
        return I(np.stack([st, en], 1))
    if sf == "df":
        import pandas as pd
        return I(pd.DataFrame({"start": st, "end": en}))
    if sf == "iset":
        return I(I(st, en))
    if sf == "meta":
        return I(st, en, metadata={"tag": ["i%d" % i for i in range(len(ep))]})
    if sf == "reversed":
        return I(st[::-1].copy(), en[::-1].copy())
    if sf in ("int64", "int32", "uint8", "uint64", "uint8_reversed", "uint64_reversed"):
        dt = getattr(np, sf.split("_")[0])
        s_, e_ = np.array([x // SEC for x in a], dtype=dt), np.array([x // SEC for x in b], dtype=dt)
        return I(s_[::-1].copy(), e_[::-1].copy()) if sf.endswith("reversed") else I(s_, e_)
    if sf == "scalars":
        return I(float(st[0]), float(en[0]))
    if sf == "intscalars":
        return I(a[0] // SEC, b[0] // SEC)
    if sf == "ms":
        return I(np.asarray(a, dtype=np.float64) / 1e6, np.asarray(b, dtype=np.float64) / 1e6, time_units="ms")
    if sf == "us":
        return I(np.asarray(a, dtype=np.float64) / 1e3, np.asarray(b, dtype=np.float64) / 1e3, time_units="us")
    raise ValueError("unknown support form %r" % (sf,))


def _support_form_ok(sf, ts, ep):
    if sf == "default":
        return len(ts) >= 2 and ts[0] < ts[-1] and [tuple(i) for i in ep] == [(ts[0], ts[-1])]
    flat = [x for i in ep for x in i]
    if sf in ("scalars", "intscalars") and len(ep) != 1:
        return False
    if sf in ("pairs", "df", "iset", "meta", "reversed", "uint8_reversed", "uint64_reversed") and not ep:
        return False
    if sf in ("int64", "int32", "uint8", "uint64", "uint8_reversed", "uint64_reversed", "intscalars"):
        if not _whole_s(flat) or (sf.startswith("uint") and flat and min(flat) < 0) or (sf.startswith("uint8") and flat and max(flat) > 255 * SEC):
            return False
    return True


def _data_arg(d, df):
    """the data array d in the container form df -> (argument, constructor keywords)"""
    if df in (None, "base"):
        return d, {}
    if df == "list":
        return d.tolist(), {}
    if df == "strided":
        big = np.zeros((2 * d.shape[0],) + d.shape[1:], dtype=d.dtype)
        big[::2] = d
        return big[::2], {}
    if df == "readonly":
        c = d.copy()
        c.setflags(write=False)
        return c, {}
    if df == "fortran":
        return np.asfortranarray(d), {}
    if df == "memmap":          # lazily loaded data: the object keeps the memmap (load_array=False)
        mm = np.memmap(_tmpfile(".dat"), dtype=d.dtype, mode="w+", shape=d.shape)
        mm[:] = d
        mm.flush()
        return mm, {"load_array": False}
    raise ValueError("unknown data form %r" % (df,))


def _data_form_ok(df, d):
    if df == "list":
        return d.size > 0 and d.dtype in (np.dtype(np.float64), np.dtype(np.int64), np.dtype(np.bool_))
    if df == "memmap":
        return d.size > 0
    if df == "fortran":
        return d.ndim >= 2
    return True


def _construct(nap, cls, ts, d, ep, form, ckw):
    """one object of class cls holding samples (ts, d) with time support ep, every argument in the form asked for"""
    targ, tkw = _times_arg(nap, ts, form.get("t"))
    sup_ = _support_arg(nap, ep, form.get("sup"))
    if form.get("data") == "same_as_t":         # ONE ndarray passed as timestamps and as data (the values are the times in s)
        darg, dkw = targ, {}
    else:
        darg, dkw = _data_arg(d, form.get("data"))
    kw = dict(tkw, **dkw)
    kw.update(ckw)
    if sup_ is not None:
        kw["time_support"] = sup_
    K = getattr(nap, cls)
    if form.get("t") == "pandas" and cls != "TsdTensor":
        import pandas as pd
        if cls == "Tsd":
            return K(pd.Series(darg, index=targ), **kw)
        cols = kw.pop("columns", None)
        return K(pd.DataFrame(darg, index=targ, columns=cols), **kw)
    if form.get("ctor") == "kw":
        return K(t=targ, d=darg, **kw)
    return K(targ, darg, **kw)


PURE_HIST = (None, "none", "restrict", "slice_all", "mask_all", "get", "arith", "npfunc", "saveload", "copy", "column", "loc", "colsel")


def _hist_index(n, hist):
    """rows of the constructed object that the history keeps (histories whose effect is known without running the library)"""
    if hist == "slice_tail":
        return list(range(1, n))
    if hist == "index_list":
        return [i for i in range(n) if i % 3 != 1]
    return list(range(n))


def _receiver(nap, cls, ts, d, ep, form, ckw=None):
    """Build the receiver through the history form['hist'].  Returns (x, rows) where rows = indices of (ts, d) the receiver must hold,
       or (x, None) when the history is a library operation whose effect is read back from the object (chain_*)."""
    ckw = dict(ckw or {})
    hist = form.get("hist")
    n = len(ts)
    if hist == "restrict":
        # a larger object (extra samples before, after and inside the gaps of ep, one wide interval) restricted to ep
        extra = [(ep[0][0] if ep else 0) - 2 * SEC, (ep[-1][1] if ep else 0) + 2 * SEC]
        if extra[0] < 0 and form.get("t") in ("uint8", "uint64"):
            extra = extra[1:]
        whole = _whole_s(ts + [x for i in ep for x in i])
        for (_, e0), (s1, _) in zip(ep, ep[1:]):
            mid = (e0 + s1) // 2
            if (e0 + s1) % 2 == 0 and e0 < mid < s1 and (not whole or mid % SEC == 0):
                extra.append(mid)
        allt = sorted([(t, i) for i, t in enumerate(ts)] + [(t, -1) for t in extra])
        one = np.ones((1,) + d.shape[1:], dtype=d.dtype)
        big_d = np.concatenate([d[i:i + 1] if i >= 0 else one for _, i in allt]) if allt else d
        big_t = [t for t, _ in allt]
        f2 = dict(form, sup="base")
        big = _construct(nap, cls, big_t, big_d, [(big_t[0] - SEC, big_t[-1] + SEC)], f2, ckw)
        if len(big) != len(big_t):
            raise RuntimeError("C07 generator: the constructor dropped samples of the object to be restricted")
        return big.restrict(_support_arg(nap, ep, form.get("sup"))), list(range(n))
    if hist in ("column", "loc"):           # a Tsd taken out of a TsdFrame: its data is a strided view of the frame's
        D3 = np.stack([d[::-1], d, d], 1) if n else np.zeros((0, 3), dtype=d.dtype)
        fr = _construct(nap, "TsdFrame", ts, D3, ep, form, {"columns": ["a", "b", "c"]})
        return (fr[:, 1] if hist == "column" else fr.loc["b"]), list(range(n))
    x0 = _construct(nap, cls, ts, d, ep, form, ckw)
    if len(x0) != n:
        raise RuntimeError("C07 generator: the constructor dropped samples")
    if hist in (None, "none"):
        x = x0
    elif hist == "slice_all":
        x = x0[0:n] if n else x0[:]
    elif hist == "slice_tail":
        x = x0[1:]
    elif hist in ("index_list", "mask_all") and n == 0:
        x = x0[:]           # (an EMPTY index array selects columns, not rows, on a TsdFrame: not this property's business)
    elif hist == "index_list":
        x = x0[np.array(_hist_index(n, hist), dtype=np.int64)]
    elif hist == "mask_all":
        x = x0[np.ones(n, dtype=bool)]
    elif hist == "get":
        x = x0.get(ts[0] / 1e9, ts[-1] / 1e9) if n else x0
    elif hist == "arith":
        x = (x0 + 0.0) * 1.0 if d.dtype.kind == "f" else (x0 + 0 if d.dtype.kind in "iu" else x0)
    elif hist == "npfunc":
        x = np.negative(np.negative(x0)) if d.dtype.kind in "fi" else (np.abs(x0) if d.dtype.kind == "u" else x0)
    elif hist == "copy":
        x = x0.copy()
    elif hist == "colsel":
        x = x0[[str(c) for c in x0.columns]] if cls == "TsdFrame" and len(x0.columns) >= 2 and all(isinstance(c, str) for c in x0.columns) else x0
    elif hist == "saveload":
        p = _tmpfile(".npz")
        x0.save(p)
        x = nap.load_file(p)
    elif hist == "chain_thr":
        c = form["chain"]
        return x0.threshold(c[0], c[1]), None
    elif hist == "chain_dropna":
        return x0.dropna(), None
    else:
        raise ValueError("unknown history %r" % (hist,))
    return x, _hist_index(n, hist)


def _same_values(a, b):
    a, b = np.asarray(a), np.asarray(b)
    return a.shape == b.shape and bool(np.array_equal(a, b, equal_nan=True) if a.dtype.kind == "f" else np.array_equal(a, b))


def _checked_receiver(nap, cls, ts, d, ep, form, ckw, inp):
    """(x, effective ts, effective data array, effective support): the receiver must hold exactly what the generator meant it to hold"""
    x, rows = _receiver(nap, cls, ts, d, ep, form, ckw)
    if type(x).__name__ != cls:
        raise RuntimeError("C07 generator: the history produced a %s instead of a %s: %r" % (type(x).__name__, cls, inp))
    if rows is None:        # effect of a library operation: read back
        return x, [C.to_ns(t) for t in x.t], np.asarray(x.values), sup(x)
    ets, ed = [ts[i] for i in rows], d[rows]
    eep = [tuple(i) for i in ep] if ets else []
    if [C.to_ns(t) for t in x.t] != ets or sup(x) != eep or not _same_values(x.values, ed) or np.asarray(x.values).dtype != d.dtype:
        raise RuntimeError("C07 generator: the receiver does not hold the intended samples / support / dtype: %r" % (inp,))
    return x, ets, ed, eep


def _thr_arg(thr, tf):
    """the threshold value thr (a Python number) in the scalar form tf; every form holds EXACTLY the value thr (see _thr_form_ok)"""
    if tf in (None, "py"):
        return thr
    if tf == "pyfloat":
        return float(thr)
    if tf == "pyint":
        return int(thr)
    if tf == "bool":
        return bool(thr)
    if tf in ("float64", "float32"):
        return getattr(np, tf)(thr)
    if tf in ("int64", "int32", "int16", "int8", "uint8", "uint16", "uint64"):
        return getattr(np, tf)(int(thr))
    if tf == "0d":
        return np.array(float(thr))
    if tf == "0d_f32":
        return np.array(thr, dtype=np.float32)
    if tf == "0d_int":
        return np.array(int(thr))
    raise ValueError("unknown threshold form %r" % (tf,))


def _thr_form_ok(thr, tf):
    fin = thr == thr and abs(thr) != float("inf")
    if tf in (None, "py", "pyfloat", "float64", "0d"):
        return True
    if tf in ("float32", "0d_f32"):
        return not fin or float(np.float32(thr)) == thr
    if not fin or thr != int(thr):
        return False
    if tf == "bool":
        return thr in (0, 1)
    if tf in ("pyint", "0d_int"):
        return abs(thr) < 2**62
    if tf in ("int64", "int32", "int16", "int8", "uint8", "uint16", "uint64"):
        i = np.iinfo(getattr(np, tf))
        return i.min <= int(thr) <= i.max
    return False


def _kernel_sig(x, a):
    """what decides the numba specialisation of the threshold kernel: dtype / layout / writability of the data, type of the threshold"""
    v = x.values[:]
    if isinstance(a, np.ndarray):
        ta = "0d_" + a.dtype.name
    elif isinstance(a, (bool, np.bool_)):
        ta = "bool"
    elif isinstance(a, int):
        ta = "int64"
    elif isinstance(a, float):
        ta = "float64"
    else:
        ta = type(a).__name__
    return (v.dtype.name, "C" if v.flags.c_contiguous else "A", "rw" if v.flags.writeable else "ro", ta)


SMALL_PAIRS = {("float32", "float32"), ("float32", "0d_float32"), ("uint8", "uint8"), ("uint8", "int8"), ("int16", "int16"), ("int8", "float32")}


def _sig_allowed(sig, tier):
    """Every new (data type, threshold type) pair costs one numba compilation (~1 s, cached afterwards).  The pairs are therefore taken from a FIXED table
       (independent of the seed, so that the cache stays warm): every dtype with a Python int and a Python float; every threshold type with float64 data
       (thorough: also float32 and uint8 data); six small-dtype pairs; strided and read-only data for float64 / float32 / int16 with Python scalars."""
    D, lay, rw, ta = sig
    if lay == "C" and rw == "rw":
        return ta in ("int64", "float64") or D == "float64" or (D, ta) in SMALL_PAIRS or (tier == "thorough" and D in ("float32", "uint8"))
    return ta in ("int64", "float64") and D in ("float64", "float32", "int16") and (lay, rw) in (("A", "rw"), ("C", "ro"))


def fit_threshold_case(nap, c, tier):
    """build the receiver of the wide case c; forms are dropped (threshold form, data container, time form, history: in this order) until the kernel
       specialisation is one of the fixed table.  Returns (receiver tuple, signature); c['form'] is updated."""
    form, rec = c["form"], None
    for drop in (None, "thr", "data", "t", "hist"):
        if drop is not None:
            if drop not in form:
                continue
            del form[drop]
            if drop == "hist":
                form.pop("chain", None)
        if rec is None or drop in ("data", "t", "hist"):
            rec = threshold_receiver(nap, c["ts"], c["vals"], c["ep"], c["dtype"], form)
        sig = _kernel_sig(rec[0], _thr_arg(c["thr"], form.get("thr")))
        if _sig_allowed(sig, tier):
            return rec, sig
    raise RuntimeError("C07 generator: no admissible kernel signature for %r (%r)" % (c, sig))


def _probe_in_child(fn):
    """run fn() in a forked child and report how it ended: ("ok",) / ("exc", type name, message, is ValueError) / ("crash", signal).
       An unvalidated method string reaching the compiled kernel can kill the interpreter: the harness must survive that and report it."""
    import os
    import pickle
    r, w = os.pipe()
    pid = os.fork()
    if pid == 0:
        code = 0
        try:
            os.close(r)
            try:
                fn()
                out = ("ok",)
            except Exception as ex:
                out = ("exc", type(ex).__name__, str(ex)[:200], isinstance(ex, ValueError))
            with os.fdopen(w, "wb") as f:
                pickle.dump(out, f)
        except BaseException:
            code = 1
        finally:
            os._exit(code)
    os.close(w)
    with os.fdopen(r, "rb") as f:
        data = f.read()
    _, status = os.waitpid(pid, 0)
    if os.WIFSIGNALED(status):
        return ("crash", os.WTERMSIG(status))
    if not data:
        return ("crash", -1)
    return pickle.loads(data)


def _call_threshold(x, a, method, cf):
    if cf in (None, "pos"):
        return x.threshold(a, method)
    if cf == "kw":
        return x.threshold(thr=a, method=method)
    if cf == "kw_swapped":
        return x.threshold(method=method, thr=a)
    if cf == "mixed":
        return x.threshold(a, method=method)
    if cf == "default":             # method left at its default ("above")
        return x.threshold(a)
    if cf == "default_kw":
        return x.threshold(thr=a)
    if cf == "npstr":
        return x.threshold(a, np.str_(method))
    if cf.startswith("case:") or cf.startswith("bad:"):
        return x.threshold(a, cf.split(":", 1)[1])
    raise ValueError("unknown call form %r" % (cf,))


def threshold_receiver(nap, ts, vals, ep, dtype="float", form=None):
    """(receiver, effective ts, effective Python values, effective support) of a threshold case; form None = the base form of the first rounds"""
    inp = {"ts": ts, "values": vals, "ep": ep, "dtype": dtype, "form": form}
    if form is None:
        epo = nap.IntervalSet(G.arr([a for a, _ in ep]), G.arr([b for _, b in ep]))
        x = nap.Tsd(G.arr(ts), np.asarray(vals, dtype=np.int64 if dtype == "int" else float), time_support=epo)
        if len(x) != len(ts) or (ts and sup(x) != [tuple(i) for i in ep]):      # (an empty series always gets an empty support)
            raise RuntimeError("C07 generator: the constructor changed the input (samples outside the support or non-canonical support): %r" % (inp,))
        return x, ts, vals, ep
    d = np.asarray(vals, dtype=NPDT[dtype]) if len(vals) else np.zeros(0, dtype=NPDT[dtype])
    if d.tolist() != list(vals) and not (d.dtype.kind == "f" and _same_values(d, np.asarray(vals, dtype=np.float64))):
        raise RuntimeError("C07 generator: values not representable in dtype %s: %r" % (dtype, inp))
    x, ets, ed, eep = _checked_receiver(nap, "Tsd", ts, d, [tuple(i) for i in ep], form, {}, inp)
    return x, ets, ed.tolist(), eep


def check_threshold(nap, ts, vals, ep, method, thr, model_sup, res, dtype="float", form=None, x=None):
    """the statement, clause by clause, on tsd.threshold(thr, method); ts / ep in integer ns, ts sorted (duplicates allowed), all inside ep.
       form: the argument forms (None = base forms); x: a live receiver built by threshold_receiver for THIS input (the same object used again)"""
    inp = {"ts": ts, "values": vals, "ep": ep, "method": method, "thr": thr, "dtype": dtype}
    if form is not None:
        inp["form"] = form
    form_ = form or {}
    if x is None:
        x, ts, vals, ep = threshold_receiver(nap, ts, vals, ep, dtype, form)
    else:
        x, ts, vals, ep = x
    in_dtype = np.asarray(x.values).dtype
    kept = [bool(METHODS[method](v, thr)) for v in vals]
    key = {"op": "threshold", "method": method}
    cf = form_.get("call")
    if cf and cf.split(":")[0] in ("case", "bad"):
        # a method string that is not one of the four: first tried in a child process (it may reach the compiled kernel unvalidated)
        st = _probe_in_child(lambda: _call_threshold(x, _thr_arg(thr, form_.get("thr")), method, cf))
        if st[0] == "crash":
            res.violations.append({"key": dict(key, part="crash"), "what": "threshold(%r) killed the interpreter (signal %s) instead of raising ValueError" % (cf.split(":", 1)[1], st[1]), "input": inp})
            return
    try:
        r = _call_threshold(x, _thr_arg(thr, form_.get("thr")), method, cf)
    except Exception as ex:
        if cf and cf.split(":")[0] in ("case", "bad") and isinstance(ex, ValueError):
            res.count("threshold:method_string_rejected_with_ValueError")
            return              # documented: ValueError for a method that is not one of the four strings
        res.violations.append({"key": dict(key, part="exception"), "what": "threshold raised " + type(ex).__name__ + ": " + str(ex)[:120], "input": inp})
        return
    if cf and cf.startswith("bad:"):
        res.violations.append({"key": dict(key, part="unknown_method_accepted"), "what": "threshold accepted the unknown method %r" % cf[4:], "input": inp})
        return
    # (a method string in another letter case that is accepted must behave as the method it spells: the oracle goes on with `method`)
    if np.asarray(r.values).dtype != in_dtype:
        res.violations.append({"key": dict(key, part="dtype"), "what": "threshold changed the dtype of the values (%s -> %s): a kept sample keeps its original value" % (in_dtype, np.asarray(r.values).dtype),
                               "input": inp})
        return
    exp_t = [t for t, k in zip(ts, kept) if k]
    exp_v = [v for v, k in zip(vals, kept) if k]
    S = sup(r)
    got_t = [C.to_ns(t) for t in r.t]
    _, shared = _classes(ts, kept)
    cause = lambda t: _thr_cause(t, ts, kept, ep)
    lost = set()
    # 1. exactly the samples satisfying the comparison, each with its timestamp and value
    if got_t != exp_t or list(r.values) != exp_v:
        bad = _bad_times(exp_t, got_t)
        cs = _report(res, dict(key, part="kept"), THR_CAUSES, "threshold does not keep exactly the samples satisfying the comparison", inp, bad, cause,
                     impl={"t": got_t, "support": S}, expected=exp_t)
        if cs != {THR_CAUSES[0]}:
            return
        # the only missing samples sit on / next to a timestamp carrying both a kept and a rejected sample: go on with the other samples
        lost = set(bad)
    # 2. the new support contains every kept sample and no rejected sample
    bad = sorted({t for t, k in zip(ts, kept) if t not in shared and t not in lost and G.mem(t, S) != k})
    bad += sorted(t for t in shared if t not in lost and G.mem(t, S))       # contains a rejected sample (the kept one at the same time is inside too)
    if bad:
        cs = _report(res, dict(key, part="separates"), THR_CAUSES, "new support does not separate kept from rejected samples", inp, bad, cause, impl=S)
        if cs != {THR_CAUSES[0]}:
            return
    skip = shared | lost | set(bad)
    # 2b. ... so restricting the original to it reproduces the result (away from the timestamps already reported)
    if [C.to_ns(t) for t in x.restrict(r.time_support).t if C.to_ns(t) not in skip] != [t for t in exp_t if t not in skip]:
        res.violations.append({"key": dict(key, part="restrict"), "what": "restricting the original to the new support does not reproduce the result", "input": inp, "impl": S})
        return
    # 3. inside the old support: no new interval extends beyond, or bridges the gap between, old intervals
    for s, e in S:
        if not any(a <= s and e <= b for a, b in ep):
            res.violations.append({"key": dict(key, part="inside"), "what": "a new interval extends beyond / bridges intervals of the old support", "input": inp, "impl": S})
            return
    # 4. a boundary between a kept and a rejected neighbour of the same interval is their midpoint: exactly when it is a whole ns,
    #    else one of the two ns next to it (the constructor rounds to ns).  Pairs at one timestamp have no boundary; pairs with a sample
    #    reported above (lost next to a shared timestamp) are skipped.
    for (t0, k0), (t1, k1) in zip(zip(ts, kept), zip(ts[1:], kept[1:])):
        same = any(a <= t0 and t1 <= b for a, b in ep)
        if same and k0 != k1 and t0 != t1 and t0 not in lost and t1 not in lost:
            mid2 = t0 + t1
            ends2 = [2 * e for _, e in S] if k0 else [2 * s for s, _ in S]
            if not any(abs(v - mid2) == mid2 % 2 for v in ends2):
                _report(res, dict(key, part="midpoint"), THR_CAUSES[:1], "boundary between kept and rejected neighbours is not their midpoint", inp, [t0 if k0 else t1],
                        lambda t: cause(t) if cause(t) == THR_CAUSES[0] else None, impl=S, pair=[t0, t1])
                return
    if model_sup is not None and S != model_sup:
        res.disagreements.append({"op": "threshold", "input": inp, "impl": S, "model": model_sup})


def _runs(ts, keep):
    """maximal runs of consecutive kept rows: (first time, last time)"""
    out, cur = [], None
    for t, k in zip(ts, keep):
        if k:
            cur = (cur[0], t) if cur else (t, t)
        elif cur:
            out.append(cur)
            cur = None
    if cur:
        out.append(cur)
    return out


DROP_CAUSES = ["within_1us_of_time_shared_by_kept_and_rejected", "kept_singleton_1ns_before_rejected", "kept_singleton_exactly_1us_before_next_kept_run",
               "rejected_within_1us_after_kept_singleton"]


COLS = {"default": None, "str": ["z", "b", "a", "q"], "int": [7, 3, 5, 11], "strnum": ["10", "2", "1", "03"]}


def _dropna_data(keep, cls, v):
    """data array of the variant v = {dtype, shape (of one row), seed}: a kept row holds finite values and infinities of both signs, a rejected row holds
       at least one NaN (one, or every element) next to finite / infinite values; integer and bool dtypes cannot hold a NaN (keep must be all ones)"""
    rng = random.Random(v.get("seed", 0))
    dt = np.dtype(NPDT[v.get("dtype", "float64")])
    shape = tuple(v.get("shape", ()))
    n = len(keep)
    m = int(np.prod(shape)) if shape else 1
    d = np.zeros((n, m), dtype=dt)
    if dt.kind == "f":
        pool = [0.0, 1.0, -2.0, 3.0, 0.5, 1.0, 2.0, float("inf"), float("-inf")]
    elif dt.kind == "b":
        pool = [False, True]
    else:
        i = np.iinfo(dt)
        pool = [0, 1, 2, 3, max(i.min, -2**53), min(i.max, 2**53)]
    for r_, k in enumerate(keep):
        for j in range(m):
            d[r_, j] = rng.choice(pool)
        if not k:
            if dt.kind != "f" or m == 0:
                raise RuntimeError("C07 generator: a row of dtype %s / %d elements cannot hold a NaN" % (dt, m))
            for j in (range(m) if rng.random() < 0.25 else rng.sample(range(m), rng.choice([1, 1, min(2, m)]))):
                d[r_, j] = np.nan
    return d.reshape((n,) + shape)


def dropna_receiver(nap, ts, keep, cls, support, form):
    """(receiver, effective ts, effective keep mask, effective data) of a widened dropna case"""
    inp = {"ts": ts, "keep": keep, "class": cls, "support": support, "form": form}
    v = form.get("variant", {})
    d = _dropna_data(keep, cls, v)
    if support == "wide":
        ep = [(ts[0] - SEC, ts[-1] + SEC)] if ts else []
    elif support == "default":
        ep = [(ts[0], ts[-1])]
        form = dict(form, sup="default")
    else:
        ep = [tuple(i) for i in support]
    ckw = {}
    if cls == "TsdFrame":
        cols = COLS[v.get("cols", "default")]
        if cols is not None:
            ckw["columns"] = cols[:d.shape[1]]
        if v.get("meta"):
            ckw["metadata"] = {"g": list(range(d.shape[1]))}
    x, ets, ed, _ = _checked_receiver(nap, cls, ts, d, ep, form, ckw, inp)
    # the oracle's own reading of "row containing no NaN", element by element
    ekeep = [0 if any(e != e for e in np.asarray(row).reshape(-1).tolist()) else 1 for row in ed]
    if form.get("hist") not in ("chain_thr", "chain_dropna") and ekeep != [keep[i] for i in _hist_index(len(ts), form.get("hist"))]:
        raise RuntimeError("C07 generator: NaN rows differ from the intended mask: %r" % (inp,))
    return x, ets, ekeep, ed


def _call_dropna(x, cf):
    if cf in (None, "()"):
        return x.dropna()
    if cf == "(True)":
        return x.dropna(True)
    if cf == "(kw=True)":
        return x.dropna(update_time_support=True)
    if cf == "(False)":
        return x.dropna(False)
    if cf == "(kw=False)":
        return x.dropna(update_time_support=False)
    raise ValueError("unknown call form %r" % (cf,))


def check_dropna(nap, ts, keep, res, model_sup, cls="Tsd", support="wide", form=None, x=None):
    """the statement on x.dropna(); support: 'wide' (one explicit interval around all samples), 'default' (none given), or a list of intervals (ns);
       form: argument forms / data variant / history / call form (None = the base forms); x: a live receiver from dropna_receiver (used again)"""
    if form is not None:
        inp = {"ts": ts, "keep": keep, "class": cls, "support": support, "form": form}
        if x is None:
            x = dropna_receiver(nap, ts, keep, cls, support, form)
        x, ts, keep, _ = x
        n = len(ts)
        return _dropna_oracle(nap, x, ts, keep, n, res, model_sup, cls, inp, form.get("call"))
    inp = {"ts": ts, "keep": keep, "class": cls, "support": support}
    n = len(ts)
    if support == "wide":   # explicit support: a zero-span series has an empty default support
        kw = {"time_support": nap.IntervalSet(ts[0] / 1e9 - 1.0, ts[-1] / 1e9 + 1.0)}
    elif support == "default":
        kw = {}
    else:
        kw = {"time_support": nap.IntervalSet(G.arr([a for a, _ in support]), G.arr([b for _, b in support]))}
    if cls == "Tsd":
        # kept rows hold finite values and, every third one, an infinity (an infinite value is not a NaN: the row is kept)
        d = np.array([(float(i + 1) if i % 3 != 1 else (np.inf if i % 2 else -np.inf)) if k else np.nan for i, k in enumerate(keep)])
        x = nap.Tsd(G.arr(ts), d, **kw)
    elif cls == "TsdFrame":
        d = np.arange(2 * n, dtype=float).reshape(n, 2) + 1
        for i, k in enumerate(keep):
            if not k:
                d[i, i % 2] = np.nan
            elif i % 3 == 0:
                d[i, 0], d[i, 1] = np.inf, -np.inf          # infinities of both signs in one kept row (seed C07-5: NaN rows found through the row sum)
        x = nap.TsdFrame(G.arr(ts), d, columns=["a", "b"], **kw)
    else:
        d = np.arange(4 * n, dtype=float).reshape(n, 2, 2) + 1
        for i, k in enumerate(keep):
            if not k:
                d[i, i % 2, (i // 2) % 2] = np.nan
            elif i % 3 == 0:
                d[i, 0, 0], d[i, 1, 1] = np.inf, -np.inf
        x = nap.TsdTensor(G.arr(ts), d, **kw)
    if len(x) != n:
        raise RuntimeError("C07 generator: the constructor dropped samples: %r" % (inp,))
    return _dropna_oracle(nap, x, ts, keep, n, res, model_sup, cls, inp, None)


def _dropna_oracle(nap, x, ts, keep, n, res, model_sup, cls, inp, cf):
    key = {"op": "dropna", "class": cls}
    uts = cf not in ("(False)", "(kw=False)")
    old_sup = sup(x)
    try:
        r = _call_dropna(x, cf)
    except Exception as ex:
        res.violations.append({"key": dict(key, part="exception"), "what": "dropna raised " + type(ex).__name__ + ": " + str(ex)[:120], "input": inp})
        return
    exp_t = [t for t, k in zip(ts, keep) if k]
    cl, shared = _classes(ts, keep)
    runs = _runs(ts, keep)
    singles = [a for a, b in runs if a == b]                       # runs widened by 1 us: [t, t + 1 us]
    # a kept singleton whose widened end exactly meets the start of the next kept run: the constructor trims it back to [t, t] and drops it
    meets_next = {a for (a, b), (c, _) in zip(runs, runs[1:]) if a == b and c - b == 1000}

    def cause(t):
        """within_1us_of_time_shared_by_kept_and_rejected: a kept and a rejected row carry one timestamp u, |t - u| <= 1 us;
           kept_singleton_1ns_before_rejected: t is a kept run of a single timestamp with a rejected row at t + 1 ns, or that rejected row (nothing fits between them);
           kept_singleton_exactly_1us_before_next_kept_run: t is a kept run of a single timestamp and the next kept run starts at t + 1 us (the row is LOST);
           rejected_within_1us_after_kept_singleton: t is rejected and a kept run of a single timestamp u has u + 1 ns < t <= u + 1 us (t is inside the new support)"""
        if any(abs(u - t) <= 1000 for u in shared):
            return DROP_CAUSES[0]
        if (cl.get(t) == {False} and t - 1 in singles) or (t in singles and cl.get(t + 1) == {False}):
            return DROP_CAUSES[1]
        if cl.get(t) == {True} and t in meets_next:
            return DROP_CAUSES[2]
        if cl.get(t) == {False} and any(0 < t - u <= 1000 for u in singles):
            return DROP_CAUSES[3]
        return None

    S = sup(r)
    got_t = [C.to_ns(t) for t in r.t]
    rows = [i for i, k in enumerate(keep) if k]
    lost = set()
    if got_t != exp_t:
        bad = _bad_times(exp_t, got_t)
        cs = _report(res, dict(key, part="kept"), DROP_CAUSES, "dropna does not keep exactly the rows without NaN", inp, bad, cause, impl={"t": got_t, "support": S})
        if cs != {DROP_CAUSES[0]}:
            return
        lost = set(bad)
    elif not np.array_equal(np.asarray(r.values), np.asarray(x.values)[rows]):
        res.violations.append({"key": dict(key, part="values"), "what": "dropna keeps the right timestamps with the wrong rows", "input": inp})
        return
    elif exp_t and np.asarray(r.values).dtype != np.asarray(x.values).dtype:
        res.violations.append({"key": dict(key, part="dtype"), "what": "dropna changed the dtype of the kept rows (%s -> %s): a kept row keeps its original values"
                               % (np.asarray(x.values).dtype, np.asarray(r.values).dtype), "input": inp})
        return
    elif cls == "TsdFrame" and list(r.columns) != list(x.columns):
        res.violations.append({"key": dict(key, part="columns"), "what": "dropna relabelled the columns (%r -> %r): a value of a kept row is no longer under its original column"
                               % (list(x.columns), list(r.columns)), "input": inp})
        return
    if not uts:
        # update_time_support=False is outside the statement's support clauses (docstring: the time support is left as it is).  Checked: the rows (above),
        # every kept sample inside the support (statement), and the support unchanged (docstring of the parameter)
        out = sorted({t for t in exp_t if t not in lost and not G.mem(t, S)})
        if out:
            res.violations.append({"key": dict(key, part="contains_kept", update_time_support=False), "what": "a kept sample is outside the time support of dropna(update_time_support=False)",
                                   "input": inp, "impl": S, "at": out})
        elif S != (old_sup if got_t else []):
            res.violations.append({"key": dict(key, part="support_unchanged", update_time_support=False),
                                   "what": "dropna(update_time_support=False) changed the time support (docstring of the parameter)", "input": inp, "impl": S, "expected": old_sup})
        return
    bad = sorted({t for t, k in zip(ts, keep) if t not in shared and t not in lost and G.mem(t, S) != k})
    bad += sorted(t for t in shared if t not in lost and G.mem(t, S))
    if bad:
        cs = _report(res, dict(key, part="separates"), DROP_CAUSES, "dropna support does not separate kept from rejected samples", inp, bad, cause, impl=S)
        if cs != {DROP_CAUSES[0]}:
            return
    skip = shared | lost | set(bad)
    if [C.to_ns(t) for t in x.restrict(r.time_support).t if C.to_ns(t) not in skip] != [t for t in exp_t if t not in skip]:
        res.violations.append({"key": dict(key, part="restrict"), "what": "restricting the original to the dropna support does not reproduce the result", "input": inp, "impl": S})
        return
    if model_sup is not None and exp_t and len(exp_t) < n and S != model_sup:
        res.disagreements.append({"op": "dropna", "input": inp, "impl": S, "model": model_sup})


# ------------------------------------------------------------------------------------------------------------------------
EPS = [[(0, 7 * U2)], [(0, 3 * U2), (4 * U2, 7 * U2)], [(0, U2), (2 * U2, 3 * U2), (4 * U2, 7 * U2)], [(0, 2 * U2), (3 * U2, 4 * U2), (5 * U2, 7 * U2)],
       [(0, U2), (2 * U2, 5 * U2), (6 * U2, 7 * U2)], [(U2, 2 * U2), (3 * U2, 4 * U2), (5 * U2, 6 * U2)]]

# regression seeds of the audit (ep, ts, values), thr = 1
SEEDS = [([(0, 10**9)], [5 * 10**8, 5 * 10**8], [2, 2]),                      # two kept duplicates alone in their interval
         ([(0, 3 * 10**9)], [0, 10**9, 10**9, 2 * 10**9], [0, 2, 0, 2]),      # kept and rejected at the same time
         ([(0, 3 * 10**9)], [10**9, 10**9], [2, 0]),
         ([(-10**9, 5 * 10**9)], [0, 1, 2, 10**9], [2, 0, 2, 0]),             # 1 ns spacing
         ([(-10**9, 5 * 10**9)], [0, 3, 6, 10**9], [2, 0, 2, 0]),             # odd spacing: midpoints on half ns
         ([(0, 10), (20, 30)], [3, 3, 20, 20, 20], [2, 2, 0, 2, 2])]

GAPS = [0, 0, 1, 1, 2, 3, 4, 5, 7, 10, 999, 1000, 1001, 2000, 10**6, 10**6 + 1, 3 * 10**8]


def rand_ns_case(rng):
    """ns-resolution case: 1-3 intervals, <= 6 samples inside them, consecutive gaps drawn from GAPS (0 = duplicate, 1 ns, odd, around 1 us, large)"""
    m = rng.randint(1, 3)
    base = rng.choice([0, 0, -7 * 10**9, 123456789, 86400 * 10**9 + 1])
    ep, ts, x = [], [], base
    for _ in range(m):
        k = rng.choice([0, 1, 1, 2, 2, 3, 4])
        pad0, pad1 = rng.choice([0, 0, 1, 2, 1000, 10**6]), rng.choice([0, 0, 1, 2, 1000, 10**6])
        s = x
        x += pad0
        here = []
        for i in range(k):
            if i:
                x += rng.choice(GAPS)
            here.append(x)
        x += pad1
        if x == s:
            x += rng.choice([1, 2, 1000])
        ep.append((s, x))
        ts += here
        x += rng.choice([1, 2, 1001, 10**6, 10**8])     # strict gap: the constructor leaves the support alone
    ts = ts[:6]
    return ep, ts, [rng.choice([0, 1, 2]) for _ in ts]


# ------------------------------------------------------------------------------------------------------------------------
# generators of the widened forms
T_ALT = ["list", "tuple", "tsindex", "ts.t", "pdindex", "pandas", "strided", "ms", "us"]
T_INT = ["intlist", "int64", "int32", "uint8", "uint64", "float32", "ms_int"]
S_ALT = ["kw", "lists", "tuples", "pairs", "df", "iset", "meta", "reversed", "scalars", "ms", "us", "default", "default"]
S_INT = ["int64", "int32", "uint8", "uint64", "uint8_reversed", "uint64_reversed", "intscalars"]
D_ALT = ["list", "strided", "readonly", "memmap", "fortran"]
H_ANY = ["restrict", "slice_all", "slice_tail", "index_list", "mask_all", "get", "arith", "npfunc", "saveload", "copy", "chain_dropna"]
H_TSD = H_ANY + ["column", "loc", "chain_thr", "chain_thr"]
THR_ALT = ["pyfloat", "pyint", "bool", "float64", "float32", "int64", "int16", "int8", "uint8", "uint64", "0d", "0d_f32", "0d_int"]
CALL_ALT = ["kw", "kw_swapped", "mixed", "npstr", "default", "default_kw"]
DT_W = ["float64"] * 3 + ["float32"] * 3 + ["int64", "int32", "int16", "int8", "uint8", "uint16", "uint32", "uint64", "bool"]
OFF_U = [0, 0, -3, -1000, 25600000, -25600003]          # lattice offsets in units of U2 (25600000 * U2 = 1e5 s)
OFF_S = [0, 0, 0, 1, -3, 50000]                         # whole-second lattice (unit 2 s): offsets in units


def _pick(rng, alts, p_base=0.5):
    return None if rng.random() < p_base or not alts else rng.choice(alts)


def _place(rng, whole):
    """a map from lattice coordinates (multiples of U2) to ns: the dyadic lattice (unit U2) or the whole-second lattice (unit 2 s), shifted"""
    unit, off = (2 * SEC, rng.choice(OFF_S)) if whole else (U2, rng.choice(OFF_U))
    return lambda t: (t // U2 + off) * unit


def _forms(rng, ts, ep, d_probe, whole, hists, default_ok=True):
    """a random combination of argument forms applicable to (ts, ep, data): each axis keeps its base form with probability 1/2"""
    f = {}
    t = _pick(rng, T_ALT + (T_INT * 2 if whole else []))
    if t and _time_form_ok(t, ts, ep):
        f["t"] = t
    s = _pick(rng, S_ALT + (S_INT * 2 if whole else []))
    if s and (default_ok or s != "default") and _support_form_ok(s, ts, ep):
        f["sup"] = s
    dform = _pick(rng, D_ALT)
    if dform and _data_form_ok(dform, d_probe):
        f["data"] = dform
    h = _pick(rng, hists)
    if h and not (h == "restrict" and f.get("sup") == "default") and not (h in ("column", "loc") and f.get("data") == "fortran"):
        f["hist"] = h
    if rng.random() < 0.3:
        f["ctor"] = "kw"
    return f


def _thr_values(rng, vals, dtype):
    """values of the dtype for the pattern vals in {0,1,2}^n, and a threshold that separates / equals them: -> (values, thr)"""
    dt = np.dtype(NPDT[dtype])
    mode = rng.choice(["small", "small", "edge", "special"])
    if dt.kind == "b":
        return [bool(v) for v in vals], rng.choice([1, 0.5, 0, 1.5, -0.5])
    if mode == "edge":
        if dt.kind == "f":
            big, tenth = float(np.finfo(dt).max), float(dt.type(0.1))
            tab = [-big, tenth, big]
            thr = rng.choice([0.1, tenth, big, -big, 0, float(dt.type(0.3)), 0.3])
            if rng.random() < 0.3:
                tab = [tenth, float(dt.type(0.3)), float(dt.type(0.2))]
        else:
            i = np.iinfo(dt)
            lo, hi = max(i.min, -2**40), min(i.max, 2**40)
            mid = 0 if lo < 0 else hi // 2
            tab = [lo, mid, hi]
            thr = rng.choice([lo - 1, lo, lo + 0.5, mid, mid + 0.5, hi - 0.5, hi, hi + 1, hi + 1.5])
        return [tab[v] for v in vals], thr
    if mode == "special" and dt.kind == "f":
        out = [float(v) for v in vals]
        for _ in range(rng.choice([1, 1, 2])):
            if out:
                out[rng.randrange(len(out))] = rng.choice([float("nan"), float("inf"), float("-inf")])
        return out, rng.choice([1, 1, float("inf"), float("-inf"), float("nan"), 0.5])
    thr = rng.choice([1, 1, 0.5, 1.5] + ([-0.5] if dt.kind in "fi" else []))
    out = [v - 1 for v in vals] if thr < 0 else list(vals)
    return ([float(v) for v in out] if dt.kind == "f" else out), thr


def wide_threshold_case(rng, distinct, dups):
    """one threshold case in non-base forms: dict(ep, ts, vals, dtype, thr, methods, form, reuse)"""
    whole = rng.random() < 0.3
    k = rng.random()
    if k < 0.08:            # degenerate receivers
        ep = rng.choice(EPS)
        ts = rng.choice([[], [], [ep[-1][0]], [ep[0][1]], [ep[0][0]] * 2, [ep[-1][1]] * 3])
        vals = [rng.choice([0, 1, 2]) for _ in ts]
        if rng.random() < 0.2:
            ep, ts, vals = [], [], []       # empty time support
    elif k < 0.72 or whole:
        ep, ts, vals = rng.choice(distinct if rng.random() < 0.7 else dups)
    else:
        ep, ts, vals = rand_ns_case(rng)
        whole = None
    if whole is not None:
        conv = _place(rng, whole)
        ep, ts = [(conv(a), conv(b)) for a, b in ep], [conv(t) for t in ts]
        if rng.random() < 0.2 and len(ts) >= 2 and ts[0] < ts[-1]:
            ep = [(ts[0], ts[-1])]          # the support a series gets by default
    ep, ts, vals = [tuple(i) for i in ep], list(ts), list(vals)
    dtype = rng.choice(DT_W)
    vals, thr = _thr_values(rng, vals, dtype)
    d = np.asarray(vals, dtype=NPDT[dtype]) if vals else np.zeros(0, dtype=NPDT[dtype])
    form = _forms(rng, ts, ep, d, bool(whole), H_TSD)
    if form.get("hist") == "chain_thr":
        form["chain"] = [rng.choice([0.5, 1.5, 1]), rng.choice(list(METHODS))]
        form.pop("data", None)              # (the first threshold runs on plain data: its kernel specialisation stays in the fixed table, see _sig_allowed)
        if form.get("t") == "pandas":
            del form["t"]
    if form.get("hist") == "chain_dropna":
        if d.dtype.kind == "f" and vals:
            for _ in range(rng.choice([1, 2])):
                vals[rng.randrange(len(vals))] = float("nan")
        else:
            del form["hist"]
    if dtype == "float64" and ts and form.get("t") in (None, "strided") and form.get("data") is None and form.get("hist") in (None, "slice_all", "copy", "get") \
            and len(set(ts)) == len(ts) and rng.random() < 0.5:
        form["data"] = "same_as_t"
        vals = G.arr(ts).tolist()
        thr = rng.choice(vals + [(vals[0] + vals[-1]) / 2])
    tf = _pick(rng, [f_ for f_ in THR_ALT if _thr_form_ok(thr, f_)], 0.4)
    if tf:
        form["thr"] = tf
    reuse = rng.random() < 0.25
    methods = list(METHODS) if reuse else [rng.choice(list(METHODS))]
    r = rng.random()
    if r < 0.06:
        form["call"] = "case:" + rng.choice([methods[0].upper(), methods[0].capitalize(), methods[0].swapcase(), methods[0][0].upper() + methods[0][1:]])
        methods, reuse = methods[:1], False
    elif r < 0.10:
        form["call"] = "bad:" + rng.choice(["abov", "", "greater", "above ", "aboveequals", ">"])
        methods, reuse = methods[:1], False
    elif r < 0.55:
        cf = rng.choice(CALL_ALT)
        if cf.startswith("default"):
            methods, reuse = ["above"], False
        form["call"] = cf
    return {"ep": ep, "ts": ts, "vals": vals, "dtype": dtype, "thr": thr, "methods": methods, "form": form, "reuse": reuse}


SHAPES = {"Tsd": [()], "TsdFrame": [(1,), (2,), (2,), (3,), (4,)], "TsdTensor": [(2, 2), (1, 3), (3, 1), (2, 1, 2), (1, 1, 1, 2)]}


def wide_dropna_case(rng, pts):
    """one dropna case in non-base forms: dict(ts, keep, cls, support, form, calls)"""
    whole = rng.random() < 0.3
    k = rng.random()
    lat = None
    if k < 0.07:
        ts, lat = [], []
    elif k < 0.75 or whole:
        lat = sorted(rng.choice(pts) for _ in range(rng.randint(1, 4)))
        conv = _place(rng, whole)
        ts = [conv(t) for t in lat]
    else:
        ts = [rng.choice([0, 0, 10**9 + 7, -5000, 10**14])]
        for _ in range(rng.randint(1, 4)):
            ts.append(ts[-1] + rng.choice([0, 1, 500, 999, 1000, 1001, 1500, 2000, 2001, 5000, 10**6]))
        whole = False
    n = len(ts)
    cls = rng.choice(["Tsd", "TsdFrame", "TsdTensor"])
    r = rng.random()
    dtype = "float64" if r < 0.5 else ("float32" if r < 0.78 else rng.choice(DT_W[6:]))
    r = rng.random()
    keep = [1] * n if (r < 0.12 or dtype not in FLOAT_DT) else ([0] * n if r < 0.2 else [rng.randint(0, 1) for _ in range(n)])
    shape = rng.choice(SHAPES[cls])
    if cls == "TsdFrame" and all(keep) and rng.random() < 0.08:
        shape = (0,)
    v = {"dtype": dtype, "shape": list(shape), "seed": rng.randrange(10**6)}
    if cls == "TsdFrame":
        v["cols"] = rng.choice(list(COLS))
        if rng.random() < 0.3:
            v["meta"] = True
    # support: wide / default / several intervals (lattice cases: one of EPS containing the samples, placed like them)
    support = "wide"
    r = rng.random()
    if r < 0.3 and n >= 2 and ts[0] < ts[-1]:
        support = "default"
    elif r < 0.6 and lat is not None:
        multi = [ep for ep in EPS[1:] if all(G.mem(t, ep) for t in lat)]
        if multi and (n or rng.random() < 0.5):
            c = conv if n else _place(rng, whole)
            support = [(c(a), c(b)) for a, b in rng.choice(multi)]
    ep = [(ts[0] - SEC, ts[-1] + SEC)] if support == "wide" and ts else ([] if support == "wide" else ([(ts[0], ts[-1])] if support == "default" else support))
    probe = np.zeros((max(n, 1),) + tuple(shape), dtype=NPDT[dtype])
    if n == 0 or 0 in shape:
        probe = probe[:0]
    hists = (H_TSD if cls == "Tsd" else H_ANY + (["colsel"] if cls == "TsdFrame" else []))
    form = _forms(rng, ts, ep, probe, bool(whole), hists, default_ok=False)
    if 0 in shape and form.get("t") == "pandas":
        del form["t"]                   # (a pandas DataFrame without columns forgets its dtype)
    if support == "default":
        form.pop("sup", None)
        if form.get("hist") == "restrict":
            del form["hist"]
    if form.get("hist") == "chain_thr":
        form["chain"] = [rng.choice([0.5, 1.5, -1e300]), rng.choice(list(METHODS))]
        form.pop("data", None)
        if form.get("t") == "pandas":
            del form["t"]
    form["variant"] = v
    calls = [rng.choice(["()", "()", "()", "(True)", "(kw=True)", "(False)", "(kw=False)"])]
    if rng.random() < 0.2:
        calls.append(rng.choice(["()", "(kw=True)", "(kw=False)"]))          # the same live object used twice
    return {"ts": ts, "keep": keep, "cls": cls, "support": support, "form": form, "calls": calls}


def _count_form(res, op, form, extra=()):
    nb = 0
    for ax in ("t", "sup", "data", "hist", "thr", "call", "ctor"):
        v = form.get(ax)
        if v is not None:
            nb += 1
            res.count("%s:form:%s=%s" % (op, ax, v.split(":")[0] if ax == "call" else v))
    res.count("%s:forms_combined=%d" % (op, nb))
    for e in extra:
        res.count("%s:%s" % (op, e))


def run(res, tier, seed):
    nap, J = _nap()
    warnings.simplefilter("ignore")
    N = 8
    pts = G.lattice(N, step=U2)
    nmax = 4 if tier == "quick" else 5
    dmax = 4                                            # multisets with repeated timestamps: up to 4 samples
    nrand = 1000 if tier == "quick" else 15000
    res.rule = ("threshold: ALL (6 supports with 1-3 intervals incl. empty intervals and first sample not in first interval) x (<=%d distinct samples, and every MULTISET of <=%d samples with "
                "repeated timestamps, inside the support on an 8-point even-tick dyadic lattice) x (all value patterns in {0,1,2}^n against thr=1) x 4 methods "
                "[thorough: complete for distinct samples and for multisets of <=3, 30000 sampled multisets of 4; quick: 3000 + 1500 sampled]; "
                "plus %d random ns-resolution cases (1-3 intervals, <=6 samples, gaps 0 / 1 ns / odd / ~1 us / large, float and int64 data; integer threshold 1 and, on every 5th lattice case (int64 data) and a quarter of the ns cases, the non-integer thresholds 0.5 / 1.5 / -0.5) x 4 methods, plus the audit's seeds. "
                "dropna: all NaN masks over all multisets of <=%d lattice points for Tsd (TsdFrame/TsdTensor every 7th), each under one wide interval, the default support and one "
                "multi-interval support containing the samples (rotating) [quick: 1200 sampled]; plus 300 (thorough 3000) ns-resolution cases with gaps 0 / 1 ns / <1 us / =1 us / 1-2 us / >2 us. Oracle = the statement (kept exact, separation, "
                "restrict reproduces, threshold inside old support, midpoints exact up to ns rounding), no exemption: what cannot hold (kept and rejected at one timestamp, 1 ns neighbours) "
                "is reported under a dedicated key. Model correspondence on the new support when the raw model support is canonical on whole ticks. "
                "non-trivial = >=2 samples with both kept and rejected. "
                "WIDENED ARGUMENT FORMS (fourth round; %d threshold and %d dropna cases, every axis drawn independently from random.Random(seed*13+5), base form with probability 1/2, so forms are COMBINED; "
                "the oracle is the same statement applied to the effective content of the receiver; the model is run on that content). "
                "Axis 1 dtype: threshold on float64/float32/int64/int32/int16/int8/uint8/uint16/uint32/uint64/bool data (values 0,1,2 / the dtype's extremes with thresholds one below, on, half a unit inside and one above them / "
                "float32 values 0.1f,0.2f,0.3f against the double 0.1, 0.3 and against the float32 value itself / NaN, +inf, -inf samples; thresholds +inf, -inf, NaN); dropna on the same dtypes (NaN only in floats; rows mixing NaN, +inf, -inf; "
                "a rejected row has one, two or only NaN elements at random positions; integer/bool rows are all kept); the result keeps the dtype. "
                "Axis 2 scalar / time forms: thr as Python int / float / bool, np.float64/float32, np.int8/int16/int64, np.uint8/uint64, 0-d float64 / float32 / int arrays (each holding exactly the mathematical threshold; the (data type, threshold type) pairs come from a fixed seed-independent table, see _sig_allowed: every pair is one numba specialisation of the kernel); "
                "receiver timestamps given as ndarray, list, tuple, pandas Index, pandas Series/DataFrame, another object's TsIndex, its .t, a strided view, Python ints, int64/int32/uint8/uint64/float32 arrays (whole-second lattice); "
                "time support built from two arrays, keywords, lists, tuples, an (n,2) array, a DataFrame, another IntervalSet, with metadata, in reversed order, from Python scalars, from int64/int32/uint8/uint64 arrays (also reversed), or left to the default. "
                "Axis 3 parameters: thr / method positional, by keyword, swapped keywords, method omitted (default 'above'), method as np.str_; a method string in another letter case must raise ValueError or act as the method it spells, "
                "an unknown method string must raise ValueError (these calls are first tried in a forked child: a kernel reached with an unvalidated string kills the interpreter, reported as part=crash); dropna(), dropna(True/False), dropna(update_time_support=True/False) (False: rows exact, kept samples inside, support unchanged); constructor arguments positional and by keyword. "
                "Axis 4 units: receiver times and supports given in ms / us (float and integer ms). Axis 5 placement: lattice shifted to negative times, across 0, to +-1e5 s; whole-second lattice. "
                "Axis 6 degenerate: empty series (with one / several / no interval), one sample, all samples at one timestamp, empty time support, frames with 0 and 1 column. "
                "Axis 7 classes: dropna on Tsd, TsdFrame (1-4 columns; default / string / non-sorted integer / numeric-string labels, with metadata; labels must survive), TsdTensor (row shapes (2,2) (1,3) (3,1) (2,1,2) (1,1,1,2)). "
                "Axis 8 histories: receiver obtained by restrict of a larger object, slicing (all / tail), integer-array and boolean indexing, get, arithmetic, a numpy function, save + load_file, copy, a column of a TsdFrame (strided data), "
                "a previous threshold or dropna (content read back from the object); read-only, Fortran-ordered and memory-mapped (load_array=False) data; ONE ndarray passed as times and data; the same live receiver used for all four methods / for two dropna calls"
                % (nmax, dmax, nrand, nmax, 3000 if tier == "quick" else 9000, 3000 if tier == "quick" else 8000))
    res.exhaustive = True
    rng = random.Random(seed * 11 + 3)
    distinct, dups = [], []
    for ep in EPS:
        for n in range(0, nmax + 1):
            for ts in itertools.combinations_with_replacement(pts, n):
                rep = len(set(ts)) < n
                if (rep and n > dmax) or not all(G.mem(x, ep) for x in ts):
                    continue
                for vals in itertools.product([0, 1, 2], repeat=n):
                    (dups if rep else distinct).append((ep, list(ts), list(vals)))
    if tier == "quick":
        cases = rng.sample(distinct, 3000) + rng.sample(dups, 1500) + [c for c in distinct if len(c[1]) <= 1]
    else:
        cases = distinct + [c for c in dups if len(c[1]) <= 3] + rng.sample([c for c in dups if len(c[1]) == 4], 30000)
    offs = [0, -3 * U2, -1000 * U2]
    # the threshold: 1 (values 0,1,2 fall below / on / above it); every 5th lattice case and half of the integer-dtype cases use a NON-INTEGER threshold
    # (0.5, 1.5, and -0.5 against values -1,0,1): the comparison is the mathematical one whatever the dtype of the data (seed C07-4: threshold cast to the data's dtype)
    FRAC = [0.5, 1.5, -0.5]
    def with_thr(ep, ts, vals, dt, k):
        if k is None:
            return (ep, ts, vals, dt, 1)
        thr = FRAC[k % 3]
        return (ep, ts, [v - 1 for v in vals] if thr < 0 else vals, dt, thr)
    cases = [with_thr([(a + offs[n % 3], b + offs[n % 3]) for a, b in ep], [t + offs[n % 3] for t in ts], vals, "int" if n % 5 == 4 else "float", n // 5 if n % 5 == 4 else None)
             for n, (ep, ts, vals) in enumerate(cases)]
    nlat = len(cases)
    cases += [(ep, ts, vals, "float", 1) for ep, ts, vals in SEEDS]
    for i in range(nrand):
        ep, ts, vals = rand_ns_case(rng)
        if i % 4 != 3 and i % 5 == 0 and vals:
            vals[rng.randrange(len(vals))] = float("nan")          # a NaN sample satisfies none of the four comparisons (seed C07-6: 'below' computed as not 'aboveequal')
        cases.append(with_thr(ep, ts, vals, "int" if i % 4 == 3 else "float", i // 4 if i % 8 in (3, 6) else None))
    lines = []
    for ep, ts, vals, _, thr in cases:
        for m in METHODS:
            kept = [1 if METHODS[m](v, thr) else 0 for v in vals]
            lines.append("threshold\t%s\t%s\t%s" % (C.fmt_iset(ep), C.fmt_ints(ts), C.fmt_ints(kept)))
    out = C.run_model(lines)
    for n, (ep, ts, vals, dt, thr) in enumerate(cases):
        res.count("threshold:dtype=%s,thr=%s" % (dt, "integer" if thr == int(thr) else "fractional"))
        if any(v != v for v in vals):
            res.count("threshold:with_nan_sample")
        for j, m in enumerate(METHODS):
            kept = [METHODS[m](v, thr) for v in vals]
            res.case((tuple(ep), tuple(ts), tuple(kept)), nontrivial=len(ts) >= 2 and any(kept) and not all(kept))
            mv = [int(x) for x in out[4 * n + j].split()]
            # the model support is in doubled ticks and raw (before the IntervalSet constructor): comparable when every bound is a whole tick and the set is canonical
            msup = [(a // 2, b // 2) for a, b in zip(mv[0::2], mv[1::2])] if all(v % 2 == 0 for v in mv) else None
            if msup is None or not G.canonical(msup):
                msup = None
                res.count("threshold:model_support_not_comparable(half-tick or non-canonical raw support)")
            check_threshold(nap, ts, vals, ep, m, thr, msup, res, dt)
        res.count("n_samples=%d" % len(ts))
        res.count("n_intervals=%d" % len(ep))
        res.count("threshold:" + ("lattice" if n < nlat else "ns-resolution") + (",duplicates" if len(set(ts)) < len(ts) else ""))
        if any(b - a == 1 for a, b in zip(ts, ts[1:])):
            res.count("threshold:has_1ns_gap")
        if n % 1501 == 0:
            res.sample({"ep": ep, "ts": ts, "values": vals, "model_support_above": out[4 * n]})
    # ---- threshold in widened argument forms (processed in chunks: receivers built, model run on their effective content, oracle)
    wrng = random.Random(seed * 13 + 5)
    nwt = 3000 if tier == "quick" else 9000
    wcases = [wide_threshold_case(wrng, distinct, dups) for _ in range(nwt)]
    sigs = set()
    for c0 in range(0, nwt, 500):
        chunk = wcases[c0:c0 + 500]
        recs, lines = [], []
        for c in chunk:
            rec, sig = fit_threshold_case(nap, c, tier)
            sigs.add(sig)
            recs.append(rec)
            for m in c["methods"]:
                kept = [1 if METHODS[m](v, c["thr"]) else 0 for v in rec[2]]
                lines.append("threshold\t%s\t%s\t%s" % (C.fmt_iset(rec[3]), C.fmt_ints(rec[1]), C.fmt_ints(kept)))
        wout = C.run_model(lines)
        li = 0
        for c, rec in zip(chunk, recs):
            form = c["form"]
            fkey = tuple(sorted((k_, str(v_)) for k_, v_ in form.items()))
            for j, m in enumerate(c["methods"]):
                kept = [METHODS[m](v, c["thr"]) for v in rec[2]]
                res.case((tuple(rec[3]), tuple(rec[1]), tuple(kept), m, c["dtype"], fkey), nontrivial=len(rec[1]) >= 2 and any(kept) and not all(kept))
                mv = [int(x) for x in wout[li].split()]
                li += 1
                msup = [(a // 2, b // 2) for a, b in zip(mv[0::2], mv[1::2])] if all(v % 2 == 0 for v in mv) else None
                if msup is None or not G.canonical(msup):
                    msup = None
                    res.count("threshold:model_support_not_comparable(half-tick or non-canonical raw support)")
                # reuse: the four methods run on ONE live receiver; otherwise the receiver built above is used once
                check_threshold(nap, c["ts"], c["vals"], c["ep"], m, c["thr"], msup, res, c["dtype"], form, x=rec)
            thr = c["thr"]
            _count_form(res, "threshold", form, ["wide:dtype=" + c["dtype"],
                                                 "wide:thr=" + ("nan" if thr != thr else "infinite" if abs(thr) == float("inf") else "integer" if thr == int(thr) else "fractional"),
                                                 "wide:n_samples=%d" % len(rec[1]), "wide:n_intervals=%d" % len(rec[3])]
                        + (["wide:same_live_receiver_for_4_methods"] if c["reuse"] else [])
                        + (["wide:values_with_nan_or_inf"] if any(v != v or abs(v) == float("inf") for v in rec[2] if isinstance(v, float)) else [])
                        + (["wide:negative_times"] if rec[1] and rec[1][0] < 0 else []) + (["wide:times_beyond_1e5s"] if rec[1] and abs(rec[1][0]) >= 10**14 else [])
                        + (["wide:duplicate_timestamps"] if len(set(rec[1])) < len(rec[1]) else []))
            if c is chunk[-1] and c0 % 1000 == 0:
                res.sample({"wide_threshold_case": {k_: c[k_] for k_ in ("ep", "ts", "vals", "dtype", "thr", "methods", "form")}}, limit=8)
        del recs
    res.count("threshold:wide:distinct_kernel_specialisations(data dtype/layout/writable x threshold type)", len(sigs))
    for s_ in sorted(sigs):
        if s_[1:3] != ("C", "rw"):
            res.count("threshold:wide:data_reaching_kernel=" + ("strided" if s_[1] == "A" else "read-only") + "," + s_[0])
    # dropna
    dcases = []
    for n in range(1, nmax + 1):
        for ts in itertools.combinations_with_replacement(pts, n):
            for keep in itertools.product([0, 1], repeat=n):
                dcases.append((list(ts), list(keep)))
    if tier == "quick":
        dcases = rng.sample(dcases, 1200)
    # ns resolution: a kept singleton is widened by 1 us; gaps below, at and above 1 us, duplicates
    dgaps = [0, 1, 500, 500, 999, 1000, 1000, 1001, 1500, 2000, 2001, 5000]
    for _ in range(300 if tier == "quick" else 3000):
        n = rng.randint(2, 5)
        ts = [rng.choice([0, 0, 10**9 + 7, -5000])]
        for _ in range(n - 1):
            ts.append(ts[-1] + rng.choice(dgaps))
        dcases.append((ts, [rng.randint(0, 1) for _ in range(n)]))
    dcases += [([0, 500, 1000], [1, 0, 1]), ([0, 1000, 2 * 10**9], [1, 0, 1]), ([0, 500], [1, 0])]
    mo = C.run_model(["dropna\t%s\t%s" % (C.fmt_ints(ts), C.fmt_ints(k)) for ts, k in dcases])
    for n, ((ts, keep), o) in enumerate(zip(dcases, mo)):
        mv = [int(x) for x in o.split()]
        msup = list(zip(mv[0::2], mv[1::2]))
        res.case((tuple(ts), tuple(keep), "dropna"), nontrivial=any(keep) and not all(keep))
        # model support goes through the constructor (touching after +1us widening is trimmed): compare only when canonical
        msup = msup if G.canonical(msup) else None
        sups = ["wide"]
        if ts[0] < ts[-1]:
            sups.append("default")              # a zero-span series has an empty default support and no samples
        else:
            res.count("dropna:default_support_skipped(zero-span series)")
        multi = [ep for ep in EPS[1:] if all(G.mem(t, ep) for t in ts)]
        if multi:
            sups.append(multi[n % len(multi)])
        for s in sups:
            check_dropna(nap, ts, keep, res, msup, "Tsd", s)
            res.count("dropna:support=" + (s if isinstance(s, str) else "multi-interval"))
        if len(set(ts)) < len(ts):
            res.count("dropna:duplicates")
        if n % 7 == 0:
            check_dropna(nap, ts, keep, res, msup, "TsdFrame", sups[n % len(sups)])
            check_dropna(nap, ts, keep, res, msup, "TsdTensor", sups[(n + 1) % len(sups)])
    # ---- dropna in widened forms
    nwd = 3000 if tier == "quick" else 8000
    wd = [wide_dropna_case(wrng, pts) for _ in range(nwd)]
    for c0 in range(0, nwd, 500):
        chunk = wd[c0:c0 + 500]
        recs = [dropna_receiver(nap, c["ts"], c["keep"], c["cls"], c["support"], c["form"]) for c in chunk]
        wout = C.run_model(["dropna\t%s\t%s" % (C.fmt_ints(rec[1]), C.fmt_ints(rec[2])) for rec in recs])
        for c, rec, o in zip(chunk, recs, wout):
            mv = [int(x) for x in o.split()]
            msup = list(zip(mv[0::2], mv[1::2]))
            msup = msup if G.canonical(msup) else None
            form = c["form"]
            v = form["variant"]
            fkey = tuple(sorted((k_, str(v_)) for k_, v_ in form.items()))
            for cf in c["calls"]:
                res.case((tuple(rec[1]), tuple(rec[2]), "dropna", c["cls"], cf, fkey), nontrivial=any(rec[2]) and not all(rec[2]))
                check_dropna(nap, c["ts"], c["keep"], res, msup if cf in ("()", "(True)", "(kw=True)") else None, c["cls"], c["support"], dict(form, call=cf), x=rec)
                res.count("dropna:wide:call=" + cf)
            _count_form(res, "dropna", form, ["wide:class=" + c["cls"], "wide:dtype=" + v["dtype"], "wide:row_shape=" + str(tuple(v["shape"])),
                                              "wide:support=" + (c["support"] if isinstance(c["support"], str) else "multi-interval"), "wide:n_samples=%d" % len(rec[1])]
                        + (["wide:same_live_receiver_twice"] if len(c["calls"]) > 1 else [])
                        + (["wide:frame_columns=" + v.get("cols", "default") + (",metadata" if v.get("meta") else "")] if c["cls"] == "TsdFrame" else [])
                        + (["wide:negative_times"] if rec[1] and rec[1][0] < 0 else []) + (["wide:times_beyond_1e5s"] if rec[1] and abs(rec[1][0]) >= 10**14 else []))
            if c is chunk[-1] and c0 % 1000 == 0:
                res.sample({"wide_dropna_case": c}, limit=8)
        del recs


def search(res, seed):
    r2 = C.Result()
    run(r2, "thorough", seed)
    new = [v for v in r2.violations if C.match_known("C07", v) is None]
    return new[0] if new else (r2.violations[0] if r2.violations else None)


def replay(payload):
    nap, J = _nap()
    warnings.simplefilter("ignore")
    v = payload.get("violation") or (payload.get("disagreements") or [{}])[0]
    inp = v.get("input", {})
    r = C.Result()
    form = inp.get("form")
    if "values" in inp:
        thr = float(inp["thr"]) if isinstance(inp["thr"], str) else inp["thr"]          # 'nan' / 'inf' spelled as strings
        vals = [float(v) if isinstance(v, str) else v for v in inp["values"]]
        check_threshold(nap, inp["ts"], vals, [tuple(x) for x in inp["ep"]], inp["method"], thr, None, r, inp.get("dtype", "float"), form)
    else:
        s = inp.get("support", "wide")
        check_dropna(nap, inp["ts"], inp["keep"], r, None, inp.get("class", "Tsd"), s if isinstance(s, str) else [tuple(i) for i in s], form)
    print("input", inp)
    print("violations on this tree:", r.violations)
    return 1 if r.violations else 0

# --- Glue layer (DESIGN.md 10.11): the Python between the API and the kernels, tied by proof in Properties/C07c.v; this is the
# executable tie of its trusted parts (translator tools/py2glue.py + primitive semantics Glue/Interp.v): the TRANSLATED term run by the
# extracted evaluator (ocaml/gluedriver) against the REAL routine of pynapple on the same inputs (harness/gluecmp.py).
import gluecmp  # noqa: E402

DRIVERS = list(globals().get("DRIVERS", ["driver"])) + ["gluedriver"]
GLUE_ROUTINES = ['_threshold', '_dropna', '_BaseTsd.dropna', 'Tsd.threshold']
_run_without_glue = run


def run(res, tier, seed):
    _run_without_glue(res, tier, seed)
    gluecmp.check(res, GLUE_ROUTINES, tier, seed)
    res.rule += (" | glue: for each of %s the translated Glue.Lang term (coq/Gen/Glue.v) is evaluated by the extracted Glue/Interp.v and compared with the "
                 "real pynapple routine on canonical sets of a dyadic lattice (incl. negative times, empty, touching, duplicates, unsorted/improper "
                 "constructor input, thresholds equal to a length or gap); exceptions must match the model's error kind" % ", ".join(GLUE_ROUTINES))
