"""C07 threshold and dropna keep the right samples and a support that separates them."""
import itertools
import random
import warnings

import numpy as np

import common as C
import gen as G

LEVEL = "proof"
TRUSTED = ["model: coq/Model/Threshold.v (thr_go run detection with epoch cursor; runs_go for dropna); theorems: Proofs/ThresholdProofs.v"]
ASSUMPTIONS = ["timestamps strictly increasing (duplicate timestamps with mixed kept/rejected make a midpoint coincide with both samples; outside the theorems)",
               "exhaustive cases on even ticks of the dyadic lattice 2^-8 s so that midpoints are whole ticks and exact in float",
               "dropna theorems assume consecutive samples more than 1 us apart (a kept singleton is widened by 1 us)"]

U2 = 2 * 1953125
METHODS = {"above": lambda v, t: v > t, "below": lambda v, t: v < t, "aboveequal": lambda v, t: v >= t, "belowequal": lambda v, t: v <= t}


def _nap():
    import pynapple as nap
    from pynapple.core import _jitted_functions as J
    return nap, J


def sup(o):
    return [(C.to_ns(s), C.to_ns(e)) for s, e in o.time_support.values]


def check_threshold(nap, ts, vals, ep, method, thr, model_sup, res):
    inp = {"ts": ts, "values": vals, "ep": ep, "method": method, "thr": thr}
    epo = nap.IntervalSet(G.arr([a for a, _ in ep]), G.arr([b for _, b in ep]))
    x = nap.Tsd(G.arr(ts), np.asarray(vals, dtype=float), time_support=epo)
    if len(x) != len(ts):
        return
    kept = [bool(METHODS[method](v, thr)) for v in vals]
    key = {"op": "threshold", "method": method}
    try:
        r = x.threshold(thr, method)
    except Exception as ex:
        res.violations.append({"key": dict(key, part="exception"), "what": "threshold raised " + type(ex).__name__, "input": inp})
        return
    exp_t = [t for t, k in zip(ts, kept) if k]
    exp_v = [v for v, k in zip(vals, kept) if k]
    S = sup(r)
    if [C.to_ns(t) for t in r.t] != exp_t or list(r.values) != exp_v:
        res.violations.append({"key": dict(key, part="kept"), "what": "threshold does not keep exactly the samples satisfying the comparison", "input": inp,
                               "impl": {"t": [C.to_ns(t) for t in r.t], "support": S}, "expected": exp_t})
        return
    for t, k in zip(ts, kept):
        if G.mem(t, S) != k:
            res.violations.append({"key": dict(key, part="separates"), "what": "new support does not separate kept from rejected samples", "input": inp, "impl": S, "t": t})
            return
    if [C.to_ns(t) for t in x.restrict(r.time_support).t] != exp_t:
        res.violations.append({"key": dict(key, part="restrict"), "what": "restricting the original to the new support does not reproduce the result", "input": inp, "impl": S})
        return
    for s, e in S:
        if not any(a <= s and e <= b for a, b in ep):
            res.violations.append({"key": dict(key, part="inside"), "what": "a new interval extends beyond / bridges intervals of the old support", "input": inp, "impl": S})
            return
    # midpoints between kept/rejected neighbours of the same interval
    for (t0, k0), (t1, k1) in zip(zip(ts, kept), zip(ts[1:], kept[1:])):
        same = any(a <= t0 and t1 <= b for a, b in ep)
        if same and k0 != k1:
            mid2 = t0 + t1
            ends2 = [2 * e for _, e in S] if k0 else [2 * s for s, _ in S]
            if not any(abs(v - mid2) <= 1 for v in ends2):
                res.violations.append({"key": dict(key, part="midpoint"), "what": "boundary between kept and rejected neighbours is not their midpoint", "input": inp, "impl": S})
                return
    if model_sup is not None and S != model_sup:
        res.disagreements.append({"op": "threshold", "input": inp, "impl": S, "model": model_sup})


def check_dropna(nap, ts, keep, res, model_sup, cls="Tsd"):
    inp = {"ts": ts, "keep": keep, "class": cls}
    n = len(ts)
    wide = nap.IntervalSet(ts[0] / 1e9 - 1.0, ts[-1] / 1e9 + 1.0)  # explicit support: a zero-span series has an empty default support
    if cls == "Tsd":
        d = np.array([float(i + 1) if k else np.nan for i, k in enumerate(keep)])
        x = nap.Tsd(G.arr(ts), d, time_support=wide)
    elif cls == "TsdFrame":
        d = np.arange(2 * n, dtype=float).reshape(n, 2) + 1
        for i, k in enumerate(keep):
            if not k:
                d[i, i % 2] = np.nan
        x = nap.TsdFrame(G.arr(ts), d, columns=["a", "b"], time_support=wide)
    else:
        d = np.arange(4 * n, dtype=float).reshape(n, 2, 2) + 1
        for i, k in enumerate(keep):
            if not k:
                d[i, i % 2, (i // 2) % 2] = np.nan
        x = nap.TsdTensor(G.arr(ts), d, time_support=wide)
    if len(x) != n:
        return
    r = x.dropna()
    exp_t = [t for t, k in zip(ts, keep) if k]
    key = {"op": "dropna", "class": cls}
    close = any(b - a <= 1000 for a, b in zip(ts, ts[1:]))
    key["samples_within_1us"] = bool(close)
    if [C.to_ns(t) for t in r.t] != exp_t or not np.array_equal(np.asarray(r.values), np.asarray(x.values)[[i for i, k in enumerate(keep) if k]]):
        res.violations.append({"key": dict(key, part="kept"), "what": "dropna does not keep exactly the rows without NaN", "input": inp, "impl": [C.to_ns(t) for t in r.t]})
        return
    S = sup(r)
    for t, k in zip(ts, keep):
        if G.mem(t, S) != k and exp_t:
            res.violations.append({"key": dict(key, part="separates"), "what": "dropna support does not separate kept from rejected samples", "input": inp, "impl": S, "t": t})
            return
    if exp_t and [C.to_ns(t) for t in x.restrict(r.time_support).t] != exp_t:
        res.violations.append({"key": dict(key, part="restrict"), "what": "restricting the original to the dropna support does not reproduce the result", "input": inp, "impl": S})
        return
    if model_sup is not None and exp_t and len(exp_t) < n and S != model_sup:
        res.disagreements.append({"op": "dropna", "input": inp, "impl": S, "model": model_sup})


def run(res, tier, seed):
    nap, J = _nap()
    warnings.simplefilter("ignore")
    N = 8
    pts = G.lattice(N, step=U2)
    eps = [[(0, 7 * U2)], [(0, 3 * U2), (4 * U2, 7 * U2)], [(0, U2), (2 * U2, 3 * U2), (4 * U2, 7 * U2)], [(0, 2 * U2), (3 * U2, 4 * U2), (5 * U2, 7 * U2)],
           [(0, U2), (2 * U2, 5 * U2), (6 * U2, 7 * U2)], [(U2, 2 * U2), (3 * U2, 4 * U2), (5 * U2, 6 * U2)]]
    nmax = 4 if tier == "quick" else 5
    res.rule = ("threshold: ALL (6 supports with 1-3 intervals incl. empty intervals and first sample not in first interval) x (<=%d distinct samples inside the support on an 8-point "
                "even-tick dyadic lattice) x (all value patterns in {0,1,2}^n against thr=1) x 4 methods [complete]; dropna: all NaN masks for Tsd, subsample for TsdFrame/TsdTensor, "
                "plus decimal cases with sub-microsecond spacing. Oracle = the statement (kept exact, separation, restrict reproduces, inside old support, midpoints); "
                "model correspondence on the new support. non-trivial = >=2 samples with both kept and rejected" % nmax)
    res.exhaustive = True
    rng = random.Random(seed * 11 + 3)
    cases = []
    for ep in eps:
        for n in range(0, nmax + 1):
            for ts in itertools.combinations(pts, n):
                if not all(G.mem(x, ep) for x in ts):
                    continue
                for vals in itertools.product([0, 1, 2], repeat=n):
                    cases.append((ep, list(ts), list(vals)))
    if tier == "quick":
        cases = rng.sample(cases, 5000) + [c for c in cases if len(c[1]) <= 1]
    offs = [0, -3 * U2, -1000 * U2]
    cases = [([(a + offs[n % 3], b + offs[n % 3]) for a, b in ep], [t + offs[n % 3] for t in ts], vals) for n, (ep, ts, vals) in enumerate(cases)]
    lines = []
    for ep, ts, vals in cases:
        for m in METHODS:
            kept = [1 if METHODS[m](v, 1) else 0 for v in vals]
            lines.append("threshold\t%s\t%s\t%s" % (C.fmt_iset(ep), C.fmt_ints(ts), C.fmt_ints(kept)))
    out = C.run_model(lines)
    for n, (ep, ts, vals) in enumerate(cases):
        for j, m in enumerate(METHODS):
            kept = [METHODS[m](v, 1) for v in vals]
            res.case((tuple(ep), tuple(ts), tuple(kept)), nontrivial=len(ts) >= 2 and any(kept) and not all(kept))
            mv = [int(x) for x in out[4 * n + j].split()]
            msup = [(a // 2, b // 2) for a, b in zip(mv[0::2], mv[1::2])]
            # the constructor drops nothing here (raw support canonical); model halves are exact on even ticks
            check_threshold(nap, ts, vals, ep, m, 1, msup, res)
        res.count("n_samples=%d" % len(ts))
        res.count("n_intervals=%d" % len(ep))
        if n % 1501 == 0:
            res.sample({"ep": ep, "ts": ts, "values": vals, "model_support_above": out[4 * n]})
    # dropna
    dcases = []
    for n in range(1, nmax + 1):
        for ts in itertools.combinations(pts, n):
            for keep in itertools.product([0, 1], repeat=n):
                dcases.append((list(ts), list(keep)))
    if tier == "quick":
        dcases = rng.sample(dcases, 1500)
    # sub-microsecond spacing (decimal): a kept singleton widened by 1us can swallow a rejected neighbour
    for _ in range(60 if tier == "quick" else 600):
        n = rng.randint(2, 5)
        ts = sorted(rng.sample(range(0, 6000, 500), n))
        dcases.append((ts, [rng.randint(0, 1) for _ in range(n)]))
    mo = C.run_model(["dropna\t%s\t%s" % (C.fmt_ints(ts), C.fmt_ints(k)) for ts, k in dcases])
    for n, ((ts, keep), o) in enumerate(zip(dcases, mo)):
        mv = [int(x) for x in o.split()]
        msup = list(zip(mv[0::2], mv[1::2]))
        res.case((tuple(ts), tuple(keep), "dropna"), nontrivial=any(keep) and not all(keep))
        # model support goes through the constructor (touching after +1us widening is trimmed): compare only when canonical
        check_dropna(nap, ts, keep, res, msup if G.canonical(msup) else None, "Tsd")
        if n % 7 == 0:
            check_dropna(nap, ts, keep, res, None, "TsdFrame")
            check_dropna(nap, ts, keep, res, None, "TsdTensor")


def search(res, seed):
    r2 = C.Result()
    run(r2, "thorough", seed)
    return r2.violations[0] if r2.violations else None


def replay(payload):
    nap, J = _nap()
    warnings.simplefilter("ignore")
    v = payload.get("violation") or (payload.get("disagreements") or [{}])[0]
    inp = v.get("input", {})
    r = C.Result()
    if "values" in inp:
        check_threshold(nap, inp["ts"], inp["values"], [tuple(x) for x in inp["ep"]], inp["method"], inp["thr"], None, r)
    else:
        check_dropna(nap, inp["ts"], inp["keep"], r, None, inp.get("class", "Tsd"))
    print("input", inp)
    print("violations on this tree:", r.violations)
    return 1 if r.violations else 0
