"""C07 threshold and dropna keep the right samples and a support that separates them."""
import itertools
import random
import warnings
from collections import Counter

import numpy as np

import common as C
import gen as G

LEVEL = "proof"
TRUSTED = ["model: coq/Model/Threshold.v (thr_go run detection with epoch cursor; runs_go for dropna); theorems: Proofs/ThresholdProofs.v",
           "the IntervalSet constructor applied to the raw (starts, ends) of threshold / dropna (rounding to ns, dropping zero-length intervals, joining / trimming) "
           "is NOT part of the C07 model: the model support is compared with the implementation only when it is canonical on whole ticks; "
           "the statement oracle runs on every case"]
ASSUMPTIONS = ["the threshold theorems assume strictly increasing timestamps (C07 sections 1-4); the oracle does not: duplicate timestamps are generated (all kept, all rejected, mixed). "
               "Refutation witnesses for repeated timestamps: C07_contains_kept_refuted_with_duplicates, C07_excludes_rejected_refuted_with_shared_time",
               "a kept and a rejected sample AT ONE TIMESTAMP cannot be separated by any support (C07_shared_time_inseparable): the statement cannot hold there; "
               "violations located within 1 us of such a timestamp carry within_1us_of_time_shared_by_kept_and_rejected",
               "a kept and a rejected neighbour exactly 1 ns apart have no representable midpoint (times have ns resolution; C07_one_tick_neighbours_refuted): "
               "violations located within 1 us of such a pair carry within_1us_of_kept_rejected_pair_1ns_apart (threshold) / kept_singleton_1ns_before_rejected (dropna)",
               "dropna: C07_dropna assumes all consecutive samples more than 1 us apart; C07_dropna_exact / _converse give the exact condition (a lone kept row is more than 1 us before the next row); "
               "the oracle assumes nothing",
               "the statement does not ask the dropna support to lie inside the old one (it bridges gaps and can extend 1 us past the old end): not checked",
               "dropna with the default support is not run on a series whose timestamps all coincide (its default support is empty and it holds no sample: zero-span quirk, see C04/C08)"]

U2 = 2 * 1953125
METHODS = {"above": lambda v, t: v > t, "below": lambda v, t: v < t, "aboveequal": lambda v, t: v >= t, "belowequal": lambda v, t: v <= t}


def _nap():
    import pynapple as nap
    from pynapple.core import _jitted_functions as J
    return nap, J


def sup(o):
    return [(C.to_ns(s), C.to_ns(e)) for s, e in o.time_support.values]


def _bad_times(exp_t, got_t):
    """times at which the multiset of returned timestamps differs from the expected one"""
    a, b = Counter(exp_t), Counter(got_t)
    return sorted(set((a - b) + (b - a)))


def _interval_of(t, ep):
    for a, b in ep:
        if a <= t <= b:
            return (a, b)
    return (t, t)


def _classes(ts, kept):
    cls = {}
    for t, k in zip(ts, kept):
        cls.setdefault(t, set()).add(bool(k))
    return cls, {t for t, c in cls.items() if len(c) == 2}


THR_CAUSES = ["within_1us_of_time_shared_by_kept_and_rejected", "all_samples_of_interval_coincide", "within_1us_of_kept_rejected_pair_1ns_apart"]


def _thr_cause(t, ts, kept, ep):
    """The precise trigger of a violation located at sample time t (None = none of the recorded ones):
       within_1us_of_time_shared_by_kept_and_rejected: a kept and a rejected sample of t's interval carry one and the same timestamp u, |t - u| <= 1 us
            (no support separates them; the zero-length / touching raw intervals this produces make the IntervalSet constructor trim 1 us);
       all_samples_of_interval_coincide: >= 2 samples, all kept, all at time t, are the only samples of their interval of the old support;
       within_1us_of_kept_rejected_pair_1ns_apart: a kept and a rejected sample of t's interval are exactly 1 ns apart, both within 1 us of t
            (their midpoint is not representable: times have ns resolution)."""
    cls, shared = _classes(ts, kept)
    a, b = _interval_of(t, ep)
    here = sorted(u for u in cls if a <= u <= b)
    if any(u in shared and abs(u - t) <= 1000 for u in here):
        return THR_CAUSES[0]
    if cls.get(t) == {True} and here == [t] and sum(1 for u in ts if u == t) >= 2:
        return THR_CAUSES[1]
    for u, v in zip(here, here[1:]):
        if v - u == 1 and cls[u] != cls[v] and abs(u - t) <= 1000 and abs(v - t) <= 1000:
            return THR_CAUSES[2]
    return None


def _report(res, key, causes, what, inp, bad, cause_of, **extra):
    """one violation per distinct cause among the offending times; returns the set of causes"""
    groups = {}
    for t in bad:
        groups.setdefault(cause_of(t), []).append(t)
    if not bad:
        groups[None] = []
    for c, at in groups.items():
        res.violations.append(dict({"key": dict(key, **{n: n == c for n in causes}), "what": what, "input": inp, "at": at}, **extra))
    return set(groups)


def check_threshold(nap, ts, vals, ep, method, thr, model_sup, res, dtype="float"):
    """the statement, clause by clause, on tsd.threshold(thr, method); ts / ep in integer ns, ts sorted (duplicates allowed), all inside ep"""
    inp = {"ts": ts, "values": vals, "ep": ep, "method": method, "thr": thr, "dtype": dtype}
    epo = nap.IntervalSet(G.arr([a for a, _ in ep]), G.arr([b for _, b in ep]))
    x = nap.Tsd(G.arr(ts), np.asarray(vals, dtype=np.int64 if dtype == "int" else float), time_support=epo)
    if len(x) != len(ts) or (ts and sup(x) != [tuple(i) for i in ep]):      # (an empty series always gets an empty support)
        raise RuntimeError("C07 generator: the constructor changed the input (samples outside the support or non-canonical support): %r" % (inp,))
    kept = [bool(METHODS[method](v, thr)) for v in vals]
    key = {"op": "threshold", "method": method}
    try:
        r = x.threshold(thr, method)
    except Exception as ex:
        res.violations.append({"key": dict(key, part="exception"), "what": "threshold raised " + type(ex).__name__ + ": " + str(ex)[:120], "input": inp})
        return
    exp_t = [t for t, k in zip(ts, kept) if k]
    exp_v = [v for v, k in zip(vals, kept) if k]
    S = sup(r)
    got_t = [C.to_ns(t) for t in r.t]
    _, shared = _classes(ts, kept)
    cause = lambda t: _thr_cause(t, ts, kept, ep)
    lost = set()
    # 1. exactly the samples satisfying the comparison, each with its timestamp and value
    if got_t != exp_t or list(r.values) != exp_v:
        bad = _bad_times(exp_t, got_t)
        cs = _report(res, dict(key, part="kept"), THR_CAUSES, "threshold does not keep exactly the samples satisfying the comparison", inp, bad, cause,
                     impl={"t": got_t, "support": S}, expected=exp_t)
        if cs != {THR_CAUSES[0]}:
            return
        # the only missing samples sit on / next to a timestamp carrying both a kept and a rejected sample: go on with the other samples
        lost = set(bad)
    # 2. the new support contains every kept sample and no rejected sample
    bad = sorted({t for t, k in zip(ts, kept) if t not in shared and t not in lost and G.mem(t, S) != k})
    bad += sorted(t for t in shared if t not in lost and G.mem(t, S))       # contains a rejected sample (the kept one at the same time is inside too)
    if bad:
        cs = _report(res, dict(key, part="separates"), THR_CAUSES, "new support does not separate kept from rejected samples", inp, bad, cause, impl=S)
        if cs != {THR_CAUSES[0]}:
            return
    skip = shared | lost | set(bad)
    # 2b. ... so restricting the original to it reproduces the result (away from the timestamps already reported)
    if [C.to_ns(t) for t in x.restrict(r.time_support).t if C.to_ns(t) not in skip] != [t for t in exp_t if t not in skip]:
        res.violations.append({"key": dict(key, part="restrict"), "what": "restricting the original to the new support does not reproduce the result", "input": inp, "impl": S})
        return
    # 3. inside the old support: no new interval extends beyond, or bridges the gap between, old intervals
    for s, e in S:
        if not any(a <= s and e <= b for a, b in ep):
            res.violations.append({"key": dict(key, part="inside"), "what": "a new interval extends beyond / bridges intervals of the old support", "input": inp, "impl": S})
            return
    # 4. a boundary between a kept and a rejected neighbour of the same interval is their midpoint: exactly when it is a whole ns,
    #    else one of the two ns next to it (the constructor rounds to ns).  Pairs at one timestamp have no boundary; pairs with a sample
    #    reported above (lost next to a shared timestamp) are skipped.
    for (t0, k0), (t1, k1) in zip(zip(ts, kept), zip(ts[1:], kept[1:])):
        same = any(a <= t0 and t1 <= b for a, b in ep)
        if same and k0 != k1 and t0 != t1 and t0 not in lost and t1 not in lost:
            mid2 = t0 + t1
            ends2 = [2 * e for _, e in S] if k0 else [2 * s for s, _ in S]
            if not any(abs(v - mid2) == mid2 % 2 for v in ends2):
                _report(res, dict(key, part="midpoint"), THR_CAUSES[:1], "boundary between kept and rejected neighbours is not their midpoint", inp, [t0 if k0 else t1],
                        lambda t: cause(t) if cause(t) == THR_CAUSES[0] else None, impl=S, pair=[t0, t1])
                return
    if model_sup is not None and S != model_sup:
        res.disagreements.append({"op": "threshold", "input": inp, "impl": S, "model": model_sup})


def _runs(ts, keep):
    """maximal runs of consecutive kept rows: (first time, last time)"""
    out, cur = [], None
    for t, k in zip(ts, keep):
        if k:
            cur = (cur[0], t) if cur else (t, t)
        elif cur:
            out.append(cur)
            cur = None
    if cur:
        out.append(cur)
    return out


DROP_CAUSES = ["within_1us_of_time_shared_by_kept_and_rejected", "kept_singleton_1ns_before_rejected", "kept_singleton_exactly_1us_before_next_kept_run",
               "rejected_within_1us_after_kept_singleton"]


def check_dropna(nap, ts, keep, res, model_sup, cls="Tsd", support="wide"):
    """the statement on x.dropna(); support: 'wide' (one explicit interval around all samples), 'default' (none given), or a list of intervals (ns)"""
    inp = {"ts": ts, "keep": keep, "class": cls, "support": support}
    n = len(ts)
    if support == "wide":   # explicit support: a zero-span series has an empty default support
        kw = {"time_support": nap.IntervalSet(ts[0] / 1e9 - 1.0, ts[-1] / 1e9 + 1.0)}
    elif support == "default":
        kw = {}
    else:
        kw = {"time_support": nap.IntervalSet(G.arr([a for a, _ in support]), G.arr([b for _, b in support]))}
    if cls == "Tsd":
        # kept rows hold finite values and, every third one, an infinity (an infinite value is not a NaN: the row is kept)
        d = np.array([(float(i + 1) if i % 3 != 1 else (np.inf if i % 2 else -np.inf)) if k else np.nan for i, k in enumerate(keep)])
        x = nap.Tsd(G.arr(ts), d, **kw)
    elif cls == "TsdFrame":
        d = np.arange(2 * n, dtype=float).reshape(n, 2) + 1
        for i, k in enumerate(keep):
            if not k:
                d[i, i % 2] = np.nan
            elif i % 3 == 0:
                d[i, 0], d[i, 1] = np.inf, -np.inf          # infinities of both signs in one kept row (seed C07-5: NaN rows found through the row sum)
        x = nap.TsdFrame(G.arr(ts), d, columns=["a", "b"], **kw)
    else:
        d = np.arange(4 * n, dtype=float).reshape(n, 2, 2) + 1
        for i, k in enumerate(keep):
            if not k:
                d[i, i % 2, (i // 2) % 2] = np.nan
            elif i % 3 == 0:
                d[i, 0, 0], d[i, 1, 1] = np.inf, -np.inf
        x = nap.TsdTensor(G.arr(ts), d, **kw)
    if len(x) != n:
        raise RuntimeError("C07 generator: the constructor dropped samples: %r" % (inp,))
    key = {"op": "dropna", "class": cls}
    try:
        r = x.dropna()
    except Exception as ex:
        res.violations.append({"key": dict(key, part="exception"), "what": "dropna raised " + type(ex).__name__ + ": " + str(ex)[:120], "input": inp})
        return
    exp_t = [t for t, k in zip(ts, keep) if k]
    cl, shared = _classes(ts, keep)
    runs = _runs(ts, keep)
    singles = [a for a, b in runs if a == b]                       # runs widened by 1 us: [t, t + 1 us]
    # a kept singleton whose widened end exactly meets the start of the next kept run: the constructor trims it back to [t, t] and drops it
    meets_next = {a for (a, b), (c, _) in zip(runs, runs[1:]) if a == b and c - b == 1000}

    def cause(t):
        """within_1us_of_time_shared_by_kept_and_rejected: a kept and a rejected row carry one timestamp u, |t - u| <= 1 us;
           kept_singleton_1ns_before_rejected: t is a kept run of a single timestamp with a rejected row at t + 1 ns, or that rejected row (nothing fits between them);
           kept_singleton_exactly_1us_before_next_kept_run: t is a kept run of a single timestamp and the next kept run starts at t + 1 us (the row is LOST);
           rejected_within_1us_after_kept_singleton: t is rejected and a kept run of a single timestamp u has u + 1 ns < t <= u + 1 us (t is inside the new support)"""
        if any(abs(u - t) <= 1000 for u in shared):
            return DROP_CAUSES[0]
        if (cl.get(t) == {False} and t - 1 in singles) or (t in singles and cl.get(t + 1) == {False}):
            return DROP_CAUSES[1]
        if cl.get(t) == {True} and t in meets_next:
            return DROP_CAUSES[2]
        if cl.get(t) == {False} and any(0 < t - u <= 1000 for u in singles):
            return DROP_CAUSES[3]
        return None

    S = sup(r)
    got_t = [C.to_ns(t) for t in r.t]
    rows = [i for i, k in enumerate(keep) if k]
    lost = set()
    if got_t != exp_t:
        bad = _bad_times(exp_t, got_t)
        cs = _report(res, dict(key, part="kept"), DROP_CAUSES, "dropna does not keep exactly the rows without NaN", inp, bad, cause, impl={"t": got_t, "support": S})
        if cs != {DROP_CAUSES[0]}:
            return
        lost = set(bad)
    elif not np.array_equal(np.asarray(r.values), np.asarray(x.values)[rows]):
        res.violations.append({"key": dict(key, part="values"), "what": "dropna keeps the right timestamps with the wrong rows", "input": inp})
        return
    bad = sorted({t for t, k in zip(ts, keep) if t not in shared and t not in lost and G.mem(t, S) != k})
    bad += sorted(t for t in shared if t not in lost and G.mem(t, S))
    if bad:
        cs = _report(res, dict(key, part="separates"), DROP_CAUSES, "dropna support does not separate kept from rejected samples", inp, bad, cause, impl=S)
        if cs != {DROP_CAUSES[0]}:
            return
    skip = shared | lost | set(bad)
    if [C.to_ns(t) for t in x.restrict(r.time_support).t if C.to_ns(t) not in skip] != [t for t in exp_t if t not in skip]:
        res.violations.append({"key": dict(key, part="restrict"), "what": "restricting the original to the dropna support does not reproduce the result", "input": inp, "impl": S})
        return
    if model_sup is not None and exp_t and len(exp_t) < n and S != model_sup:
        res.disagreements.append({"op": "dropna", "input": inp, "impl": S, "model": model_sup})


# ------------------------------------------------------------------------------------------------------------------------
EPS = [[(0, 7 * U2)], [(0, 3 * U2), (4 * U2, 7 * U2)], [(0, U2), (2 * U2, 3 * U2), (4 * U2, 7 * U2)], [(0, 2 * U2), (3 * U2, 4 * U2), (5 * U2, 7 * U2)],
       [(0, U2), (2 * U2, 5 * U2), (6 * U2, 7 * U2)], [(U2, 2 * U2), (3 * U2, 4 * U2), (5 * U2, 6 * U2)]]

# regression seeds of the audit (ep, ts, values), thr = 1
SEEDS = [([(0, 10**9)], [5 * 10**8, 5 * 10**8], [2, 2]),                      # two kept duplicates alone in their interval
         ([(0, 3 * 10**9)], [0, 10**9, 10**9, 2 * 10**9], [0, 2, 0, 2]),      # kept and rejected at the same time
         ([(0, 3 * 10**9)], [10**9, 10**9], [2, 0]),
         ([(-10**9, 5 * 10**9)], [0, 1, 2, 10**9], [2, 0, 2, 0]),             # 1 ns spacing
         ([(-10**9, 5 * 10**9)], [0, 3, 6, 10**9], [2, 0, 2, 0]),             # odd spacing: midpoints on half ns
         ([(0, 10), (20, 30)], [3, 3, 20, 20, 20], [2, 2, 0, 2, 2])]

GAPS = [0, 0, 1, 1, 2, 3, 4, 5, 7, 10, 999, 1000, 1001, 2000, 10**6, 10**6 + 1, 3 * 10**8]


def rand_ns_case(rng):
    """ns-resolution case: 1-3 intervals, <= 6 samples inside them, consecutive gaps drawn from GAPS (0 = duplicate, 1 ns, odd, around 1 us, large)"""
    m = rng.randint(1, 3)
    base = rng.choice([0, 0, -7 * 10**9, 123456789, 86400 * 10**9 + 1])
    ep, ts, x = [], [], base
    for _ in range(m):
        k = rng.choice([0, 1, 1, 2, 2, 3, 4])
        pad0, pad1 = rng.choice([0, 0, 1, 2, 1000, 10**6]), rng.choice([0, 0, 1, 2, 1000, 10**6])
        s = x
        x += pad0
        here = []
        for i in range(k):
            if i:
                x += rng.choice(GAPS)
            here.append(x)
        x += pad1
        if x == s:
            x += rng.choice([1, 2, 1000])
        ep.append((s, x))
        ts += here
        x += rng.choice([1, 2, 1001, 10**6, 10**8])     # strict gap: the constructor leaves the support alone
    ts = ts[:6]
    return ep, ts, [rng.choice([0, 1, 2]) for _ in ts]


def run(res, tier, seed):
    nap, J = _nap()
    warnings.simplefilter("ignore")
    N = 8
    pts = G.lattice(N, step=U2)
    nmax = 4 if tier == "quick" else 5
    dmax = 4                                            # multisets with repeated timestamps: up to 4 samples
    nrand = 1000 if tier == "quick" else 15000
    res.rule = ("threshold: ALL (6 supports with 1-3 intervals incl. empty intervals and first sample not in first interval) x (<=%d distinct samples, and every MULTISET of <=%d samples with "
                "repeated timestamps, inside the support on an 8-point even-tick dyadic lattice) x (all value patterns in {0,1,2}^n against thr=1) x 4 methods "
                "[thorough: complete for distinct samples and for multisets of <=3, 30000 sampled multisets of 4; quick: 3000 + 1500 sampled]; "
                "plus %d random ns-resolution cases (1-3 intervals, <=6 samples, gaps 0 / 1 ns / odd / ~1 us / large, float and int64 data; integer threshold 1 and, on every 5th lattice case (int64 data) and a quarter of the ns cases, the non-integer thresholds 0.5 / 1.5 / -0.5) x 4 methods, plus the audit's seeds. "
                "dropna: all NaN masks over all multisets of <=%d lattice points for Tsd (TsdFrame/TsdTensor every 7th), each under one wide interval, the default support and one "
                "multi-interval support containing the samples (rotating) [quick: 1200 sampled]; plus 300 (thorough 3000) ns-resolution cases with gaps 0 / 1 ns / <1 us / =1 us / 1-2 us / >2 us. Oracle = the statement (kept exact, separation, "
                "restrict reproduces, threshold inside old support, midpoints exact up to ns rounding), no exemption: what cannot hold (kept and rejected at one timestamp, 1 ns neighbours) "
                "is reported under a dedicated key. Model correspondence on the new support when the raw model support is canonical on whole ticks. "
                "non-trivial = >=2 samples with both kept and rejected" % (nmax, dmax, nrand, nmax))
    res.exhaustive = True
    rng = random.Random(seed * 11 + 3)
    distinct, dups = [], []
    for ep in EPS:
        for n in range(0, nmax + 1):
            for ts in itertools.combinations_with_replacement(pts, n):
                rep = len(set(ts)) < n
                if (rep and n > dmax) or not all(G.mem(x, ep) for x in ts):
                    continue
                for vals in itertools.product([0, 1, 2], repeat=n):
                    (dups if rep else distinct).append((ep, list(ts), list(vals)))
    if tier == "quick":
        cases = rng.sample(distinct, 3000) + rng.sample(dups, 1500) + [c for c in distinct if len(c[1]) <= 1]
    else:
        cases = distinct + [c for c in dups if len(c[1]) <= 3] + rng.sample([c for c in dups if len(c[1]) == 4], 30000)
    offs = [0, -3 * U2, -1000 * U2]
    # the threshold: 1 (values 0,1,2 fall below / on / above it); every 5th lattice case and half of the integer-dtype cases use a NON-INTEGER threshold
    # (0.5, 1.5, and -0.5 against values -1,0,1): the comparison is the mathematical one whatever the dtype of the data (seed C07-4: threshold cast to the data's dtype)
    FRAC = [0.5, 1.5, -0.5]
    def with_thr(ep, ts, vals, dt, k):
        if k is None:
            return (ep, ts, vals, dt, 1)
        thr = FRAC[k % 3]
        return (ep, ts, [v - 1 for v in vals] if thr < 0 else vals, dt, thr)
    cases = [with_thr([(a + offs[n % 3], b + offs[n % 3]) for a, b in ep], [t + offs[n % 3] for t in ts], vals, "int" if n % 5 == 4 else "float", n // 5 if n % 5 == 4 else None)
             for n, (ep, ts, vals) in enumerate(cases)]
    nlat = len(cases)
    cases += [(ep, ts, vals, "float", 1) for ep, ts, vals in SEEDS]
    for i in range(nrand):
        ep, ts, vals = rand_ns_case(rng)
        if i % 4 != 3 and i % 5 == 0 and vals:
            vals[rng.randrange(len(vals))] = float("nan")          # a NaN sample satisfies none of the four comparisons (seed C07-6: 'below' computed as not 'aboveequal')
        cases.append(with_thr(ep, ts, vals, "int" if i % 4 == 3 else "float", i // 4 if i % 8 in (3, 6) else None))
    lines = []
    for ep, ts, vals, _, thr in cases:
        for m in METHODS:
            kept = [1 if METHODS[m](v, thr) else 0 for v in vals]
            lines.append("threshold\t%s\t%s\t%s" % (C.fmt_iset(ep), C.fmt_ints(ts), C.fmt_ints(kept)))
    out = C.run_model(lines)
    for n, (ep, ts, vals, dt, thr) in enumerate(cases):
        res.count("threshold:dtype=%s,thr=%s" % (dt, "integer" if thr == int(thr) else "fractional"))
        if any(v != v for v in vals):
            res.count("threshold:with_nan_sample")
        for j, m in enumerate(METHODS):
            kept = [METHODS[m](v, thr) for v in vals]
            res.case((tuple(ep), tuple(ts), tuple(kept)), nontrivial=len(ts) >= 2 and any(kept) and not all(kept))
            mv = [int(x) for x in out[4 * n + j].split()]
            # the model support is in doubled ticks and raw (before the IntervalSet constructor): comparable when every bound is a whole tick and the set is canonical
            msup = [(a // 2, b // 2) for a, b in zip(mv[0::2], mv[1::2])] if all(v % 2 == 0 for v in mv) else None
            if msup is None or not G.canonical(msup):
                msup = None
                res.count("threshold:model_support_not_comparable(half-tick or non-canonical raw support)")
            check_threshold(nap, ts, vals, ep, m, thr, msup, res, dt)
        res.count("n_samples=%d" % len(ts))
        res.count("n_intervals=%d" % len(ep))
        res.count("threshold:" + ("lattice" if n < nlat else "ns-resolution") + (",duplicates" if len(set(ts)) < len(ts) else ""))
        if any(b - a == 1 for a, b in zip(ts, ts[1:])):
            res.count("threshold:has_1ns_gap")
        if n % 1501 == 0:
            res.sample({"ep": ep, "ts": ts, "values": vals, "model_support_above": out[4 * n]})
    # dropna
    dcases = []
    for n in range(1, nmax + 1):
        for ts in itertools.combinations_with_replacement(pts, n):
            for keep in itertools.product([0, 1], repeat=n):
                dcases.append((list(ts), list(keep)))
    if tier == "quick":
        dcases = rng.sample(dcases, 1200)
    # ns resolution: a kept singleton is widened by 1 us; gaps below, at and above 1 us, duplicates
    dgaps = [0, 1, 500, 500, 999, 1000, 1000, 1001, 1500, 2000, 2001, 5000]
    for _ in range(300 if tier == "quick" else 3000):
        n = rng.randint(2, 5)
        ts = [rng.choice([0, 0, 10**9 + 7, -5000])]
        for _ in range(n - 1):
            ts.append(ts[-1] + rng.choice(dgaps))
        dcases.append((ts, [rng.randint(0, 1) for _ in range(n)]))
    dcases += [([0, 500, 1000], [1, 0, 1]), ([0, 1000, 2 * 10**9], [1, 0, 1]), ([0, 500], [1, 0])]
    mo = C.run_model(["dropna\t%s\t%s" % (C.fmt_ints(ts), C.fmt_ints(k)) for ts, k in dcases])
    for n, ((ts, keep), o) in enumerate(zip(dcases, mo)):
        mv = [int(x) for x in o.split()]
        msup = list(zip(mv[0::2], mv[1::2]))
        res.case((tuple(ts), tuple(keep), "dropna"), nontrivial=any(keep) and not all(keep))
        # model support goes through the constructor (touching after +1us widening is trimmed): compare only when canonical
        msup = msup if G.canonical(msup) else None
        sups = ["wide"]
        if ts[0] < ts[-1]:
            sups.append("default")              # a zero-span series has an empty default support and no samples
        else:
            res.count("dropna:default_support_skipped(zero-span series)")
        multi = [ep for ep in EPS[1:] if all(G.mem(t, ep) for t in ts)]
        if multi:
            sups.append(multi[n % len(multi)])
        for s in sups:
            check_dropna(nap, ts, keep, res, msup, "Tsd", s)
            res.count("dropna:support=" + (s if isinstance(s, str) else "multi-interval"))
        if len(set(ts)) < len(ts):
            res.count("dropna:duplicates")
        if n % 7 == 0:
            check_dropna(nap, ts, keep, res, msup, "TsdFrame", sups[n % len(sups)])
            check_dropna(nap, ts, keep, res, msup, "TsdTensor", sups[(n + 1) % len(sups)])


def search(res, seed):
    r2 = C.Result()
    run(r2, "thorough", seed)
    new = [v for v in r2.violations if C.match_known("C07", v) is None]
    return new[0] if new else (r2.violations[0] if r2.violations else None)


def replay(payload):
    nap, J = _nap()
    warnings.simplefilter("ignore")
    v = payload.get("violation") or (payload.get("disagreements") or [{}])[0]
    inp = v.get("input", {})
    r = C.Result()
    if "values" in inp:
        check_threshold(nap, inp["ts"], inp["values"], [tuple(x) for x in inp["ep"]], inp["method"], inp["thr"], None, r, inp.get("dtype", "float"))
    else:
        s = inp.get("support", "wide")
        check_dropna(nap, inp["ts"], inp["keep"], r, None, inp.get("class", "Tsd"), s if isinstance(s, str) else [tuple(i) for i in s])
    print("input", inp)
    print("violations on this tree:", r.violations)
    return 1 if r.violations else 0

# --- Glue layer (DESIGN.md 10.11): the Python between the API and the kernels, tied by proof in Properties/C07c.v; this is the
# executable tie of its trusted parts (translator tools/py2glue.py + primitive semantics Glue/Interp.v): the TRANSLATED term run by the
# extracted evaluator (ocaml/gluedriver) against the REAL routine of pynapple on the same inputs (harness/gluecmp.py).
import gluecmp  # noqa: E402

DRIVERS = list(globals().get("DRIVERS", ["driver"])) + ["gluedriver"]
GLUE_ROUTINES = ['_threshold', '_dropna', '_BaseTsd.dropna', 'Tsd.threshold']
_run_without_glue = run


def run(res, tier, seed):
    _run_without_glue(res, tier, seed)
    gluecmp.check(res, GLUE_ROUTINES, tier, seed)
    res.rule += (" | glue: for each of %s the translated Glue.Lang term (coq/Gen/Glue.v) is evaluated by the extracted Glue/Interp.v and compared with the "
                 "real pynapple routine on canonical sets of a dyadic lattice (incl. negative times, empty, touching, duplicates, unsorted/improper "
                 "constructor input, thresholds equal to a length or gap); exceptions must match the model's error kind" % ", ".join(GLUE_ROUTINES))
