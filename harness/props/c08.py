"""C08 time-window slicing and trial tensors select exactly the windowed samples."""
import itertools
import random
import warnings

import numpy as np

import common as C
import gen as G

LEVEL = "proof"
TRUSTED = ["model: coq/Model/Slice.v (searchsorted as counts, get_range, get_closest, trial_rows, padding, trial_count_rows) over Model/Count.v; theorems: Proofs/SliceProofs.v",
           "np.searchsorted's contract on a sorted array (left = #{t < v}, right = #{t <= v}) is NumPy's"]
ASSUMPTIONS = ["series have a positive span (a zero-span series has an empty default time support - recorded as a known finding for get())",
               "warp_tensor for timestamps is PARTIAL: proved/checked when num_bins divides the trial duration in ticks (otherwise the bin size is rounded to 1 ns)"]

U = 1953125


def _nap():
    import pynapple as nap
    return nap


def run(res, tier, seed):
    nap = _nap()
    warnings.simplefilter("ignore")
    N = 6
    pts = G.lattice(N, step=2 * U)
    half = [i * U for i in range(-2, 2 * N + 2)]
    nmax = 4 if tier == "quick" else 5
    res.rule = ("get/get_slice/get(start): ALL sorted multisets of <=%d timestamps on a 6-point dyadic lattice (duplicates incl., at window edges) x ALL windows (a <= b) on the half-lattice "
                "incl. before/after/inside/covering the data, a == b, edges on samples [complete]; zero-span series counted separately; 3 units; TsGroup member-wise; trial tensors / "
                "trial_count / build_tensor / warp_tensor over trial sets with unequal durations and empty trials. non-trivial = window cuts the data (0 < selected < n)" % nmax)
    res.exhaustive = True
    rng = random.Random(seed * 5 + 1)
    tss = [ts for ts in G.sorted_multisets(pts, nmax) if len(ts) >= 1]
    wins = [(a, b) for a in half for b in half if a <= b]
    cases = [(ts, a, b) for ts in tss for (a, b) in wins]
    if tier == "quick":
        cases = rng.sample(cases, 12000)
    offs = [0, -6 * U, -1000 * U]
    cases = [([t + offs[n % 3] for t in ts], a + offs[n % 3], b + offs[n % 3]) for n, (ts, a, b) in enumerate(cases)]
    lines = []
    for ts, a, b in cases:
        lines.append("get_range\t%d\t%d\t%s" % (a, b, C.fmt_ints(ts)))
        lines.append("get_closest\t%d\t%s" % (a, C.fmt_ints(ts)))
    out = C.run_model(lines)
    objs = {}
    for n, (ts, a, b) in enumerate(cases):
        key = tuple(ts)
        zero_span = ts[0] == ts[-1]
        if key not in objs:
            objs[key] = nap.Tsd(G.arr(ts), np.arange(len(ts)) + 100)
        x = objs[key]
        inp = {"ts": ts, "a": a, "b": b}
        exp = [i for i, t in enumerate(ts) if a <= t <= b]
        res.case((key, a, b), nontrivial=0 < len(exp) < len(ts))
        kk = {"zero_span_series": bool(zero_span)}
        try:
            r = x.get(a / 1e9, b / 1e9)
            got = [int(v) - 100 for v in r.values]
            sl = x.get_slice(a / 1e9, b / 1e9)
            got_sl = [int(v) - 100 for v in x.values[sl]]
        except Exception as ex:
            res.violations.append({"key": dict(kk, op="get", part="exception"), "what": "get raised " + type(ex).__name__, "input": inp})
            continue
        if got_sl != exp:
            res.violations.append({"key": dict(kk, op="get_slice"), "what": "get_slice does not select exactly the samples with start <= t <= end", "input": inp,
                                   "impl": got_sl, "expected": exp})
        elif got != exp:
            res.violations.append({"key": dict(kk, op="get"), "what": "get(start, end) does not return exactly the samples with start <= t <= end", "input": inp,
                                   "impl": got, "expected": exp})
        elif not zero_span and len(got) and [(C.to_ns(s), C.to_ns(e)) for s, e in r.time_support.values] != [(ts[0], ts[-1])]:
            res.violations.append({"key": dict(kk, op="get", part="support"), "what": "get changed the time support", "input": inp})
        m = [int(v) for v in out[2 * n].split()]
        if (sl.start, sl.stop) != (m[0], m[1]) and not (sl.stop <= sl.start and m[1] <= m[0]):
            res.disagreements.append({"op": "get_slice", "input": inp, "impl": [sl.start, sl.stop], "model": m})
        # closest
        c = x.get(a / 1e9)
        dmin = min(abs(t - a) for t in ts)
        cm = int(out[2 * n + 1])
        ci = int(c) - 100
        if abs(ts[ci] - a) != dmin:
            res.violations.append({"key": dict(kk, op="get(start)"), "what": "get(start) does not return a sample nearest to start", "input": inp, "impl": ci})
        if ci != cm:
            res.disagreements.append({"op": "get_closest", "input": inp, "impl": ci, "model": cm})
        if n % 3001 == 0:
            res.sample({"ts": ts, "window": [a, b], "slice": [sl.start, sl.stop], "closest_index": ci})
    # units + TsGroup member-wise
    for _ in range(150 if tier == "quick" else 1500):
        ts = rng.choice(tss)
        if ts[0] == ts[-1]:
            continue
        a, b = rng.choice(wins)
        x = nap.Tsd(G.arr(ts), np.arange(len(ts)) + 100)
        exp = [i for i, t in enumerate(ts) if a <= t <= b]
        res.evaluations += 1
        for units, f in (("ms", 1e6), ("us", 1e3)):
            r = x.get(a / f, b / f, time_units=units)
            if [int(v) - 100 for v in r.values] != exp:
                res.violations.append({"key": {"op": "get", "units": units}, "what": "get in %s differs" % units, "input": {"ts": ts, "a": a, "b": b}})
        g = nap.TsGroup({2: nap.Ts(G.arr(ts)), 7: nap.Ts(G.arr(ts[:-1] if len(ts) > 2 and ts[0] != ts[-2] else ts))}, time_support=nap.IntervalSet(-1.0, 1.0))
        rg = g.get(a / 1e9, b / 1e9)
        if [C.to_ns(t) for t in rg[2].t] != [ts[i] for i in exp] or list(rg.keys()) != [2, 7]:
            res.violations.append({"key": {"op": "TsGroup.get"}, "what": "TsGroup.get is not member-wise get", "input": {"ts": ts, "a": a, "b": b}})
        for units, f in (("ms", 1e6), ("us", 1e3)):
            rgu = g.get(a / f, b / f, time_units=units)
            if [C.to_ns(t) for t in rgu[2].t] != [ts[i] for i in exp]:
                res.violations.append({"key": {"op": "TsGroup.get", "units": units}, "what": "TsGroup.get in %s is not member-wise get" % units,
                                       "input": {"ts": ts, "a": a, "b": b}})
    # trial tensors
    trial_sets = [e for e in G.canonical_isets(G.lattice(7, step=2 * U), 3) if e]
    tlines, tcases = [], []
    for _ in range(400 if tier == "quick" else 4000):
        ts = rng.choice(tss)
        if ts[0] == ts[-1]:
            continue
        ep = rng.choice(trial_sets)
        align_end = rng.random() < 0.5
        b = rng.choice([2 * U, 4 * U, 6 * U])
        tcases.append((ts, ep, align_end, b))
        tlines.append("trial_tensor\t%d\t%s\t%s\t%s" % (1 if align_end else 0, C.fmt_ints(ts), C.fmt_ints([i + 100 for i in range(len(ts))]), C.fmt_iset(ep)))
        tlines.append("trial_count\t%s\t%s\t%d" % (C.fmt_ints(ts), C.fmt_iset(ep), b))
    tout = C.run_model(tlines) if tlines else []
    for n, (ts, ep, align_end, b) in enumerate(tcases):
        inp = {"ts": ts, "ep": ep, "align": "end" if align_end else "start", "bin": b}
        epo = nap.IntervalSet(G.arr([s for s, _ in ep]), G.arr([e for _, e in ep]))
        x = nap.Tsd(G.arr(ts), np.arange(len(ts)) + 100.0)
        res.evaluations += 1
        res.count("trial_cases")
        if any(not any(s <= t <= e for t in ts) for s, e in ep):
            res.count("trial_with_no_sample")
        try:
            T = x.to_trial_tensor(epo, align="end" if align_end else "start", padding_value=-1.0)
        except Exception as ex:
            res.violations.append({"key": {"op": "to_trial_tensor", "part": "exception", "align": inp["align"]}, "what": "to_trial_tensor raised " + type(ex).__name__, "input": inp})
            continue
        rows = [[i + 100 for i, t in enumerate(ts) if s <= t <= e] for s, e in ep]
        w = max(len(r) for r in rows)
        exp = [([-1] * (w - len(r)) + r) if align_end else (r + [-1] * (w - len(r))) for r in rows]
        got = [[int(v) for v in row] for row in T]
        if got != exp:
            res.violations.append({"key": {"op": "to_trial_tensor", "align": inp["align"]}, "what": "trial tensor row is not that trial's samples, aligned and padded", "input": inp,
                                   "impl": got, "expected": exp})
        mod = [[int(v) for v in r.split()] for r in tout[2 * n].split("|")] if tout[2 * n] != "" else [[] for _ in ep]
        if mod != exp and not (w == 0):
            res.disagreements.append({"op": "to_trial_tensor", "input": inp, "impl": got, "model": mod})
        if nap.build_tensor(x, epo, align="end" if align_end else "start", padding_value=-1.0).tolist() != T.tolist():
            res.violations.append({"key": {"op": "build_tensor"}, "what": "build_tensor(Tsd) != to_trial_tensor", "input": inp})
        # trial_count = per-trial binned counts
        p = nap.Ts(G.arr(ts))
        try:
            TC = p.trial_count(epo, b / 1e9, align="end" if align_end else "start", padding_value=-1.0)
        except Exception as ex:
            res.violations.append({"key": {"op": "trial_count", "part": "exception", "align": inp["align"]}, "what": "trial_count raised " + type(ex).__name__, "input": inp})
            continue
        crow = []
        for s, e in ep:
            row, l = [], s
            while 2 * l + b <= 2 * e:
                row.append(sum(1 for t in ts if s <= t <= e and l <= t < l + b))
                l += b
            crow.append(row)
        w = max(len(r) for r in crow)
        expc = [([-1] * (w - len(r)) + r) if align_end else (r + [-1] * (w - len(r))) for r in crow]
        gotc = [[int(v) for v in row] for row in TC]
        if w > 0 and gotc != expc:
            res.violations.append({"key": {"op": "trial_count", "align": inp["align"]}, "what": "trial_count row is not that trial's binned count", "input": inp, "impl": gotc, "expected": expc})
        modc = [[int(v) for v in r.split()] for r in tout[2 * n + 1].split("|")]
        if modc != crow:
            res.disagreements.append({"op": "trial_count(model vs statement)", "input": inp, "model": modc, "expected": crow})
        g = nap.TsGroup({1: p, 3: nap.Ts(G.arr(ts[::2]))}, time_support=nap.IntervalSet(-1.0, 1.0))
        if w > 0:
            GC = g.trial_count(epo, b / 1e9, align="end" if align_end else "start", padding_value=-1.0)
            if [[int(v) for v in row] for row in GC[0]] != expc:
                res.violations.append({"key": {"op": "TsGroup.trial_count"}, "what": "group trial_count differs from member trial_count", "input": inp})
        # warp_tensor on timestamps: num_bins equal bins per trial (num_bins dividing every trial duration in ticks)
        nb = 2
        if all(((e - s) % nb) == 0 for s, e in ep):
            W = nap.warp_tensor(p, epo, nb)
            expw = []
            for s, e in ep:
                bb = (e - s) // nb
                expw.append([sum(1 for t in ts if s <= t <= e and s + j * bb <= t < s + (j + 1) * bb) for j in range(nb)])
            if [[int(v) for v in row] for row in W] != expw:
                res.violations.append({"key": {"op": "warp_tensor"}, "what": "warp_tensor(Ts) is not counting in num_bins equal bins per trial", "input": inp,
                                       "impl": W.tolist(), "expected": expw})


def search(res, seed):
    r2 = C.Result()
    run(r2, "thorough", seed)
    return r2.violations[0] if r2.violations else None


def replay(payload):
    nap = _nap()
    warnings.simplefilter("ignore")
    v = payload.get("violation") or (payload.get("disagreements") or [{}])[0]
    inp = v.get("input", {})
    ts = inp.get("ts", [0, 1])
    x = nap.Tsd(G.arr(ts), np.arange(len(ts)) + 100)
    if "a" in inp:
        a, b = inp["a"], inp["b"]
        got = [int(q) - 100 for q in x.get(a / 1e9, b / 1e9).values]
        exp = [i for i, t in enumerate(ts) if a <= t <= b]
        print("ts", ts, "window", a, b, "impl", got, "expected", exp)
        return 0 if got == exp else 1
    print("trial replay input:", inp)
    return 1
