"""C08 time-window slicing and trial tensors select exactly the windowed samples."""
import itertools
import random
import warnings

import numpy as np

import common as C
import gen as G

LEVEL = "proof"
TRUSTED = ["model: coq/Model/Slice.v (searchsorted as counts, get_range, get_closest, trial_rows, padding, trial_count_rows) over Model/Count.v; theorems: Proofs/SliceProofs.v",
           "np.searchsorted's contract on a sorted array (left = #{t < v}, right = #{t <= v}) is NumPy's"]
ASSUMPTIONS = ["a series whose timestamps all coincide (zero span) and that has no explicit time support gets an EMPTY default support: recorded as a known finding for get() / "
               "Ts.get(start); such series are generated (and pass) with an explicit support and in the trial tensors",
               "warp_tensor for timestamps: PROVED equal to num_bins equal bins when num_bins divides the trial duration in ticks and refuted otherwise (the bin size is rounded "
               "to 1 ns and accumulated); CHECKED against exact rational equal half-open bins in both cases (a sample at the trial end is in no bin, as in count)",
               "time support unchanged: proved for a non-empty selection, refuted for an empty one (the constructor drops an explicit support of an empty series); checked for every window",
               "argument forms outside the documented signatures are only required to be rejected with a clean exception (ValueError / TypeError / RuntimeError) or else to obey the statement: "
               "a 0-d array as start / end / bin_size, num_bins given as np.int64 (documented type: int), an EMPTY trial IntervalSet; get(start) is not generated for an empty series / a group "
               "with an empty member (no nearest sample exists); np.float32 / numpy integer scalars are generated only when they hold the instant exactly",
               "trial_count in the widened forms is generated on the dyadic and whole-second grids only (every bin edge exact in float64); get / to_trial_tensor also on whole-ms, whole-us and "
               "1 ns grids (both sides are rounded to 1e-9 s by the same routine, so edge coincidences are deterministic)"]

U = 1953125


def _nap():
    import pynapple as nap
    return nap


def _sup(x):
    return [(C.to_ns(s), C.to_ns(e)) for s, e in x.time_support.values]


def _vals(n, k, dtype=float):
    """(n, k) values: cell c of row i = i + 100*(c+1): every cell identifies its sample"""
    return (np.arange(n)[:, None] + 100 * (np.arange(k)[None, :] + 1)).astype(dtype)


def _eqnan(a, b):
    a, b = np.asarray(a, dtype=float), np.asarray(b, dtype=float)
    return a.shape == b.shape and np.array_equal(a, b, equal_nan=True)


def _pad(rows, w, pad, align_end):
    return [([pad] * (w - len(r)) + list(r)) if align_end else (list(r) + [pad] * (w - len(r))) for r in rows]


UNITS = (("s", 1e9), ("ms", 1e6), ("us", 1e3))


def class_case(nap, ts_all, a, b, supkind):
    """get / get_slice / get(start) on Ts, Tsd, TsdFrame, TsdTensor and TsGroup, default / explicit / multi-interval support, 3 units.
    Returns the list of violations."""
    V = []
    lo, hi = min(ts_all), max(ts_all)
    if supkind == "default":
        sup, supo = None, None
    elif supkind == "wide":
        sup = [(lo - 3 * U, hi + 5 * U)]
    else:   # two intervals cutting the lattice (samples in the gap are not part of the series)
        sup = [(lo - 3 * U, lo + 2 * U), (lo + 5 * U, hi + 5 * U)] if hi - lo >= 6 * U else [(lo - 3 * U, lo - U), (lo - U // 2, hi + 5 * U)]
    if sup is not None:
        supo = nap.IntervalSet(G.arr([u for u, _ in sup]), G.arr([w for _, w in sup]))
    ts = [t for t in ts_all if sup is None or G.mem(t, sup)]
    if not ts:
        return None
    n = len(ts)
    vals = {"Ts": None, "Tsd": _vals(n, 1, np.int64)[:, 0], "TsdFrame": _vals(n, 2), "TsdTensor": _vals(n, 4).reshape(n, 2, 2)}
    objs = {"Ts": nap.Ts(G.arr(ts_all), time_support=supo), "Tsd": nap.Tsd(G.arr(ts), vals["Tsd"], time_support=supo),
            "TsdFrame": nap.TsdFrame(G.arr(ts), vals["TsdFrame"], time_support=supo, columns=["a", "b"]),
            "TsdTensor": nap.TsdTensor(G.arr(ts), vals["TsdTensor"], time_support=supo)}
    # the finding recorded for get(): all timestamps coincide AND the support is the (then empty) default one
    zs = bool(ts[0] == ts[-1] and sup is None)
    exp = [i for i, t in enumerate(ts) if a <= t <= b]
    dmin = min(abs(t - a) for t in ts)
    near = [i for i, t in enumerate(ts) if abs(t - a) == dmin]
    base = {"ts": ts_all, "a": a, "b": b, "support": sup, "supkind": supkind}
    for cls, x in objs.items():
        before = _sup(x)
        for units, f in UNITS:
            kk = {"cls": cls, "units": units, "zero_span_series": zs}
            inp = dict(base, cls=cls, units=units)
            try:
                r = x.get(a / f, b / f, time_units=units)
                sl = x.get_slice(a / f, b / f, time_unit=units)
                c = x.get(a / f, time_units=units)
                cs = x.get_slice(a / f, time_unit=units)
            except Exception as ex:
                V.append({"key": dict(kk, op="get", part="exception"), "what": "get/get_slice raised %s: %s" % (type(ex).__name__, str(ex)[:100]), "input": inp})
                continue
            if np.arange(n)[sl].tolist() != exp:
                V.append({"key": dict(kk, op="get_slice", part="samples"), "what": "get_slice does not select exactly the samples with start <= t <= end", "input": inp,
                          "impl": np.arange(n)[sl].tolist(), "expected": exp})
            if type(r) is not type(x) or [C.to_ns(t) for t in r.t] != [ts[i] for i in exp] or (cls != "Ts" and not np.array_equal(r.values, vals[cls][exp])):
                V.append({"key": dict(kk, op="get", part="samples"), "what": "get(start, end) does not return exactly the samples (time and row) with start <= t <= end",
                          "input": inp, "impl": [C.to_ns(t) for t in r.t], "expected": [ts[i] for i in exp]})
            elif _sup(r) != before:
                V.append({"key": dict(kk, op="get", part="support", empty_result=not exp), "what": "get(start, end) changed the time support", "input": inp,
                          "impl": _sup(r), "expected": before})
            # composition (theorems C08_get_get, C08_get_commute_idempotent, C08_get_is_restrict): a second window taken from the result is the
            # window of the intersected range, in either order; a window with start < end holds the samples of restrict(IntervalSet(start, end))
            if exp and not zs and type(r) is type(x):
                c2, d2 = ts_all[len(ts_all) // 3], ts_all[(2 * len(ts_all)) // 3]
                exp2 = [i for i in exp if c2 <= ts[i] <= d2]
                inp2 = dict(inp, c=c2, d=d2)
                try:
                    r2 = r.get(c2 / f, d2 / f, time_units=units)
                    r3 = x.get(c2 / f, d2 / f, time_units=units).get(a / f, b / f, time_units=units)
                    r4 = r.get(a / f, b / f, time_units=units)
                    rr = x.restrict(nap.IntervalSet(a / f, b / f, time_units=units)) if a < b else None
                except Exception as ex:
                    V.append({"key": dict(kk, op="get", part="compose_exception"), "what": "get of a get / restrict by the window raised %s: %s" % (type(ex).__name__, str(ex)[:100]), "input": inp2})
                else:
                    for part, y, e_ in (("get_get", r2, exp2), ("get_commute", r3, exp2), ("get_idempotent", r4, exp), ("get_is_restrict", rr, exp)):
                        if y is None:
                            continue
                        if [C.to_ns(t) for t in y.t] != [ts[i] for i in e_] or (cls != "Ts" and not np.array_equal(y.values, vals[cls][e_])):
                            V.append({"key": dict(kk, op="get", part=part), "what": "composition law of get(start, end) fails (%s): samples or rows differ from the window of the intersected range" % part,
                                      "input": inp2, "impl": [C.to_ns(t) for t in y.t], "expected": [ts[i] for i in e_]})
            if np.arange(n)[cs].tolist() not in [[i] for i in near]:
                V.append({"key": dict(kk, op="get_slice(start)", part="nearest"), "what": "get_slice(start) does not select a sample nearest to start", "input": inp})
            if cls == "Ts":
                okc = type(c) is type(x) and [C.to_ns(t) for t in c.t] in [[ts[i]] for i in near]
            else:
                okc = any(np.array_equal(np.asarray(c), vals[cls][i]) for i in near)
            if not okc:
                V.append({"key": dict(kk, op="get(start)", part="nearest"), "what": "get(start) does not return a sample nearest to start", "input": inp})
    # TsGroup: member-wise, every member
    mem = {2: ts_all, 7: ts_all[:-1] if len(ts_all) > 2 and ts_all[0] != ts_all[-2] else ts_all, 5: ts_all[1:] or ts_all}
    gsup = supo if supo is not None else nap.IntervalSet(-1.0, 1.0)
    gs = sup if sup is not None else [(-10**9, 10**9)]
    g = nap.TsGroup({k: nap.Ts(G.arr(m)) for k, m in mem.items()}, time_support=gsup)
    for units, f in UNITS:
        inp = dict(base, cls="TsGroup", units=units)
        try:
            rg = g.get(a / f, b / f, time_units=units)
            cg = g.get(a / f, time_units=units)
        except Exception as ex:
            V.append({"key": {"op": "TsGroup.get", "part": "exception", "units": units}, "what": "TsGroup.get raised %s: %s" % (type(ex).__name__, str(ex)[:100]), "input": inp})
            continue
        if list(rg.keys()) != sorted(mem) or list(cg.keys()) != sorted(mem) or _sup(rg) != gs or _sup(cg) != gs:
            V.append({"key": {"op": "TsGroup.get", "part": "keys_support", "units": units}, "what": "TsGroup.get lost members or changed the group's support", "input": inp})
            continue
        for k, m in mem.items():
            mm = [t for t in m if G.mem(t, gs)]
            e_ = [t for t in mm if a <= t <= b]
            if [C.to_ns(t) for t in rg[k].t] != e_:
                V.append({"key": {"op": "TsGroup.get", "part": "samples", "units": units}, "what": "TsGroup.get is not member-wise get", "input": dict(inp, member=k)})
            elif _sup(rg[k]) != _sup(g[k]):
                V.append({"key": {"op": "TsGroup.get", "part": "member_support", "units": units, "empty_result": not e_},
                          "what": "TsGroup.get changed a member's time support", "input": dict(inp, member=k), "impl": _sup(rg[k]), "expected": _sup(g[k])})
            if mm:
                d_ = min(abs(t - a) for t in mm)
                if [C.to_ns(t) for t in cg[k].t] not in [[t] for t in mm if abs(t - a) == d_]:
                    V.append({"key": {"op": "TsGroup.get(start)", "part": "nearest", "units": units}, "what": "TsGroup.get(start) is not the member's nearest sample",
                              "input": dict(inp, member=k)})
    return V


def warp_expect(ts, ep, nb):
    """num_bins EQUAL bins per trial, half-open as count's bins are: bin j of trial [s, e] = {t : s + j(e-s)/nb <= t < s + (j+1)(e-s)/nb}, exact rationals"""
    return [[sum(1 for t in ts if s <= t <= e and j * (e - s) <= nb * (t - s) < (j + 1) * (e - s)) for j in range(nb)] for s, e in ep]


def warp_case(nap, ts, ts2, ep, nb, kind, form=None, tags=None):
    """warp_tensor on a Ts and on a TsGroup of two members; returns the list of violations.
    form (optional) = the argument forms of the receiver, the trials and the call (see run_widened); None = the plain forms"""
    V = []
    inp = {"ts": ts, "ts2": ts2, "ep": ep, "num_bins": nb}
    lo, hi = min(ts + ts2 + [s for s, _ in ep]), max(ts + ts2 + [e for _, e in ep])
    wide = nap.IntervalSet(lo / 1e9 - 1.0, hi / 1e9 + 1.0)
    e1, e2 = warp_expect(ts, ep, nb), warp_expect(ts2, ep, nb)
    wkey = {}
    NB = nb
    call = lambda obj, epo_: nap.warp_tensor(obj, epo_, NB)
    if form is None:
        epo = nap.IntervalSet(G.arr([s for s, _ in ep]), G.arr([e for _, e in ep]))
        p = nap.Ts(G.arr(ts), time_support=wide)
        g = nap.TsGroup({1: nap.Ts(G.arr(ts)), 3: nap.Ts(G.arr(ts2))}, time_support=wide)
        eg = [e1, e2]
    else:
        tags = [] if tags is None else tags
        inp["form"] = form
        wkey = {"widened": True}
        grid = "ms" if kind == "ms" else "dyadic"
        iu = GRIDS[grid][1]
        try:
            epo, epu = _mk_ep(nap, [tuple(e) for e in ep], form["epform"], iu, GRIDS[grid][0])
            t_arg, tunits, used = _mk_times(nap, ts, form["tform"], iu)
            p = nap.Ts(t_arg, time_units=tunits, time_support=wide)
            g, gexp = _mk_group(nap, {"grid": grid, "group": form["group"], "ep": ep}, tags)
        except Exception as ex:
            return [{"key": {"op": "warp_tensor", "part": "construction", "widened": True}, "what": "building the inputs raised %s: %s" % (type(ex).__name__, str(ex)[:100]), "input": inp}]
        eg = [warp_expect(gexp[k][0], ep, nb) for k in sorted(gexp)]
        NB = np.int64(nb) if form["nbform"] == "np.int64" else nb
        tags += ["trials form=" + epu, "time form=" + used + ("" if tunits == "s" else " time_units=" + tunits), "call form=" + form["cform"], "num_bins form=" + form["nbform"]]
        if form["cform"] == "kw":
            call = lambda obj, epo_: nap.warp_tensor(input=obj, ep=epo_, num_bins=NB)
        elif form["cform"] == "mixed":
            call = lambda obj, epo_: nap.warp_tensor(obj, epo_, num_bins=NB)
    for what, obj, expw in (("Ts", p, e1), ("TsGroup", g, eg)):
        # bin_is_whole_ns: every trial whose row is wrong (every trial, for an exception) has a duration that num_bins divides in ns
        try:
            W = np.asarray(call(obj, epo))
        except Exception as ex:
            if form is not None and isinstance(ex, TypeError) and form["nbform"] == "np.int64":
                tags.append("num_bins=np.int64 rejected with a clean exception")      # the documented type is int
                continue
            V.append({"key": dict(wkey, op="warp_tensor", part="exception", input_kind=what, lattice=kind, bin_is_whole_ns=all((e - s) % nb == 0 for s, e in ep)),
                      "what": "warp_tensor raised %s: %s" % (type(ex).__name__, str(ex)[:100]), "input": inp})
            continue
        E = np.asarray(expw, dtype=float).reshape((len(ep), nb) if what == "Ts" else (len(expw), len(ep), nb))
        if W.shape != E.shape:
            V.append({"key": dict(wkey, op="warp_tensor", part="shape", input_kind=what, lattice=kind), "what": "warp_tensor shape is not (members,) trials x num_bins", "input": inp})
            continue
        bad = sorted({int(i) for i in np.argwhere(W != E)[:, -2]})
        if bad:
            V.append({"key": dict(wkey, op="warp_tensor", part="counts", input_kind=what, lattice=kind, bin_is_whole_ns=any((ep[i][1] - ep[i][0]) % nb == 0 for i in bad)),
                      "what": "warp_tensor(timestamps) is not counting in num_bins equal bins per trial", "input": inp, "impl": W.tolist(), "expected": E.tolist(), "trials": bad})
    return V


# =====================================================================================================================
# WIDENED ARGUMENT FORMS (DESIGN 10.10: every seeded defect missed in the third round lived in a form of the inputs that
# the generators above never produce).  Every case below is described by a JSON-able `spec` (replayable); the oracles are
# the clauses of class_case / the trial section / warp_case restated for the general form (expected values are always
# derived from the raw integer ticks, never from the library's own objects).
BIG = 10 ** 14                       # 1e5 s, a whole multiple of every grid step below
UF = {"s": 10 ** 9, "ms": 10 ** 6, "us": 10 ** 3}
# grid -> (half step h in ticks, unit in which the grid points are whole numbers): timestamps live on off + 2h*k, window edges on off + h*j
GRIDS = {"dyadic": (U, None), "int_s": (10 ** 9, "s"), "int_ms": (10 ** 6, "ms"), "int_us": (10 ** 3, "us"), "ms": (10 ** 5, "us"), "ns": (1, None)}
CLEAN = (ValueError, TypeError, RuntimeError)
DTYPES = ("float64", "float32", "int64", "int32", "int16", "int8", "uint8", "uint16", "uint32", "uint64", "bool")
TFORMS = ("ndarray", "list", "tuple", "pd.Index", "TsIndex", "other.t", "float32", "unit_ms", "unit_us", "int:int64", "int:int32", "int:int16",
          "int:uint8", "int:uint16", "int:uint32", "int:uint64", "int_list", "pandas")
SFORMS = ("float", "float", "int", "np.float64", "np.float32", "np.int64", "np.int32", "np.int16", "np.uint8", "np.uint16", "np.uint64", "0d")
EPFORMS = ("arr", "kw", "list", "tuple", "int:int64", "int:int32", "int:uint8", "int:uint16", "int:uint64", "unit_ms", "unit_us", "pairs", "df", "meta", "inter",
           "index", "slice", "copy", "f32")
PADFORMS = ("default", "nan", "-1.0", "7.5", "int0", "int-1", "np.float32", "np.float64", "np.int64", "inf", "-inf")
PADS = {"default": float("nan"), "nan": float("nan"), "-1.0": -1.0, "7.5": 7.5, "int0": 0, "int-1": -1, "np.float32": np.float32(2.5), "np.float64": np.float64(-3.0),
        "np.int64": np.int64(9), "inf": float("inf"), "-inf": float("-inf")}
KEYFORMS = {"ints": [2, 7, 5, 11], "str": ["12", "3", "101", "40"], "float": [3.0, 11.0, 7.0, 20.0], "big": [1000, 5, 70, 3],
            "np": [np.int64(4), np.int64(1), np.int64(9), np.int64(6)], "range": [0, 1, 2, 3]}


def _pd():
    import pandas as pd
    return pd


def _scalar(ticks, u, form):
    """the instant `ticks` (ns) expressed in unit u as a scalar of the requested form; falls back to a Python float when the form cannot hold it EXACTLY"""
    v = ticks / UF[u]
    whole = ticks % UF[u] == 0
    iv = ticks // UF[u]
    if form == "int" and whole:
        return int(iv), form
    if form == "np.float64":
        return np.float64(v), form
    if form == "np.float32" and float(np.float32(v)) == v:
        return np.float32(v), form
    if form in ("np.int64", "np.int32", "np.int16", "np.uint8", "np.uint16", "np.uint64") and whole:
        dt = np.dtype(form[3:])
        if np.iinfo(dt).min <= iv <= np.iinfo(dt).max:
            return dt.type(iv), form
    if form == "0d":
        return np.array(v), form
    return v, "float"


def _f32_inexact(val, u, ticks):
    """a np.float32 scalar (an exactly representable instant) whose conversion to seconds at 9 decimals is NOT that instant once it is carried out in float32
    arithmetic (np.array([val]) keeps the dtype: the quotient by 1e3 / 1e6 and np.around(., 9) are then float32 operations). Only used as a key flag."""
    if not isinstance(val, np.float32):
        return False
    q = np.array([val])
    q = q if u == "s" else q / (1.0e3 if u == "ms" else 1.0e6)
    return float(np.around(q, 9)[0]) != ticks / 1e9


def _mk_times(nap, ts, tform, iu):
    """the timestamps `ts` (ticks) in the requested argument form -> (t argument, time_units, form actually used)"""
    fl = G.arr(ts)
    if tform == "list":
        return fl.tolist(), "s", tform
    if tform == "tuple":
        return tuple(fl.tolist()), "s", tform
    if tform == "pd.Index":
        return _pd().Index(fl, dtype="float64"), "s", tform
    if tform in ("TsIndex", "other.t"):
        donor = nap.Ts(fl, time_support=nap.IntervalSet(fl[0] - 1.0, fl[-1] + 1.0)) if len(ts) else nap.Ts(fl)
        return (donor.index if tform == "TsIndex" else donor.t), "s", tform
    if tform == "float32":
        a32 = fl.astype(np.float32)
        if np.array_equal(a32.astype(np.float64), fl):
            return a32, "s", tform
    if tform in ("unit_ms", "unit_us"):
        u = tform[5:]
        return np.array([t / UF[u] for t in ts], dtype=np.float64), u, tform
    if (tform.startswith("int:") or tform == "int_list") and iu is not None and all(t % UF[iu] == 0 for t in ts):
        iv = [t // UF[iu] for t in ts]
        if tform == "int_list":
            return [int(v) for v in iv], iu, tform
        for dt in (tform[4:], "int64"):
            info = np.iinfo(np.dtype(dt))
            if all(info.min <= v <= info.max for v in iv):
                return np.array(iv, dtype=dt), iu, "int:" + dt
    return fl, "s", "ndarray"


def _mk_vals(n, trail, dtype, special):
    """(n,)+trail values: cell c of row i = i + m*(c+1) (every cell identifies its sample) unless `special` says otherwise"""
    k = int(np.prod(trail)) if trail else 1
    dt = np.dtype(dtype)
    if dt == np.bool_:
        v = (np.arange(n)[:, None] + np.arange(k)[None, :]) % 2 == 0
    else:
        m = 10 if dt.itemsize == 1 else 100
        v = (np.arange(n)[:, None] + m * (np.arange(k)[None, :] + 1)).astype(dt)
    if special == "equal":
        v = np.full((n, k), 1 if dt == np.bool_ else 7).astype(dt)
    elif special == "zeros":
        v = np.zeros((n, k), dtype=dt)
    elif special in ("nan", "inf", "naninf") and dt.kind == "f":
        v = v.copy()
        for i in range(n):
            cyc = {"nan": [np.nan, None], "inf": [np.inf, -np.inf], "naninf": [np.nan, np.inf, -np.inf, None]}[special]
            w = cyc[i % len(cyc)]
            if w is not None:
                v[i, i % k] = w
    return v.reshape((n,) + tuple(trail))


def _layout(v, layout):
    if layout == "F" and v.ndim >= 2:
        return np.asfortranarray(v)
    if layout == "view":
        return np.repeat(v, 2, axis=0)[::2]          # a strided view of a larger buffer
    return np.ascontiguousarray(v)


def _same(a, b):
    a, b = np.asarray(a), np.asarray(b)
    if a.shape != b.shape:
        return False
    if a.dtype.kind == "f" or b.dtype.kind == "f":
        return bool(np.array_equal(a.astype(float), b.astype(float), equal_nan=True))
    return bool(np.array_equal(a, b))


def _mk_support(nap, ts, supkind, h):
    lo, hi = min(ts), max(ts)
    if supkind == "default":
        return None, None
    if supkind == "wide":
        sup = [(lo - 3 * h, hi + 5 * h)]
    else:
        sup = [(lo - 3 * h, lo + 2 * h), (lo + 5 * h, hi + 5 * h)] if hi - lo >= 6 * h else [(lo - 3 * h, lo - h), (lo - h // 2, hi + 5 * h)]
    return sup, nap.IntervalSet(G.arr([u for u, _ in sup]), G.arr([w for _, w in sup]))


COLUMNS = {"default": None, "str": ["a", "b", "c"], "str_unsorted": ["z", "b", "m"], "int_unsorted": [5, 2, 9], "int_big": [100, 20, 3]}


def _mk_series(nap, sp, tags):
    """build the receiver described by sp (class, dtype, data, layout, time form, support, history).
    Returns (x, ts, V0): the object, its expected timestamps (ticks) and expected values ((n,)+trail array, None for Ts); None when the form does not apply."""
    import os
    import tempfile
    h, iu = GRIDS[sp["grid"]]
    ts_all = list(sp["ts"])
    cls, trail, hist, supkind = sp["cls"], sp["trail"], sp["hist"], sp["supkind"]
    n_all = len(ts_all)
    if n_all == 0:
        supkind = "default"
    if hist == "slice" and n_all:                      # an extra leading sample that the history slices away again
        ts_all = [ts_all[0] - 2 * h] + ts_all
        n_all += 1
    sup, supo = _mk_support(nap, ts_all, supkind, h) if ts_all else (None, None)
    if n_all and sup is None and len(set(ts_all)) < 2:
        # zero-span series: its default support is empty (known quirk, exercised on purpose by the first sections): explicit support here
        supkind = "wide"
        sup, supo = _mk_support(nap, ts_all, "wide", h)
    R = None
    if hist == "restrict" and n_all:                   # the support comes from restrict() instead of the constructor
        R, Ro = (sup, supo) if sup is not None else _mk_support(nap, ts_all, "wide", h)
        csupo = None
    else:
        csupo = supo
    t_arg, tunits, used = _mk_times(nap, ts_all, sp["tform"] if sp["tform"] != "pandas" else "ndarray", iu)
    V_all = None
    if cls != "Ts":
        V_all = _layout(_mk_vals(n_all, trail, sp["dtype"], sp["special"]), sp["layout"])
    kw = {}
    if tunits != "s":
        kw["time_units"] = tunits
    if csupo is not None:
        kw["time_support"] = csupo
    pandas_form = sp["tform"] == "pandas" and cls in ("Tsd", "TsdFrame")
    cols = None
    if cls == "TsdFrame":
        cols = COLUMNS[sp.get("columns", "default")]
        cols = None if cols is None else cols[:trail[0]]
    if sp["layout"] == "shared" and cls != "Ts":
        # the same buffers first serve another live object (operands that share memory)
        decoy = nap.TsdTensor(t_arg, V_all, **kw) if V_all.ndim > 2 else (nap.TsdFrame(t_arg, V_all, **kw) if V_all.ndim == 2 else nap.Tsd(t_arg, V_all, **kw))
        if n_all:
            decoy.get(float(G.arr(ts_all)[0]), float(G.arr(ts_all)[-1]))
    if cls == "Ts":
        x = nap.Ts(t_arg, **kw)
    elif cls == "Tsd":
        x = nap.Tsd(_pd().Series(V_all, index=t_arg), **kw) if pandas_form else nap.Tsd(t_arg, V_all, **kw)
    elif cls == "TsdFrame":
        if sp.get("frame_meta"):
            kw["metadata"] = {"info_q": list(range(trail[0]))}
        if pandas_form:
            x = nap.TsdFrame(_pd().DataFrame(V_all, index=t_arg, columns=cols), **kw)
        else:
            x = nap.TsdFrame(t_arg, V_all, columns=cols, **kw) if cols is not None else nap.TsdFrame(t_arg, V_all, **kw)
    else:
        x = nap.TsdTensor(t_arg, V_all, **kw)
    tags.append("time form=" + ("pandas" if pandas_form else used) + ("" if tunits == "s" else " time_units=" + tunits))
    keep = [i for i, t in enumerate(ts_all) if sup is None or G.mem(t, sup)]
    V0 = None if V_all is None else np.asarray(V_all)
    # histories
    if hist == "restrict" and n_all:
        x = x.restrict(Ro)
        keep = [i for i, t in enumerate(ts_all) if G.mem(t, R)]
    elif hist == "slice" and n_all:
        x = x[1:]
        keep = keep[1:]
    elif hist == "get" and n_all:
        x = x.get(float(G.arr([ts_all[0] - h])[0]), float(G.arr([ts_all[-1] + h])[0]))
    elif hist == "arith" and cls != "Ts":
        x = x * 1
        V0 = V0 * 1
    elif hist == "npfunc" and cls != "Ts":
        x = np.abs(x)
        V0 = np.abs(V0)
    elif hist == "saveload":
        d = tempfile.mkdtemp(prefix="c08_")
        p = os.path.join(d, "x.npz")
        try:
            x.save(p)
            x = nap.load_file(p)
        finally:
            try:
                os.remove(p)
                os.rmdir(d)
            except OSError:
                pass
    ts = [ts_all[i] for i in keep]
    if V0 is not None:
        V0 = V0[keep]
    tags.append("history=" + hist)
    tags.append("support=" + supkind)
    return x, ts, V0, cols


def _call(fn, req, opt, cform):
    """call fn with the required arguments `req` [(name, value)] and the optional ones `opt` [(name, value, default, is_default)]:
    pos = everything positional (defaults in between spelled out), kw = everything by keyword (defaults omitted), kwall = every parameter by keyword incl.
    the defaults, mixed = required positional + the non-default options by keyword in reverse order"""
    if cform == "pos":
        last = max([i for i, o in enumerate(opt) if not o[3]], default=-1)
        return fn(*[v for _, v in req], *[(o[2] if o[3] else o[1]) for o in opt[:last + 1]])
    if cform == "kw":
        return fn(**dict(req), **{o[0]: o[1] for o in opt if not o[3]})
    if cform == "kwall":
        return fn(**dict(req), **{o[0]: (o[2] if o[3] else o[1]) for o in opt})
    return fn(*[v for _, v in req], **{o[0]: o[1] for o in reversed(opt) if not o[3]})


def get_form_case(nap, sp):
    """get / get_slice / get(start) / get_slice(start) on ONE receiver in the argument forms of sp. Returns (violations, tags)."""
    V, tags = [], []
    h, iu = GRIDS[sp["grid"]]
    try:
        x, ts, V0, cols = _mk_series(nap, sp, tags)
    except Exception as ex:
        return [{"key": {"op": "get", "part": "construction", "cls": sp["cls"], "widened": True}, "what": "building the receiver raised %s: %s" % (type(ex).__name__, str(ex)[:100]),
                 "input": {"spec": sp}}], tags
    cls, units, cform = sp["cls"], sp["units"], sp["cform"]
    ul = units.lower()           # a unit string in another letter case ("MS"): rejected with a clean exception, or the statement for the unit it spells
    n = len(ts)
    before = _sup(x)
    for a, b in sp["wins"]:
        A, sa = _scalar(a, ul, sp["sa"])
        B, sb = _scalar(b, ul, sp["sb"])
        tags += ["scalar form=" + sa, "scalar form=" + sb, "call form=" + cform, "units=" + units]
        f32 = bool(_f32_inexact(A, ul, a) or _f32_inexact(B, ul, b))
        kk = {"cls": cls, "units": units, "zero_span_series": False, "widened": True,
              "scalar_float32": bool(sa == "np.float32" or sb == "np.float32"), "float32_conversion_inexact": f32}
        inp = {"spec": dict(sp, wins=[[a, b]]), "a": a, "b": b, "start": repr(A), "end": repr(B)}
        exp = [i for i, t in enumerate(ts) if a <= t <= b]
        dflt = units == "s" and cform in ("kw", "mixed")          # time_units left at its default
        try:
            r = _call(x.get, [("start", A)], [("end", B, None, False), ("time_units", units, "s", dflt)], cform)
            sl = _call(x.get_slice, [("start", A)], [("end", B, None, False), ("time_unit", units, "s", dflt)], cform)
            if n:
                c = _call(x.get, [("start", A)], [("end", None, None, True), ("time_units", units, "s", dflt)], cform)
                cs = _call(x.get_slice, [("start", A)], [("end", None, None, True), ("time_unit", units, "s", dflt)], cform)
        except Exception as ex:
            if isinstance(ex, CLEAN) and ("0d" in (sa, sb) or units != ul):
                tags.append("0-d array scalar rejected with a clean exception" if units == ul else "unit string in another letter case rejected with a clean exception")
                continue
            V.append({"key": dict(kk, op="get", part="exception", exc=type(ex).__name__), "what": "get/get_slice raised %s: %s" % (type(ex).__name__, str(ex)[:100]), "input": inp})
            continue
        if not isinstance(sl, slice) or np.arange(n)[sl].tolist() != exp:
            V.append({"key": dict(kk, op="get_slice", part="samples"), "what": "get_slice does not select exactly the samples with start <= t <= end", "input": inp,
                      "impl": np.arange(n)[sl].tolist() if isinstance(sl, slice) else repr(sl), "expected": exp})
        if type(r) is not type(x) or [C.to_ns(t) for t in r.t] != [ts[i] for i in exp] or (cls != "Ts" and not _same(r.values, V0[exp])):
            V.append({"key": dict(kk, op="get", part="samples"), "what": "get(start, end) does not return exactly the samples (time and row) with start <= t <= end",
                      "input": inp, "impl": [C.to_ns(t) for t in r.t], "expected": [ts[i] for i in exp]})
        elif cls != "Ts" and r.values.dtype != x.values.dtype:
            V.append({"key": dict(kk, op="get", part="dtype"), "what": "get(start, end) changed the dtype of the samples", "input": inp, "impl": str(r.values.dtype),
                      "expected": str(x.values.dtype)})
        elif cls == "TsdFrame" and list(r.columns) != list(x.columns):
            V.append({"key": dict(kk, op="get", part="columns"), "what": "get(start, end) changed the column labels of the rows", "input": inp, "impl": list(r.columns),
                      "expected": list(x.columns)})
        elif _sup(r) != before:
            V.append({"key": dict(kk, op="get", part="support", empty_result=not exp), "what": "get(start, end) changed the time support", "input": inp,
                      "impl": _sup(r), "expected": before})
        if not n:
            continue
        dmin = min(abs(t - a) for t in ts)
        near = [i for i, t in enumerate(ts) if abs(t - a) == dmin]
        if not isinstance(cs, slice) or np.arange(n)[cs].tolist() not in [[i] for i in near]:
            V.append({"key": dict(kk, op="get_slice(start)", part="nearest"), "what": "get_slice(start) does not select a sample nearest to start", "input": inp})
        if cls == "Ts":
            okc = type(c) is type(x) and [C.to_ns(t) for t in c.t] in [[ts[i]] for i in near]
        else:
            okc = any(_same(np.asarray(c), V0[i]) for i in near)
        if not okc:
            V.append({"key": dict(kk, op="get(start)", part="nearest"), "what": "get(start) does not return a sample nearest to start", "input": inp})
    return V, tags


def _mk_group(nap, sp, tags):
    """the TsGroup described by sp["group"] -> (g, expected {int key: (ticks, values or None)}); members: list of [ticks, kind]"""
    h, iu = GRIDS[sp["grid"]]
    gf = sp["group"]
    members = [(list(m), k) for m, k in gf["members"]]
    allt = [t for m, _ in members for t in m] + [t for s_, e_ in sp.get("ep", []) for t in (s_, e_)] + [t for w in sp.get("wins", []) for t in w]
    lo, hi = (min(allt), max(allt)) if allt else (0, 2 * h)
    supkind = gf["supkind"]
    if supkind == "default" and (not members or any(len(set(m)) == 1 for m, _ in members) or not any(m for m, _ in members)):
        supkind = "wide"            # zero-span members / an empty group need an explicit support
    if supkind == "wide":
        sup = [(lo - 4 * h, hi + 4 * h)]
    elif supkind == "multi":
        mid = lo + ((hi - lo) // (2 * h)) * h
        sup = [(lo - 4 * h, mid - h), (mid + h, hi + 4 * h)] if hi - lo >= 6 * h else [(lo - 4 * h, hi + 4 * h)]
    else:
        sup = None
    supo = None if sup is None else nap.IntervalSet(G.arr([u for u, _ in sup]), G.arr([w for _, w in sup]))
    hist = gf["hist"]
    extra = hist == "index" and len(members) < 4
    labels = list(KEYFORMS[gf["keyform"]][:len(members) + (1 if extra else 0)])
    build = gf["build"]
    if build == "list":
        labels = list(range(len(labels)))
    objs, exp = [], {}
    msup = supo if gf["bypass"] else None
    for j, lab in enumerate(labels):
        m, kind = members[j] if j < len(members) else (members[0][0] if members else [lo], "Ts")
        vals = np.arange(len(m)) + 100
        if build.startswith("arrays"):
            u = build[7:]
            objs.append(np.array([t / UF[u] for t in m], dtype=np.float64))
            kind = "Ts"
        elif kind == "Tsd":
            objs.append(nap.Tsd(G.arr(m), vals, time_support=msup) if msup is not None else nap.Tsd(G.arr(m), vals))
        else:
            objs.append(nap.Ts(G.arr(m), time_support=msup) if msup is not None else nap.Ts(G.arr(m)))
        keep = [i for i, t in enumerate(m) if sup is None or G.mem(t, sup)]
        exp[int(float(lab))] = ([m[i] for i in keep], vals[keep] if kind == "Tsd" else None)
    data = objs if build == "list" else dict(zip(labels, objs))
    kw = {}
    if supo is not None:
        kw["time_support"] = supo
    if build.startswith("arrays") and build[7:] != "s":
        kw["time_units"] = build[7:]
    if gf["bypass"]:
        kw["bypass_check"] = True
    if gf["meta"]:
        kw["metadata"] = {"lab": ["m%d" % j for j in range(len(labels))]}
    g = nap.TsGroup(data, **kw)
    if hist == "index":
        keys = sorted(int(float(lab)) for lab in labels[:len(members)])
        g = g[keys]
        exp = {k: exp[k] for k in keys}
    elif hist == "restrict":
        R = sup if sup is not None else [(lo - 4 * h, hi + 4 * h)]
        g = g.restrict(nap.IntervalSet(G.arr([u for u, _ in R]), G.arr([w for _, w in R])))
        exp = {k: ([t for t in m if G.mem(t, R)], None if v is None else v[[i for i, t in enumerate(m) if G.mem(t, R)]]) for k, (m, v) in exp.items()}
    elif hist == "get":
        g = g.get(float(G.arr([lo - h])[0]), float(G.arr([hi + h])[0]))
    tags += ["group keys=" + ("0..n-1 (list)" if build == "list" else gf["keyform"]), "group build=" + build, "group support=" + supkind, "group history=" + hist]
    if gf["bypass"]:
        tags.append("group bypass_check=True")
    if gf["meta"]:
        tags.append("group with metadata")
    if not members:
        tags.append("EMPTY group")
    if any(not m for m, _ in exp.values()):
        tags.append("group with an EMPTY member")
    if any(v is not None for _, v in exp.values()):
        tags.append("group with Tsd members")
    return g, exp


def group_form_case(nap, sp):
    """TsGroup.get member-wise in the argument forms of sp. Returns (violations, tags)."""
    V, tags = [], []
    try:
        g, exp = _mk_group(nap, sp, tags)
    except Exception as ex:
        return [{"key": {"op": "TsGroup.get", "part": "construction", "widened": True}, "what": "building the group raised %s: %s" % (type(ex).__name__, str(ex)[:100]),
                 "input": {"spec": sp}}], tags
    units, cform = sp["units"], sp["cform"]
    ul = units.lower()
    gs = _sup(g)
    msup = {k: _sup(g[k]) for k in exp}
    for a, b in sp["wins"]:
        A, sa = _scalar(a, ul, sp["sa"])
        B, sb = _scalar(b, ul, sp["sb"])
        tags += ["scalar form=" + sa, "scalar form=" + sb, "call form=" + cform, "units=" + units]
        f32 = bool(_f32_inexact(A, ul, a) or _f32_inexact(B, ul, b))
        tsdm = any(v is not None for _, v in exp.values())
        kk = {"units": units, "widened": True, "scalar_float32": bool(sa == "np.float32" or sb == "np.float32"), "float32_conversion_inexact": f32}
        inp = {"spec": dict(sp, wins=[[a, b]]), "a": a, "b": b, "start": repr(A), "end": repr(B)}
        dflt = units == "s" and cform in ("kw", "mixed")
        closest = all(m for m, _ in exp.values())
        try:
            rg = _call(g.get, [("start", A)], [("end", B, None, False), ("time_units", units, "s", dflt)], cform)
        except Exception as ex:
            if isinstance(ex, CLEAN) and ("0d" in (sa, sb) or units != ul):
                tags.append("0-d array scalar rejected with a clean exception" if units == ul else "unit string in another letter case rejected with a clean exception")
                continue
            V.append({"key": dict(kk, op="TsGroup.get", part="exception", exc=type(ex).__name__), "what": "TsGroup.get raised %s: %s" % (type(ex).__name__, str(ex)[:100]), "input": inp})
            continue
        cg = None
        if closest:
            try:
                cg = _call(g.get, [("start", A)], [("end", None, None, True), ("time_units", units, "s", dflt)], cform)
            except Exception as ex:
                if isinstance(ex, CLEAN) and (sa == "0d" or units != ul):
                    tags.append("0-d array scalar rejected with a clean exception" if units == ul else "unit string in another letter case rejected with a clean exception")
                else:
                    V.append({"key": dict(kk, op="TsGroup.get(start)", part="exception", tsd_member=tsdm, exc=type(ex).__name__),
                              "what": "TsGroup.get(start) raised %s: %s" % (type(ex).__name__, str(ex)[:100]), "input": inp})
        if type(rg) is not type(g) or list(rg.keys()) != sorted(exp) or _sup(rg) != gs or (cg is not None and (list(cg.keys()) != sorted(exp) or _sup(cg) != gs)):
            V.append({"key": dict(kk, op="TsGroup.get", part="keys_support"), "what": "TsGroup.get lost members or changed the group's support", "input": inp})
            continue
        for k, (m, v) in exp.items():
            sel = [i for i, t in enumerate(m) if a <= t <= b]
            if [C.to_ns(t) for t in rg[k].t] != [m[i] for i in sel] or type(rg[k]) is not type(g[k]) or (v is not None and not _same(rg[k].values, v[sel])):
                V.append({"key": dict(kk, op="TsGroup.get", part="samples"), "what": "TsGroup.get is not member-wise get", "input": dict(inp, member=k)})
            elif _sup(rg[k]) != msup[k]:
                V.append({"key": dict(kk, op="TsGroup.get", part="member_support", empty_result=not sel),
                          "what": "TsGroup.get changed a member's time support", "input": dict(inp, member=k), "impl": _sup(rg[k]), "expected": msup[k]})
            if cg is not None:
                d_ = min(abs(t - a) for t in m)
                if [C.to_ns(t) for t in cg[k].t] not in [[t] for t in m if abs(t - a) == d_]:
                    V.append({"key": dict(kk, op="TsGroup.get(start)", part="nearest"), "what": "TsGroup.get(start) is not the member's nearest sample",
                              "input": dict(inp, member=k)})
    return V, tags


def _mk_ep(nap, ep, epform, iu, h):
    """the trial IntervalSet `ep` (tick pairs) in the requested argument form -> (IntervalSet, form used)"""
    pd = _pd()
    S, E = G.arr([s for s, _ in ep]), G.arr([e for _, e in ep])
    m = len(ep)
    if epform == "kw":
        return nap.IntervalSet(start=S, end=E), epform
    if epform == "list":
        return nap.IntervalSet(S.tolist(), E.tolist()), epform
    if epform == "tuple":
        return nap.IntervalSet(tuple(S.tolist()), tuple(E.tolist())), epform
    if epform.startswith("int:") and iu is not None and all(t % UF[iu] == 0 for se in ep for t in se):
        for dt in (epform[4:], "int64"):
            info = np.iinfo(np.dtype(dt))
            if all(info.min <= t // UF[iu] <= info.max for se in ep for t in se):
                return nap.IntervalSet(np.array([s // UF[iu] for s, _ in ep], dtype=dt), np.array([e // UF[iu] for _, e in ep], dtype=dt), time_units=iu), "int:" + dt + " time_units=" + iu
    if epform in ("unit_ms", "unit_us"):
        u = epform[5:]
        return nap.IntervalSet(np.array([s / UF[u] for s, _ in ep]), np.array([e / UF[u] for _, e in ep]), time_units=u), epform
    if epform == "pairs":
        return nap.IntervalSet(np.stack([S, E], axis=1)), epform
    if epform == "df":
        return nap.IntervalSet(pd.DataFrame({"start": S, "end": E})), epform
    if epform == "meta":
        return nap.IntervalSet(S, E, metadata={"lab": ["t%d" % i for i in range(m)]}), epform
    if epform == "inter":
        return nap.IntervalSet(S, E).intersect(nap.IntervalSet(float(S[0]) - 1.0, float(E[-1]) + 1.0)), epform
    if epform in ("index", "slice"):
        big = nap.IntervalSet(np.append(S, E[-1] + 1.0), np.append(E, E[-1] + 2.0))
        return (big[list(range(m))] if epform == "index" else big[0:m]), epform
    if epform == "copy":
        return nap.IntervalSet(nap.IntervalSet(S, E)), epform
    if epform == "f32" and np.array_equal(S.astype(np.float32).astype(float), S) and np.array_equal(E.astype(np.float32).astype(float), E):
        return nap.IntervalSet(S.astype(np.float32), E.astype(np.float32)), epform
    return nap.IntervalSet(S, E), "arr"


def _crows(tt, ep, b):
    """count's bins per trial: half-open [l, l+b), kept when the bin centre lies in the trial; only the trial's own samples"""
    out_ = []
    for s, e in ep:
        row, l = [], s
        while 2 * l + b <= 2 * e:
            row.append(sum(1 for t in tt if s <= t <= e and l <= t < l + b))
            l += b
        out_.append(row)
    return out_


def tensor_form_case(nap, sp):
    """to_trial_tensor / build_tensor of a Tsd / TsdFrame / TsdTensor in the argument forms of sp. Returns (violations, tags)."""
    V, tags = [], []
    h, iu = GRIDS[sp["grid"]]
    ep = [tuple(e) for e in sp["ep"]]
    try:
        x, ts, V0, cols = _mk_series(nap, sp, tags)
        epo, epu = (_mk_ep(nap, ep, sp["epform"], iu, h) if ep else (nap.IntervalSet([], []), "EMPTY IntervalSet"))
    except Exception as ex:
        return [{"key": {"op": "to_trial_tensor", "part": "construction", "cls": sp["cls"], "widened": True},
                 "what": "building the inputs raised %s: %s" % (type(ex).__name__, str(ex)[:100]), "input": {"spec": sp}}], tags
    tags.append("trials form=" + epu)
    cls, al, padf, cform = sp["cls"], sp["align"], sp["pad"], sp["cform"]
    pad = PADS[padf]
    align_end = al.lower() == "end"     # an align string in another letter case ("End"): rejected with a clean exception, or the statement for the word it spells
    odd = al not in ("start", "end", "default")
    alv = "start" if al == "default" else al
    n = len(ts)
    kc = int(np.prod(V0.shape[1:])) if V0.ndim > 1 else 1
    flat = np.asarray(V0).reshape(n, kc)
    idx = [[i for i, t in enumerate(ts) if s <= t <= e] for s, e in ep]
    w = max([len(r) for r in idx], default=0)
    E = np.array([_pad([[float(flat[i, c]) for i in r] for r in idx], w, float(pad), align_end) for c in range(kc)], dtype=float).reshape(tuple(V0.shape[1:]) + (len(ep), w))
    opts = [("align", alv, "start", al == "default"), ("padding_value", pad, np.nan, padf == "default")]
    inp = {"spec": sp}
    tags += ["align=" + al, "padding form=" + padf, "call form=" + cform]
    calls = [("to_trial_tensor", False, lambda: _call(x.to_trial_tensor, [("ep", epo)], opts, cform))]
    btf = sp["bt"]
    tags.append("build_tensor form=" + btf)
    if btf == "omit":        # bin_size not given at all
        calls.append(("build_tensor", False, lambda: _call(nap.build_tensor, [("input", x), ("ep", epo)], opts, "kw" if cform in ("pos", "kwall") else cform)))
    elif btf == "none":      # bin_size=None, the documented default, spelled out (positionally it is the only way to reach align / padding_value positionally)
        calls.append(("build_tensor", True, lambda: _call(nap.build_tensor, [("input", x), ("ep", epo)], [("bin_size", None, None, cform not in ("pos", "kwall"))] + opts
                                                          + [("time_unit", "s", "s", True)], cform if cform in ("pos", "kwall") else "kwall")))
    else:                    # a bin_size / time_unit that a Tsd-like ignores
        calls.append(("build_tensor", False, lambda: _call(nap.build_tensor, [("input", x), ("ep", epo)], [("bin_size", 2, None, False)] + opts
                                                           + [("time_unit", "ms", "s", False)], cform)))
    for fn, none_given, call in calls:
        kk = {"op": fn, "align": alv, "cls": cls, "widened": True, "bin_size_none_explicit": bool(none_given)}
        try:
            T = call()
        except Exception as ex:
            if isinstance(ex, CLEAN) and (not ep or odd):
                tags.append("EMPTY trial set rejected with a clean exception" if not ep else "align string in another letter case rejected with a clean exception")
                continue
            V.append({"key": dict(kk, part="exception", exc=type(ex).__name__), "what": "%s raised %s: %s" % (fn, type(ex).__name__, str(ex)[:100]), "input": inp})
            continue
        if not _eqnan(T, E):
            V.append({"key": dict(kk, part="rows"), "what": "trial tensor row is not that trial's samples, aligned and padded", "input": inp,
                      "impl": np.asarray(T).tolist(), "expected": E.tolist()})
    return V, tags


def count_form_case(nap, sp):
    """trial_count / build_tensor of a Ts and of a TsGroup in the argument forms of sp (dyadic or whole-second grid: every bin edge is exact). (violations, tags)"""
    V, tags = [], []
    h, iu = GRIDS[sp["grid"]]
    ep = [tuple(e) for e in sp["ep"]]
    ts = list(sp["ts"])
    b, units = sp["b"], sp["units"]
    try:
        epo, epu = _mk_ep(nap, ep, sp["epform"], iu, h)
        t_arg, tunits, used = _mk_times(nap, ts, sp["tform"], iu)
        lo, hi = min(ts + [s for s, _ in ep]), max(ts + [e for _, e in ep])
        wide = nap.IntervalSet(float(G.arr([lo - 4 * h])[0]), float(G.arr([hi + 4 * h])[0]))
        p = nap.Ts(t_arg, time_units=tunits, time_support=wide)
        g, gexp = _mk_group(nap, sp, tags)
    except Exception as ex:
        return [{"key": {"op": "trial_count", "part": "construction", "widened": True}, "what": "building the inputs raised %s: %s" % (type(ex).__name__, str(ex)[:100]),
                 "input": {"spec": sp}}], tags
    tags += ["trials form=" + epu, "time form=" + used + ("" if tunits == "s" else " time_units=" + tunits)]
    al, padf, cform = sp["align"], sp["pad"], sp["cform"]
    pad = PADS[padf]
    align_end = al.lower() == "end"
    ul = units.lower()
    odd = al not in ("start", "end", "default") or units != ul
    alv = "start" if al == "default" else al
    Bv, bf = _scalar(b, ul, sp["bform"])
    tags += ["align=" + al, "padding form=" + padf, "call form=" + cform, "bin_size form=" + bf, "units=" + units]
    wc = max(len(r) for r in _crows(ts, ep, b))
    EC = lambda m: np.array(_pad(_crows(m, ep, b), wc, float(pad), align_end), dtype=float).reshape(len(ep), wc)
    EG = np.array([EC(gexp[k][0]) for k in sorted(gexp)]).reshape(len(gexp), len(ep), wc)
    dflt = units == "s" and cform in ("kw", "mixed")
    opts = [("align", alv, "start", al == "default"), ("padding_value", pad, np.nan, padf == "default"), ("time_unit", units, "s", dflt)]
    inp = {"spec": sp, "bin_size": repr(Bv)}
    for fn, call, E in (("trial_count", lambda: _call(p.trial_count, [("ep", epo), ("bin_size", Bv)], opts, cform), EC(ts)),
                        ("build_tensor(Ts)", lambda: _call(nap.build_tensor, [("input", p), ("ep", epo), ("bin_size", Bv)], opts, cform), EC(ts)),
                        ("TsGroup.trial_count", lambda: _call(g.trial_count, [("ep", epo), ("bin_size", Bv)], opts, cform), EG),
                        ("build_tensor(TsGroup)", lambda: _call(nap.build_tensor, [("input", g), ("ep", epo), ("bin_size", Bv)], opts, cform), EG)):
        kk = {"op": fn, "align": alv, "units": units, "no_bin_fits": wc == 0, "widened": True, "empty_group": not gexp}
        try:
            TC = call()
        except Exception as ex:
            if isinstance(ex, CLEAN) and (bf == "0d" or odd):
                tags.append("0-d array scalar rejected with a clean exception" if bf == "0d" else "align / unit string in another letter case rejected with a clean exception")
                continue
            V.append({"key": dict(kk, part="exception", exc=type(ex).__name__), "what": "%s raised %s: %s" % (fn, type(ex).__name__, str(ex)[:100]), "input": inp})
            continue
        if not _eqnan(TC, E):
            V.append({"key": dict(kk, part="rows"), "what": "trial_count row is not that trial's (member's) binned count, aligned and padded", "input": inp,
                      "impl": np.asarray(TC).tolist(), "expected": E.tolist()})
    return V, tags


HISTS = ("none", "none", "restrict", "slice", "get", "arith", "npfunc", "saveload", "twice")
GHISTS = ("none", "none", "index", "restrict", "get", "twice")


def _rand_series(rng, idx_sets, grids=("dyadic", "dyadic", "int_s", "int_ms", "int_us", "ns"), classes=("Ts", "Tsd", "Tsd", "TsdFrame", "TsdFrame", "TsdTensor"), empty=0.03):
    """one receiver in a random combination of the argument-form axes (every choice derives from rng)"""
    tform = rng.choice(TFORMS)
    grid = rng.choice(grids)
    if tform.startswith("int"):
        grid = rng.choice([g_ for g_ in grids if g_ != "dyadic"] or list(grids))
    elif tform == "float32":
        grid = rng.choice([g_ for g_ in grids if g_ in ("dyadic", "int_s")] or list(grids))
    h, iu = GRIDS[grid]
    if tform.startswith("int:uint"):
        off = rng.choice([0, 0, BIG])
    elif tform == "float32":
        off = rng.choice([0, -6 * h])
    elif grid == "ns":
        off = rng.choice([0, -6 * h, -1000 * h])       # 1 ns spacing: at 1e5 s the ms / us values of these instants are not float64 numbers
    else:
        off = rng.choice([0, 0, -6 * h, -1000 * h, BIG])
    ks = rng.choice(idx_sets)
    ts = [] if rng.random() < empty else [off + 2 * h * k for k in ks]
    cls = rng.choice(classes)
    trail = {"Ts": None, "Tsd": [], "TsdFrame": [rng.choice([1, 2, 3])], "TsdTensor": rng.choice([[2, 2], [1, 1], [2, 1, 2]])}[cls]
    return {"grid": grid, "off": off, "ts": ts, "cls": cls, "trail": trail, "dtype": rng.choice(DTYPES), "special": rng.choice(["ident"] * 4 + ["nan", "inf", "naninf", "equal", "zeros"]),
            "layout": rng.choice(["C", "C", "F", "view", "shared"]), "tform": tform, "supkind": rng.choice(["default", "wide", "multi"]), "hist": rng.choice(HISTS),
            "columns": rng.choice(sorted(COLUMNS)), "frame_meta": rng.random() < 0.3}


def _rand_units(rng):
    u = rng.choice(["s", "ms", "us"])
    return rng.choice([u.upper(), u.capitalize()]) if rng.random() < 0.04 else u


def _rand_align(rng):
    return rng.choice(["End", "START", "END", "Start"]) if rng.random() < 0.05 else rng.choice(["start", "end", "default"])


def _rand_wins(rng, off, h, N, k):
    out = []
    for _ in range(k):
        a, b = sorted((rng.randrange(-2, 2 * N + 2), rng.randrange(-2, 2 * N + 2)))
        out.append([off + h * a, off + h * b])
    return out


def _rand_group(rng, off, h, idx_sets, count_exact=False):
    nm = rng.choice([0, 1, 2, 3, 3, 3])
    members = []
    for _ in range(nm):
        ks = rng.choice(idx_sets)
        members.append([[off + 2 * h * k for k in ks], rng.choice(["Ts", "Ts", "Tsd"])])
    if nm >= 2 and rng.random() < 0.3:
        members[rng.randrange(nm)][0] = []                 # an empty member
    build = rng.choice(["dict", "dict", "dict", "list", "arrays:s", "arrays:ms", "arrays:us"])
    return {"members": members, "keyform": rng.choice(sorted(KEYFORMS)), "build": build, "supkind": rng.choice(["wide", "multi", "default"]),
            "bypass": rng.random() < 0.3, "meta": rng.random() < 0.4, "hist": "none" if nm == 0 else rng.choice(GHISTS)}


def _rand_trials(rng, off, h, trial_idx):
    return [[off + 2 * h * s, off + 2 * h * e] for s, e in rng.choice(trial_idx)]


def run_widened(res, nap, tier, seed):
    """the argument-form axes (dtype of the data, form of the time arguments and scalars, positional / keyword / default / None, units, time placement,
    degenerate receivers, every class, multi-step histories) for every operation of the statement"""
    import json
    N = 6
    big = tier != "quick"
    rng = random.Random(seed * 7 + 3)
    idx_sets = [ks for ks in G.sorted_multisets(list(range(N)), 4) if ks]
    trial_idx = [e for e in G.canonical_isets(list(range(7)), 3) if e]

    def book(kind, sp, v, tags, nontrivial=True):
        res.case((kind, json.dumps(sp, sort_keys=True, default=str)), nontrivial=nontrivial)
        res.count("forms: " + kind + " cases")
        for t in tags:
            res.count("forms: %s %s" % (kind, t))
        res.violations.extend(v)

    # 1. get / get_slice / get(start) / get_slice(start) on Ts, Tsd, TsdFrame, TsdTensor
    for n in range(24000 if big else 3500):
        sp = _rand_series(rng, idx_sets)
        h = GRIDS[sp["grid"]][0]
        sp.update(kind="get", wins=_rand_wins(rng, sp["off"], h, N, 3 if sp["hist"] == "twice" else 1), units=_rand_units(rng), sa=rng.choice(SFORMS), sb=rng.choice(SFORMS),
                  cform=rng.choice(["pos", "kw", "kwall", "mixed"]))
        if sp["hist"] == "twice":
            sp["wins"].append(sp["wins"][0])
        v, tags = get_form_case(nap, sp)
        tags += ["class=" + sp["cls"], "grid=" + sp["grid"], "time placement=" + {0: "from 0", BIG: "offset 1e5 s"}.get(sp["off"], "negative / straddling 0")]
        if sp["cls"] != "Ts":
            tags += ["data dtype=" + sp["dtype"], "data=" + sp["special"], "memory layout=" + sp["layout"]]
        if sp["cls"] == "TsdFrame":
            tags.append("columns=" + sp["columns"] + (" + metadata" if sp["frame_meta"] else ""))
        if not sp["ts"]:
            tags.append("EMPTY series")
        elif len(sp["ts"]) == 1:
            tags.append("one sample")
        book("get", sp, v, tags, nontrivial=any(0 < sum(1 for t in sp["ts"] if a <= t <= b) < len(sp["ts"]) for a, b in sp["wins"]))
        if n % 997 == 0:
            res.sample({"widened get case": sp}, limit=8)
    # 2. TsGroup.get member-wise
    for n in range(4000 if big else 600):
        grid = rng.choice(["dyadic", "int_s", "int_ms", "int_us", "ns"])
        h = GRIDS[grid][0]
        off = rng.choice([0, 0, -6 * h, -1000 * h] + ([] if grid == "ns" else [BIG]))
        gf = _rand_group(rng, off, h, idx_sets)
        sp = {"kind": "group", "grid": grid, "off": off, "group": gf, "wins": _rand_wins(rng, off, h, N, 3 if gf["hist"] == "twice" else 1), "units": _rand_units(rng),
              "sa": rng.choice(SFORMS), "sb": rng.choice(SFORMS), "cform": rng.choice(["pos", "kw", "kwall", "mixed"])}
        v, tags = group_form_case(nap, sp)
        tags += ["grid=" + grid, "time placement=" + {0: "from 0", BIG: "offset 1e5 s"}.get(off, "negative / straddling 0")]
        book("TsGroup.get", sp, v, tags)
    # 3. to_trial_tensor / build_tensor of Tsd, TsdFrame, TsdTensor
    for n in range(8000 if big else 1100):
        sp = _rand_series(rng, idx_sets, classes=("Tsd", "Tsd", "TsdFrame", "TsdFrame", "TsdTensor"), empty=0.02)
        h = GRIDS[sp["grid"]][0]
        if sp["hist"] == "twice":
            sp["hist"] = "none"
        sp.update(kind="tensor", ep=[] if rng.random() < 0.02 else _rand_trials(rng, sp["off"], h, trial_idx), epform=rng.choice(EPFORMS), align=_rand_align(rng),
                  pad=rng.choice(PADFORMS + ("default",)), cform=rng.choice(["pos", "kw", "kwall", "mixed"]), bt=rng.choice(["omit", "none", "ignored"]))
        v, tags = tensor_form_case(nap, sp)
        tags += ["class=" + sp["cls"], "grid=" + sp["grid"], "data dtype=" + sp["dtype"], "data=" + sp["special"], "memory layout=" + sp["layout"],
                 "time placement=" + {0: "from 0", BIG: "offset 1e5 s"}.get(sp["off"], "negative / straddling 0")]
        if sp["cls"] == "TsdFrame":
            tags.append("columns=" + sp["columns"] + (" + metadata" if sp["frame_meta"] else ""))
        if not sp["ts"]:
            tags.append("EMPTY series")
        if any(not any(s <= t <= e for t in sp["ts"]) for s, e in sp["ep"]):
            tags.append("trial with no sample")
        if len(sp["ep"]) == 1:
            tags.append("one trial")
        book("trial tensor", sp, v, tags)
    # 4. trial_count / build_tensor of Ts and TsGroup (grids on which every bin edge is exact in float64)
    for n in range(4000 if big else 600):
        grid = rng.choice(["dyadic", "int_s"])
        h = GRIDS[grid][0]
        tform = rng.choice(TFORMS[:-1])
        off = rng.choice([0, 0, BIG] if tform.startswith("int:uint") else [0, 0, -6 * h, -1000 * h, BIG])
        ks = rng.choice(idx_sets)
        ts = [off + 2 * h * k for k in ks]
        gf = _rand_group(rng, off, h, idx_sets)
        gf["hist"] = "none" if gf["hist"] == "twice" else gf["hist"]
        # the existing trial section uses the members {ts, ts[::2], ts[1:]}: keep one member equal to the Ts under test
        if gf["members"]:
            gf["members"][0][0] = list(ts)
        units = _rand_units(rng)
        sp = {"kind": "count", "grid": grid, "off": off, "ts": ts, "tform": tform, "group": gf, "ep": _rand_trials(rng, off, h, trial_idx), "epform": rng.choice(EPFORMS),
              "b": rng.choice([2 * h, 4 * h, 6 * h]), "units": units, "bform": rng.choice(SFORMS), "align": _rand_align(rng), "pad": rng.choice(PADFORMS + ("default",)),
              "cform": rng.choice(["pos", "kw", "kwall", "mixed"])}
        v, tags = count_form_case(nap, sp)
        tags += ["grid=" + grid, "time placement=" + {0: "from 0", BIG: "offset 1e5 s"}.get(off, "negative / straddling 0")]
        book("trial_count", sp, v, tags)
    # 5. warp_tensor of timestamps (Ts and TsGroup): dyadic lattice and millisecond lattice, every form of the receiver, the trials and the call
    for n in range(3000 if big else 400):
        nb = rng.choice([1, 2, 3, 4, 5, 6, 7, 10, 30])
        if n % 2:
            kind, h = "dyadic", U
            off = rng.choice([0, -6 * h, -1000 * h, BIG])
            ts = [off + 2 * h * k for k in rng.choice(idx_sets)]
            ts2 = [off + 2 * h * k for k in rng.choice(idx_sets)]
            ep = [tuple(e) for e in _rand_trials(rng, off, h, trial_idx)]
        else:
            kind, h = "ms", 10 ** 5
            off = rng.choice([0, -4 * 10 ** 8, BIG])
            ep, s = [], off + rng.randrange(0, 50) * 10 ** 6
            for _ in range(rng.randint(1, 3)):
                d = rng.randrange(1, 400) * (10 ** 6 if rng.random() < 0.7 else 10 ** 5) * (nb if rng.random() < 0.4 else 1)
                ep.append((s, s + d))
                s += d + rng.randrange(1, 50) * 10 ** 6
            tt = set()
            for s_, e_ in ep:
                edges = [s_ + j * (e_ - s_) // nb for j in range(nb + 1) if (j * (e_ - s_)) % nb == 0]
                tt.update(rng.sample(edges, min(len(edges), 3)))
                tt.update(s_ + rng.randrange(0, (e_ - s_) // 10 ** 5 + 1) * 10 ** 5 for _ in range(3))
            ts = sorted(tt)
            ts2 = ts[1::2] or ts
        members = [[list(ts), "Ts"], [list(ts2), rng.choice(["Ts", "Tsd"])]]
        if rng.random() < 0.3:
            members.append([[], "Ts"])
        if rng.random() < 0.05:
            members = []
        gf = {"members": members, "keyform": rng.choice(sorted(KEYFORMS)), "build": rng.choice(["dict", "dict", "list", "arrays:s", "arrays:ms", "arrays:us"]),
              "supkind": rng.choice(["wide", "wide", "default"]), "bypass": rng.random() < 0.3, "meta": rng.random() < 0.4, "hist": "none" if not members else rng.choice(GHISTS[:-1])}
        form = {"tform": rng.choice(TFORMS[:-1]), "epform": rng.choice(EPFORMS), "cform": rng.choice(["pos", "kw", "mixed"]), "nbform": rng.choice(["int", "int", "int", "np.int64"]), "group": gf}
        tags = []
        v = warp_case(nap, ts, ts2, ep, nb, kind, form=form, tags=tags)
        tags += ["lattice=" + kind, "time placement=" + {0: "from 0", BIG: "offset 1e5 s"}.get(off, "negative / straddling 0")]
        if not all((e - s) % nb == 0 for s, e in ep):
            tags.append("num_bins does not divide")
        book("warp_tensor", {"ts": ts, "ts2": ts2, "ep": ep, "nb": nb, "form": form}, v, tags)


def run(res, tier, seed):
    nap = _nap()
    warnings.simplefilter("ignore")
    N = 6
    pts = G.lattice(N, step=2 * U)
    half = [i * U for i in range(-2, 2 * N + 2)]
    nmax = 4 if tier == "quick" else 5
    res.rule = ("get/get_slice/get(start): ALL sorted multisets of <=%d timestamps on a 6-point dyadic lattice (duplicates incl., at window edges) x ALL windows (a <= b) on the half-lattice "
                "incl. before/after/inside/covering the data, a == b, edges on samples [complete in thorough, seeded subsample in quick] on an int Tsd with its default support: samples, "
                "result timestamps and the time support (ALWAYS compared, also for an empty result); zero-span series counted separately. Random cases: Ts/Tsd/TsdFrame/TsdTensor/TsGroup x "
                "{default, explicit, two-interval} support x 3 units for get, get_slice, get(start), get_slice(start): every row, every group member, supports of result and members. "
                "Trial tensors: Tsd float/int, TsdFrame, TsdTensor (zero-span series included), 3 padding values incl. NaN, build_tensor for Tsd-likes, Ts and TsGroup, trial_count in 3 units, "
                "every TsGroup member; warp_tensor (Ts and TsGroup) with num_bins in 1..7,30 dividing or NOT the trial durations, samples on the exact bin edges, dyadic and millisecond "
                "lattices, against exact rational equal bins. non-trivial = window cuts the data (0 < selected < n). "
                "WIDENED ARGUMENT FORMS (run_widened; seeded random product of the axes, every case a replayable spec; the model comparison stays on the plain forms above, the statement "
                "oracle is applied to every form): "
                "[1 data dtype] float64/float32/int64/int32/int16/int8/uint8..uint64/bool data, cells NaN / +inf / -inf (float dtypes), all-equal and all-zero data, C / Fortran / strided-view "
                "memory and buffers shared with another live object; get must keep the dtype and (TsdFrame) the column labels. "
                "[2 time forms] timestamps given as ndarray, list, tuple, pandas Index, pandas Series/DataFrame source, another object's TsIndex, another object's .t, float32 array, "
                "float arrays in ms/us with time_units, integer arrays int64..int16 / uint8..uint64 and Python-int lists in s/ms/us; start / end / bin_size as Python float, Python int, "
                "np.float64, np.float32, np.int64/32/16, np.uint8/16/64 (only when the scalar holds the instant exactly) and as a 0-d array (must be rejected with a clean exception or obey "
                "the statement); trial IntervalSets from arrays, keywords, lists, tuples, integer and unsigned arrays with time_units, ms/us floats, an (n,2) array, a DataFrame, with metadata, "
                "float32, a copy, intersect(), integer-list and slice indexing of a larger set, the empty set. "
                "[3 call forms] every parameter positionally, by keyword, with the defaults omitted, with the defaults spelled out (end=None, bin_size=None, align='start', padding nan, "
                "time_unit 's'), align x padding x unit combined; padding as float / int / np.float32 / np.float64 / np.int64 / nan / +-inf; build_tensor of a Tsd-like with bin_size omitted, "
                "None, or given (ignored); warp_tensor num_bins as int and np.int64 (rejected cleanly or correct); align / unit strings in another letter case ('End', 'MS': rejected with a clean exception, or the statement for the word they spell). "
                "[4 units] s / ms / us for the constructor, the window, the bin size and the trials: the same instants must give the same result. "
                "[5 placement] data from 0, below / across 0, at -1000 steps, at +1e5 s; dyadic, whole-second, whole-ms, whole-us and 1 ns grids (trial_count only on the dyadic and whole-second "
                "grids, where every bin edge is exact); samples on window / trial / bin edges throughout. "
                "[6 degenerate] empty series (get(start,end) and the tensors; get(start) is not defined), one sample, all timestamps equal (explicit support), duplicates, one trial, trials "
                "without sample, an empty trial set (clean exception or zero rows), an empty TsGroup, a group with an empty member, keys unsorted / strings incl. multi-digit / floats / numpy "
                "ints / 0..n-1 from a list. "
                "[7 classes] Ts, Tsd, TsdFrame (1-3 columns; default, string, unsorted string, unsorted integer labels; with metadata), TsdTensor (3-D and 4-D), TsGroup from a dict, a list, "
                "raw arrays with time_units, with Ts and Tsd members, with metadata. "
                "[8 histories] receiver produced by restrict, slicing, get, arithmetic, a numpy ufunc, save + load_file, the same live object queried several times; groups produced by "
                "indexing, restrict, get, bypass_check=True" % nmax)
    res.exhaustive = tier == "thorough"
    rng = random.Random(seed * 5 + 1)
    tss = [ts for ts in G.sorted_multisets(pts, nmax) if len(ts) >= 1]
    wins = [(a, b) for a in half for b in half if a <= b]
    cases = [(ts, a, b) for ts in tss for (a, b) in wins]
    if tier == "quick":
        cases = rng.sample(cases, 12000)
    offs = [0, -6 * U, -1000 * U]
    cases = [([t + offs[n % 3] for t in ts], a + offs[n % 3], b + offs[n % 3]) for n, (ts, a, b) in enumerate(cases)]
    lines = []
    for ts, a, b in cases:
        lines.append("get_range\t%d\t%d\t%s" % (a, b, C.fmt_ints(ts)))
        lines.append("get_closest\t%d\t%s" % (a, C.fmt_ints(ts)))
    out = C.run_model(lines)
    objs = {}
    for n, (ts, a, b) in enumerate(cases):
        key = tuple(ts)
        zero_span = ts[0] == ts[-1]
        if key not in objs:
            o_ = nap.Tsd(G.arr(ts), np.arange(len(ts)) + 100)
            objs[key] = (o_, _sup(o_))
        x, before = objs[key]
        inp = {"ts": ts, "a": a, "b": b}
        exp = [i for i, t in enumerate(ts) if a <= t <= b]
        res.case((key, a, b), nontrivial=0 < len(exp) < len(ts))
        kk = {"zero_span_series": bool(zero_span)}
        try:
            r = x.get(a / 1e9, b / 1e9)
            got = [int(v) - 100 for v in r.values]
            sl = x.get_slice(a / 1e9, b / 1e9)
            got_sl = [int(v) - 100 for v in x.values[sl]]
        except Exception as ex:
            res.violations.append({"key": dict(kk, op="get", part="exception"), "what": "get raised " + type(ex).__name__, "input": inp})
            continue
        if got_sl != exp:
            res.violations.append({"key": dict(kk, op="get_slice", part="samples"), "what": "get_slice does not select exactly the samples with start <= t <= end", "input": inp,
                                   "impl": got_sl, "expected": exp})
        elif got != exp or [C.to_ns(t) for t in r.t] != [ts[i] for i in exp]:
            res.violations.append({"key": dict(kk, op="get", part="samples"), "what": "get(start, end) does not return exactly the samples with start <= t <= end", "input": inp,
                                   "impl": got, "expected": exp})
        elif _sup(r) != before:
            # "time support unchanged": compared for EVERY window, also when nothing is selected
            res.violations.append({"key": dict(kk, op="get", part="support", empty_result=not exp, cls="Tsd"), "what": "get(start, end) changed the time support", "input": inp,
                                   "impl": _sup(r), "expected": before})
        m = [int(v) for v in out[2 * n].split()]
        if (sl.start, sl.stop) != (m[0], m[1]) and not (sl.stop <= sl.start and m[1] <= m[0]):
            res.disagreements.append({"op": "get_slice", "input": inp, "impl": [sl.start, sl.stop], "model": m})
        # closest
        c = x.get(a / 1e9)
        dmin = min(abs(t - a) for t in ts)
        cm = int(out[2 * n + 1])
        ci = int(c) - 100
        if abs(ts[ci] - a) != dmin:
            res.violations.append({"key": dict(kk, op="get(start)", part="nearest"), "what": "get(start) does not return a sample nearest to start", "input": inp, "impl": ci})
        if ci != cm:
            res.disagreements.append({"op": "get_closest", "input": inp, "impl": ci, "model": cm})
        if n % 3001 == 0:
            res.sample({"ts": ts, "window": [a, b], "slice": [sl.start, sl.stop], "closest_index": ci})
    # every class, 3 kinds of support, 3 units, TsGroup member-wise
    for n in range(120 if tier == "quick" else 1500):
        ts = rng.choice(tss)
        a, b = rng.choice(wins)
        supkind = ("default", "wide", "multi")[n % 3]
        v = class_case(nap, ts, a, b, supkind)
        if v is None:
            res.count("class_case_empty_series_skipped")
            continue
        res.evaluations += 1
        res.count("class_cases support=" + supkind)
        if ts[0] == ts[-1]:
            res.count("class_cases zero_span")
        res.violations.extend(v)
    # trial tensors
    trial_sets = [e for e in G.canonical_isets(G.lattice(7, step=2 * U), 3) if e]
    pads = [-1.0, float("nan"), 7.5]
    tlines, tcases = [], []
    for _ in range(300 if tier == "quick" else 4000):
        ts = rng.choice(tss)
        ep = rng.choice(trial_sets)
        align_end = rng.random() < 0.5
        b = rng.choice([2 * U, 4 * U, 6 * U])
        tcases.append((ts, ep, align_end, b))
        tlines.append("trial_tensor\t%d\t%s\t%s\t%s" % (1 if align_end else 0, C.fmt_ints(ts), C.fmt_ints([i + 100 for i in range(len(ts))]), C.fmt_iset(ep)))
        tlines.append("trial_count\t%s\t%s\t%d" % (C.fmt_ints(ts), C.fmt_iset(ep), b))
    tout = C.run_model(tlines) if tlines else []
    for n, (ts, ep, align_end, b) in enumerate(tcases):
        al = "end" if align_end else "start"
        pad = pads[n % 3]
        inp = {"ts": ts, "ep": ep, "align": al, "bin": b, "padding_value": pad}
        epo = nap.IntervalSet(G.arr([s for s, _ in ep]), G.arr([e for _, e in ep]))
        nn = len(ts)
        res.evaluations += 1
        res.count("trial_cases")
        if ts[0] == ts[-1]:
            res.count("trial_zero_span_series")
        if any(not any(s <= t <= e for t in ts) for s, e in ep):
            res.count("trial_with_no_sample")
        idx = [[i for i, t in enumerate(ts) if s <= t <= e] for s, e in ep]
        w = max(len(r) for r in idx)
        srcs = {"Tsd_float": (1, float, lambda v: nap.Tsd(G.arr(ts), v[:, 0])), "Tsd_int": (1, np.int64, lambda v: nap.Tsd(G.arr(ts), v[:, 0])),
                "TsdFrame": (2, float, lambda v: nap.TsdFrame(G.arr(ts), v)), "TsdTensor": (4, float, lambda v: nap.TsdTensor(G.arr(ts), v.reshape(nn, 2, 2)))}
        for cls, (kc, dt, mk) in srcs.items():
            vals = _vals(nn, kc, dt)
            x = mk(vals)
            # expected: cell c -> trials x w (time last), the class's trailing shape first
            E = np.array([_pad([[float(vals[i, c]) for i in r] for r in idx], w, pad, align_end) for c in range(kc)], dtype=float).reshape(x.values.shape[1:] + (len(ep), w))
            for fn, call in (("to_trial_tensor", lambda: x.to_trial_tensor(epo, align=al, padding_value=pad)),
                             ("build_tensor", lambda: nap.build_tensor(x, epo, align=al, padding_value=pad))):
                try:
                    T = call()
                except Exception as ex:
                    res.violations.append({"key": {"op": fn, "part": "exception", "align": al, "cls": cls}, "what": "%s raised %s: %s" % (fn, type(ex).__name__, str(ex)[:100]),
                                           "input": inp})
                    continue
                if not _eqnan(T, E):
                    res.violations.append({"key": {"op": fn, "part": "rows", "align": al, "cls": cls}, "what": "trial tensor row is not that trial's samples, aligned and padded",
                                           "input": inp, "impl": np.asarray(T).tolist(), "expected": E.tolist()})
        exp = _pad([[i + 100 for i in r] for r in idx], w, -1, align_end)
        mod = [[int(v) for v in r.split()] for r in tout[2 * n].split("|")] if tout[2 * n] != "" else [[] for _ in ep]
        if mod != exp and not (w == 0):
            res.disagreements.append({"op": "to_trial_tensor", "input": inp, "model": mod, "expected": exp})
        # trial_count = per-trial binned counts (count's bins: half-open, kept when the bin centre lies in the trial)
        mem = {1: ts, 3: ts[::2], 8: ts[1:] or ts}

        def crows(tt):
            out_ = []
            for s, e in ep:
                row, l = [], s
                while 2 * l + b <= 2 * e:
                    row.append(sum(1 for t in tt if s <= t <= e and l <= t < l + b))
                    l += b
                out_.append(row)
            return out_
        crow = crows(ts)
        wc = max(len(r) for r in crow)
        EC = {k: np.array(_pad(crows(m), wc, pad, align_end), dtype=float).reshape(len(ep), wc) for k, m in mem.items()}
        modc = [[int(v) for v in r.split()] for r in tout[2 * n + 1].split("|")]
        if modc != crow:
            res.disagreements.append({"op": "trial_count(model vs statement)", "input": inp, "model": modc, "expected": crow})
        p = nap.Ts(G.arr(ts))
        g = nap.TsGroup({k: nap.Ts(G.arr(m)) for k, m in mem.items()}, time_support=nap.IntervalSet(-1.0, 1.0))
        units, f = UNITS[n % 3]
        for fn, call, E in (("trial_count", lambda: p.trial_count(epo, b / f, align=al, padding_value=pad, time_unit=units), EC[1]),
                            ("build_tensor(Ts)", lambda: nap.build_tensor(p, epo, b / f, align=al, padding_value=pad, time_unit=units), EC[1]),
                            ("TsGroup.trial_count", lambda: g.trial_count(epo, b / f, align=al, padding_value=pad, time_unit=units), np.array([EC[k] for k in sorted(mem)])),
                            ("build_tensor(TsGroup)", lambda: nap.build_tensor(g, epo, b / f, align=al, padding_value=pad, time_unit=units), np.array([EC[k] for k in sorted(mem)]))):
            try:
                TC = call()
            except Exception as ex:
                res.violations.append({"key": {"op": fn, "part": "exception", "align": al, "units": units, "no_bin_fits": wc == 0},
                                       "what": "%s raised %s: %s" % (fn, type(ex).__name__, str(ex)[:100]), "input": dict(inp, units=units)})
                continue
            if not _eqnan(TC, E):
                res.violations.append({"key": {"op": fn, "part": "rows", "align": al, "units": units, "no_bin_fits": wc == 0},
                                       "what": "trial_count row is not that trial's (member's) binned count, aligned and padded", "input": dict(inp, units=units),
                                       "impl": np.asarray(TC).tolist(), "expected": E.tolist()})
        # warp_tensor on timestamps: num_bins EQUAL bins per trial, whether or not num_bins divides the durations
        if n % 2 == 0:
            nb = (1, 2, 3, 4, 5, 6, 7)[(n // 2) % 7]
            res.count("warp_cases dyadic")
            if not all((e - s) % nb == 0 for s, e in ep):
                res.count("warp_cases num_bins does not divide")
            res.violations.extend(warp_case(nap, ts, ts[::2], ep, nb, "dyadic"))
    # warp_tensor on a millisecond lattice: samples on the exact bin edges (when whole ns), at the trial ends, and anywhere
    for n in range(150 if tier == "quick" else 2000):
        nb = rng.choice([2, 3, 5, 6, 7, 10, 30])
        # a third of the cases start below 0 (trials before, and straddling, t = 0: seed C08-6 rounded negative times to ns by truncation)
        ep, s = [], (rng.randrange(0, 50) if n % 3 else rng.randrange(-400, 0)) * 10**6
        for _ in range(rng.randint(1, 3)):
            d = rng.randrange(1, 400) * (10**6 if rng.random() < 0.7 else 10**5) * (nb if rng.random() < 0.4 else 1)
            ep.append((s, s + d))
            s += d + rng.randrange(1, 50) * 10**6
        tt = set()
        for s_, e_ in ep:
            edges = [s_ + j * (e_ - s_) // nb for j in range(nb + 1) if (j * (e_ - s_)) % nb == 0]
            tt.update(rng.sample(edges, min(len(edges), 3)))
            tt.update(s_ + rng.randrange(0, (e_ - s_) // 10**5 + 1) * 10**5 for _ in range(3))
        ts = sorted(tt)
        res.evaluations += 1
        res.count("warp_cases ms" + (", trial below or across 0" if ep[0][0] < 0 else ""))
        if not all((e - s) % nb == 0 for s, e in ep):
            res.count("warp_cases num_bins does not divide")
        res.violations.extend(warp_case(nap, ts, ts[1::2] or ts, ep, nb, "ms"))
    run_widened(res, nap, tier, seed)


def search(res, seed):
    r2 = C.Result()
    run(r2, "thorough", seed)
    return r2.violations[0] if r2.violations else None


def replay(payload):
    nap = _nap()
    warnings.simplefilter("ignore")
    v = payload.get("violation") or (payload.get("disagreements") or [{}])[0]
    inp = v.get("input", {})
    ts = inp.get("ts", [0, 1])

    def fresh(vs):
        vs = [w for w in vs if C.match_known("C08", w) is None]
        for w in vs[:5]:
            print("violation:", w["key"], w["what"], {k: w[k] for k in ("impl", "expected") if k in w})
        return 1 if vs else 0
    if "spec" in inp:
        sp = inp["spec"]
        fn = {"get": get_form_case, "group": group_form_case, "tensor": tensor_form_case, "count": count_form_case}[sp["kind"]]
        return fresh(fn(nap, sp)[0])
    if "num_bins" in inp:
        return fresh(warp_case(nap, ts, inp.get("ts2", ts), [tuple(x) for x in inp["ep"]], inp["num_bins"], (v.get("key") or {}).get("lattice", "replay"), form=inp.get("form")))
    if "supkind" in inp:
        return fresh(class_case(nap, ts, inp["a"], inp["b"], inp["supkind"]) or [])
    x = nap.Tsd(G.arr(ts), np.arange(len(ts)) + 100)
    if "a" in inp:
        a, b = inp["a"], inp["b"]
        r = x.get(a / 1e9, b / 1e9)
        got = [int(q) - 100 for q in r.values]
        exp = [i for i, t in enumerate(ts) if a <= t <= b]
        print("ts", ts, "window", a, b, "impl", got, "expected", exp, "support before", _sup(x), "after", _sup(r))
        return 0 if got == exp and _sup(r) == _sup(x) else 1
    print("trial replay input:", inp)
    return 1

# --- Glue layer (DESIGN.md 10.11): the Python between the API and the kernels, tied by proof in Properties/C08c.v; this is the
# executable tie of its trusted parts (translator tools/py2glue.py + primitive semantics Glue/Interp.v): the TRANSLATED term run by the
# extracted evaluator (ocaml/gluedriver) against the REAL routine of pynapple on the same inputs (harness/gluecmp.py).
import gluecmp  # noqa: E402

DRIVERS = list(globals().get("DRIVERS", ["driver"])) + ["gluedriver"]
GLUE_ROUTINES = ['_Base.get_slice', '_Base._get_slice']
_run_without_glue = run


def run(res, tier, seed):
    _run_without_glue(res, tier, seed)
    gluecmp.check(res, GLUE_ROUTINES, tier, seed)
    res.rule += (" | composition (C08_get_get, C08_get_commute_idempotent, C08_get_is_restrict): on every class case with a non-empty window, a second window between two sample instants "
                 "taken from the result / taken first, the same window twice, and restrict(IntervalSet(start, end)) when start < end, all compared with the filter by the intersected range")
    res.rule += (" | glue: for each of %s the translated Glue.Lang term (coq/Gen/Glue.v) is evaluated by the extracted Glue/Interp.v and compared with the "
                 "real pynapple routine on canonical sets of a dyadic lattice (incl. negative times, empty, touching, duplicates, unsorted/improper "
                 "constructor input, thresholds equal to a length or gap); exceptions must match the model's error kind" % ", ".join(GLUE_ROUTINES))
