"""C08 time-window slicing and trial tensors select exactly the windowed samples."""
import itertools
import random
import warnings

import numpy as np

import common as C
import gen as G

LEVEL = "proof"
TRUSTED = ["model: coq/Model/Slice.v (searchsorted as counts, get_range, get_closest, trial_rows, padding, trial_count_rows) over Model/Count.v; theorems: Proofs/SliceProofs.v",
           "np.searchsorted's contract on a sorted array (left = #{t < v}, right = #{t <= v}) is NumPy's"]
ASSUMPTIONS = ["a series whose timestamps all coincide (zero span) and that has no explicit time support gets an EMPTY default support: recorded as a known finding for get() / "
               "Ts.get(start); such series are generated (and pass) with an explicit support and in the trial tensors",
               "warp_tensor for timestamps: PROVED equal to num_bins equal bins when num_bins divides the trial duration in ticks and refuted otherwise (the bin size is rounded "
               "to 1 ns and accumulated); CHECKED against exact rational equal half-open bins in both cases (a sample at the trial end is in no bin, as in count)",
               "time support unchanged: proved for a non-empty selection, refuted for an empty one (the constructor drops an explicit support of an empty series); checked for every window"]

U = 1953125


def _nap():
    import pynapple as nap
    return nap


def _sup(x):
    return [(C.to_ns(s), C.to_ns(e)) for s, e in x.time_support.values]


def _vals(n, k, dtype=float):
    """(n, k) values: cell c of row i = i + 100*(c+1): every cell identifies its sample"""
    return (np.arange(n)[:, None] + 100 * (np.arange(k)[None, :] + 1)).astype(dtype)


def _eqnan(a, b):
    a, b = np.asarray(a, dtype=float), np.asarray(b, dtype=float)
    return a.shape == b.shape and np.array_equal(a, b, equal_nan=True)


def _pad(rows, w, pad, align_end):
    return [([pad] * (w - len(r)) + list(r)) if align_end else (list(r) + [pad] * (w - len(r))) for r in rows]


UNITS = (("s", 1e9), ("ms", 1e6), ("us", 1e3))


def class_case(nap, ts_all, a, b, supkind):
    """get / get_slice / get(start) on Ts, Tsd, TsdFrame, TsdTensor and TsGroup, default / explicit / multi-interval support, 3 units.
    Returns the list of violations."""
    V = []
    lo, hi = min(ts_all), max(ts_all)
    if supkind == "default":
        sup, supo = None, None
    elif supkind == "wide":
        sup = [(lo - 3 * U, hi + 5 * U)]
    else:   # two intervals cutting the lattice (samples in the gap are not part of the series)
        sup = [(lo - 3 * U, lo + 2 * U), (lo + 5 * U, hi + 5 * U)] if hi - lo >= 6 * U else [(lo - 3 * U, lo - U), (lo - U // 2, hi + 5 * U)]
    if sup is not None:
        supo = nap.IntervalSet(G.arr([u for u, _ in sup]), G.arr([w for _, w in sup]))
    ts = [t for t in ts_all if sup is None or G.mem(t, sup)]
    if not ts:
        return None
    n = len(ts)
    vals = {"Ts": None, "Tsd": _vals(n, 1, np.int64)[:, 0], "TsdFrame": _vals(n, 2), "TsdTensor": _vals(n, 4).reshape(n, 2, 2)}
    objs = {"Ts": nap.Ts(G.arr(ts_all), time_support=supo), "Tsd": nap.Tsd(G.arr(ts), vals["Tsd"], time_support=supo),
            "TsdFrame": nap.TsdFrame(G.arr(ts), vals["TsdFrame"], time_support=supo, columns=["a", "b"]),
            "TsdTensor": nap.TsdTensor(G.arr(ts), vals["TsdTensor"], time_support=supo)}
    # the finding recorded for get(): all timestamps coincide AND the support is the (then empty) default one
    zs = bool(ts[0] == ts[-1] and sup is None)
    exp = [i for i, t in enumerate(ts) if a <= t <= b]
    dmin = min(abs(t - a) for t in ts)
    near = [i for i, t in enumerate(ts) if abs(t - a) == dmin]
    base = {"ts": ts_all, "a": a, "b": b, "support": sup, "supkind": supkind}
    for cls, x in objs.items():
        before = _sup(x)
        for units, f in UNITS:
            kk = {"cls": cls, "units": units, "zero_span_series": zs}
            inp = dict(base, cls=cls, units=units)
            try:
                r = x.get(a / f, b / f, time_units=units)
                sl = x.get_slice(a / f, b / f, time_unit=units)
                c = x.get(a / f, time_units=units)
                cs = x.get_slice(a / f, time_unit=units)
            except Exception as ex:
                V.append({"key": dict(kk, op="get", part="exception"), "what": "get/get_slice raised %s: %s" % (type(ex).__name__, str(ex)[:100]), "input": inp})
                continue
            if np.arange(n)[sl].tolist() != exp:
                V.append({"key": dict(kk, op="get_slice", part="samples"), "what": "get_slice does not select exactly the samples with start <= t <= end", "input": inp,
                          "impl": np.arange(n)[sl].tolist(), "expected": exp})
            if type(r) is not type(x) or [C.to_ns(t) for t in r.t] != [ts[i] for i in exp] or (cls != "Ts" and not np.array_equal(r.values, vals[cls][exp])):
                V.append({"key": dict(kk, op="get", part="samples"), "what": "get(start, end) does not return exactly the samples (time and row) with start <= t <= end",
                          "input": inp, "impl": [C.to_ns(t) for t in r.t], "expected": [ts[i] for i in exp]})
            elif _sup(r) != before:
                V.append({"key": dict(kk, op="get", part="support", empty_result=not exp), "what": "get(start, end) changed the time support", "input": inp,
                          "impl": _sup(r), "expected": before})
            if np.arange(n)[cs].tolist() not in [[i] for i in near]:
                V.append({"key": dict(kk, op="get_slice(start)", part="nearest"), "what": "get_slice(start) does not select a sample nearest to start", "input": inp})
            if cls == "Ts":
                okc = type(c) is type(x) and [C.to_ns(t) for t in c.t] in [[ts[i]] for i in near]
            else:
                okc = any(np.array_equal(np.asarray(c), vals[cls][i]) for i in near)
            if not okc:
                V.append({"key": dict(kk, op="get(start)", part="nearest"), "what": "get(start) does not return a sample nearest to start", "input": inp})
    # TsGroup: member-wise, every member
    mem = {2: ts_all, 7: ts_all[:-1] if len(ts_all) > 2 and ts_all[0] != ts_all[-2] else ts_all, 5: ts_all[1:] or ts_all}
    gsup = supo if supo is not None else nap.IntervalSet(-1.0, 1.0)
    gs = sup if sup is not None else [(-10**9, 10**9)]
    g = nap.TsGroup({k: nap.Ts(G.arr(m)) for k, m in mem.items()}, time_support=gsup)
    for units, f in UNITS:
        inp = dict(base, cls="TsGroup", units=units)
        try:
            rg = g.get(a / f, b / f, time_units=units)
            cg = g.get(a / f, time_units=units)
        except Exception as ex:
            V.append({"key": {"op": "TsGroup.get", "part": "exception", "units": units}, "what": "TsGroup.get raised %s: %s" % (type(ex).__name__, str(ex)[:100]), "input": inp})
            continue
        if list(rg.keys()) != sorted(mem) or list(cg.keys()) != sorted(mem) or _sup(rg) != gs or _sup(cg) != gs:
            V.append({"key": {"op": "TsGroup.get", "part": "keys_support", "units": units}, "what": "TsGroup.get lost members or changed the group's support", "input": inp})
            continue
        for k, m in mem.items():
            mm = [t for t in m if G.mem(t, gs)]
            e_ = [t for t in mm if a <= t <= b]
            if [C.to_ns(t) for t in rg[k].t] != e_:
                V.append({"key": {"op": "TsGroup.get", "part": "samples", "units": units}, "what": "TsGroup.get is not member-wise get", "input": dict(inp, member=k)})
            elif _sup(rg[k]) != _sup(g[k]):
                V.append({"key": {"op": "TsGroup.get", "part": "member_support", "units": units, "empty_result": not e_},
                          "what": "TsGroup.get changed a member's time support", "input": dict(inp, member=k), "impl": _sup(rg[k]), "expected": _sup(g[k])})
            if mm:
                d_ = min(abs(t - a) for t in mm)
                if [C.to_ns(t) for t in cg[k].t] not in [[t] for t in mm if abs(t - a) == d_]:
                    V.append({"key": {"op": "TsGroup.get(start)", "part": "nearest", "units": units}, "what": "TsGroup.get(start) is not the member's nearest sample",
                              "input": dict(inp, member=k)})
    return V


def warp_expect(ts, ep, nb):
    """num_bins EQUAL bins per trial, half-open as count's bins are: bin j of trial [s, e] = {t : s + j(e-s)/nb <= t < s + (j+1)(e-s)/nb}, exact rationals"""
    return [[sum(1 for t in ts if s <= t <= e and j * (e - s) <= nb * (t - s) < (j + 1) * (e - s)) for j in range(nb)] for s, e in ep]


def warp_case(nap, ts, ts2, ep, nb, kind):
    """warp_tensor on a Ts and on a TsGroup of two members; returns the list of violations"""
    V = []
    epo = nap.IntervalSet(G.arr([s for s, _ in ep]), G.arr([e for _, e in ep]))
    inp = {"ts": ts, "ts2": ts2, "ep": ep, "num_bins": nb}
    lo, hi = min(ts + ts2 + [s for s, _ in ep]), max(ts + ts2 + [e for _, e in ep])
    wide = nap.IntervalSet(lo / 1e9 - 1.0, hi / 1e9 + 1.0)
    p = nap.Ts(G.arr(ts), time_support=wide)
    g = nap.TsGroup({1: nap.Ts(G.arr(ts)), 3: nap.Ts(G.arr(ts2))}, time_support=wide)
    e1, e2 = warp_expect(ts, ep, nb), warp_expect(ts2, ep, nb)
    for what, obj, expw in (("Ts", p, e1), ("TsGroup", g, [e1, e2])):
        # bin_is_whole_ns: every trial whose row is wrong (every trial, for an exception) has a duration that num_bins divides in ns
        try:
            W = np.asarray(nap.warp_tensor(obj, epo, nb))
        except Exception as ex:
            V.append({"key": {"op": "warp_tensor", "part": "exception", "input_kind": what, "lattice": kind, "bin_is_whole_ns": all((e - s) % nb == 0 for s, e in ep)},
                      "what": "warp_tensor raised %s: %s" % (type(ex).__name__, str(ex)[:100]), "input": inp})
            continue
        E = np.asarray(expw, dtype=float)
        if W.shape != E.shape:
            V.append({"key": {"op": "warp_tensor", "part": "shape", "input_kind": what, "lattice": kind}, "what": "warp_tensor shape is not (members,) trials x num_bins", "input": inp})
            continue
        bad = sorted({int(i) for i in np.argwhere(W != E)[:, -2]})
        if bad:
            V.append({"key": {"op": "warp_tensor", "part": "counts", "input_kind": what, "lattice": kind, "bin_is_whole_ns": any((ep[i][1] - ep[i][0]) % nb == 0 for i in bad)},
                      "what": "warp_tensor(timestamps) is not counting in num_bins equal bins per trial", "input": inp, "impl": W.tolist(), "expected": E.tolist(), "trials": bad})
    return V


def run(res, tier, seed):
    nap = _nap()
    warnings.simplefilter("ignore")
    N = 6
    pts = G.lattice(N, step=2 * U)
    half = [i * U for i in range(-2, 2 * N + 2)]
    nmax = 4 if tier == "quick" else 5
    res.rule = ("get/get_slice/get(start): ALL sorted multisets of <=%d timestamps on a 6-point dyadic lattice (duplicates incl., at window edges) x ALL windows (a <= b) on the half-lattice "
                "incl. before/after/inside/covering the data, a == b, edges on samples [complete in thorough, seeded subsample in quick] on an int Tsd with its default support: samples, "
                "result timestamps and the time support (ALWAYS compared, also for an empty result); zero-span series counted separately. Random cases: Ts/Tsd/TsdFrame/TsdTensor/TsGroup x "
                "{default, explicit, two-interval} support x 3 units for get, get_slice, get(start), get_slice(start): every row, every group member, supports of result and members. "
                "Trial tensors: Tsd float/int, TsdFrame, TsdTensor (zero-span series included), 3 padding values incl. NaN, build_tensor for Tsd-likes, Ts and TsGroup, trial_count in 3 units, "
                "every TsGroup member; warp_tensor (Ts and TsGroup) with num_bins in 1..7,30 dividing or NOT the trial durations, samples on the exact bin edges, dyadic and millisecond "
                "lattices, against exact rational equal bins. non-trivial = window cuts the data (0 < selected < n)" % nmax)
    res.exhaustive = tier == "thorough"
    rng = random.Random(seed * 5 + 1)
    tss = [ts for ts in G.sorted_multisets(pts, nmax) if len(ts) >= 1]
    wins = [(a, b) for a in half for b in half if a <= b]
    cases = [(ts, a, b) for ts in tss for (a, b) in wins]
    if tier == "quick":
        cases = rng.sample(cases, 12000)
    offs = [0, -6 * U, -1000 * U]
    cases = [([t + offs[n % 3] for t in ts], a + offs[n % 3], b + offs[n % 3]) for n, (ts, a, b) in enumerate(cases)]
    lines = []
    for ts, a, b in cases:
        lines.append("get_range\t%d\t%d\t%s" % (a, b, C.fmt_ints(ts)))
        lines.append("get_closest\t%d\t%s" % (a, C.fmt_ints(ts)))
    out = C.run_model(lines)
    objs = {}
    for n, (ts, a, b) in enumerate(cases):
        key = tuple(ts)
        zero_span = ts[0] == ts[-1]
        if key not in objs:
            o_ = nap.Tsd(G.arr(ts), np.arange(len(ts)) + 100)
            objs[key] = (o_, _sup(o_))
        x, before = objs[key]
        inp = {"ts": ts, "a": a, "b": b}
        exp = [i for i, t in enumerate(ts) if a <= t <= b]
        res.case((key, a, b), nontrivial=0 < len(exp) < len(ts))
        kk = {"zero_span_series": bool(zero_span)}
        try:
            r = x.get(a / 1e9, b / 1e9)
            got = [int(v) - 100 for v in r.values]
            sl = x.get_slice(a / 1e9, b / 1e9)
            got_sl = [int(v) - 100 for v in x.values[sl]]
        except Exception as ex:
            res.violations.append({"key": dict(kk, op="get", part="exception"), "what": "get raised " + type(ex).__name__, "input": inp})
            continue
        if got_sl != exp:
            res.violations.append({"key": dict(kk, op="get_slice", part="samples"), "what": "get_slice does not select exactly the samples with start <= t <= end", "input": inp,
                                   "impl": got_sl, "expected": exp})
        elif got != exp or [C.to_ns(t) for t in r.t] != [ts[i] for i in exp]:
            res.violations.append({"key": dict(kk, op="get", part="samples"), "what": "get(start, end) does not return exactly the samples with start <= t <= end", "input": inp,
                                   "impl": got, "expected": exp})
        elif _sup(r) != before:
            # "time support unchanged": compared for EVERY window, also when nothing is selected
            res.violations.append({"key": dict(kk, op="get", part="support", empty_result=not exp, cls="Tsd"), "what": "get(start, end) changed the time support", "input": inp,
                                   "impl": _sup(r), "expected": before})
        m = [int(v) for v in out[2 * n].split()]
        if (sl.start, sl.stop) != (m[0], m[1]) and not (sl.stop <= sl.start and m[1] <= m[0]):
            res.disagreements.append({"op": "get_slice", "input": inp, "impl": [sl.start, sl.stop], "model": m})
        # closest
        c = x.get(a / 1e9)
        dmin = min(abs(t - a) for t in ts)
        cm = int(out[2 * n + 1])
        ci = int(c) - 100
        if abs(ts[ci] - a) != dmin:
            res.violations.append({"key": dict(kk, op="get(start)", part="nearest"), "what": "get(start) does not return a sample nearest to start", "input": inp, "impl": ci})
        if ci != cm:
            res.disagreements.append({"op": "get_closest", "input": inp, "impl": ci, "model": cm})
        if n % 3001 == 0:
            res.sample({"ts": ts, "window": [a, b], "slice": [sl.start, sl.stop], "closest_index": ci})
    # every class, 3 kinds of support, 3 units, TsGroup member-wise
    for n in range(120 if tier == "quick" else 1500):
        ts = rng.choice(tss)
        a, b = rng.choice(wins)
        supkind = ("default", "wide", "multi")[n % 3]
        v = class_case(nap, ts, a, b, supkind)
        if v is None:
            res.count("class_case_empty_series_skipped")
            continue
        res.evaluations += 1
        res.count("class_cases support=" + supkind)
        if ts[0] == ts[-1]:
            res.count("class_cases zero_span")
        res.violations.extend(v)
    # trial tensors
    trial_sets = [e for e in G.canonical_isets(G.lattice(7, step=2 * U), 3) if e]
    pads = [-1.0, float("nan"), 7.5]
    tlines, tcases = [], []
    for _ in range(300 if tier == "quick" else 4000):
        ts = rng.choice(tss)
        ep = rng.choice(trial_sets)
        align_end = rng.random() < 0.5
        b = rng.choice([2 * U, 4 * U, 6 * U])
        tcases.append((ts, ep, align_end, b))
        tlines.append("trial_tensor\t%d\t%s\t%s\t%s" % (1 if align_end else 0, C.fmt_ints(ts), C.fmt_ints([i + 100 for i in range(len(ts))]), C.fmt_iset(ep)))
        tlines.append("trial_count\t%s\t%s\t%d" % (C.fmt_ints(ts), C.fmt_iset(ep), b))
    tout = C.run_model(tlines) if tlines else []
    for n, (ts, ep, align_end, b) in enumerate(tcases):
        al = "end" if align_end else "start"
        pad = pads[n % 3]
        inp = {"ts": ts, "ep": ep, "align": al, "bin": b, "padding_value": pad}
        epo = nap.IntervalSet(G.arr([s for s, _ in ep]), G.arr([e for _, e in ep]))
        nn = len(ts)
        res.evaluations += 1
        res.count("trial_cases")
        if ts[0] == ts[-1]:
            res.count("trial_zero_span_series")
        if any(not any(s <= t <= e for t in ts) for s, e in ep):
            res.count("trial_with_no_sample")
        idx = [[i for i, t in enumerate(ts) if s <= t <= e] for s, e in ep]
        w = max(len(r) for r in idx)
        srcs = {"Tsd_float": (1, float, lambda v: nap.Tsd(G.arr(ts), v[:, 0])), "Tsd_int": (1, np.int64, lambda v: nap.Tsd(G.arr(ts), v[:, 0])),
                "TsdFrame": (2, float, lambda v: nap.TsdFrame(G.arr(ts), v)), "TsdTensor": (4, float, lambda v: nap.TsdTensor(G.arr(ts), v.reshape(nn, 2, 2)))}
        for cls, (kc, dt, mk) in srcs.items():
            vals = _vals(nn, kc, dt)
            x = mk(vals)
            # expected: cell c -> trials x w (time last), the class's trailing shape first
            E = np.array([_pad([[float(vals[i, c]) for i in r] for r in idx], w, pad, align_end) for c in range(kc)], dtype=float).reshape(x.values.shape[1:] + (len(ep), w))
            for fn, call in (("to_trial_tensor", lambda: x.to_trial_tensor(epo, align=al, padding_value=pad)),
                             ("build_tensor", lambda: nap.build_tensor(x, epo, align=al, padding_value=pad))):
                try:
                    T = call()
                except Exception as ex:
                    res.violations.append({"key": {"op": fn, "part": "exception", "align": al, "cls": cls}, "what": "%s raised %s: %s" % (fn, type(ex).__name__, str(ex)[:100]),
                                           "input": inp})
                    continue
                if not _eqnan(T, E):
                    res.violations.append({"key": {"op": fn, "part": "rows", "align": al, "cls": cls}, "what": "trial tensor row is not that trial's samples, aligned and padded",
                                           "input": inp, "impl": np.asarray(T).tolist(), "expected": E.tolist()})
        exp = _pad([[i + 100 for i in r] for r in idx], w, -1, align_end)
        mod = [[int(v) for v in r.split()] for r in tout[2 * n].split("|")] if tout[2 * n] != "" else [[] for _ in ep]
        if mod != exp and not (w == 0):
            res.disagreements.append({"op": "to_trial_tensor", "input": inp, "model": mod, "expected": exp})
        # trial_count = per-trial binned counts (count's bins: half-open, kept when the bin centre lies in the trial)
        mem = {1: ts, 3: ts[::2], 8: ts[1:] or ts}

        def crows(tt):
            out_ = []
            for s, e in ep:
                row, l = [], s
                while 2 * l + b <= 2 * e:
                    row.append(sum(1 for t in tt if s <= t <= e and l <= t < l + b))
                    l += b
                out_.append(row)
            return out_
        crow = crows(ts)
        wc = max(len(r) for r in crow)
        EC = {k: np.array(_pad(crows(m), wc, pad, align_end), dtype=float).reshape(len(ep), wc) for k, m in mem.items()}
        modc = [[int(v) for v in r.split()] for r in tout[2 * n + 1].split("|")]
        if modc != crow:
            res.disagreements.append({"op": "trial_count(model vs statement)", "input": inp, "model": modc, "expected": crow})
        p = nap.Ts(G.arr(ts))
        g = nap.TsGroup({k: nap.Ts(G.arr(m)) for k, m in mem.items()}, time_support=nap.IntervalSet(-1.0, 1.0))
        units, f = UNITS[n % 3]
        for fn, call, E in (("trial_count", lambda: p.trial_count(epo, b / f, align=al, padding_value=pad, time_unit=units), EC[1]),
                            ("build_tensor(Ts)", lambda: nap.build_tensor(p, epo, b / f, align=al, padding_value=pad, time_unit=units), EC[1]),
                            ("TsGroup.trial_count", lambda: g.trial_count(epo, b / f, align=al, padding_value=pad, time_unit=units), np.array([EC[k] for k in sorted(mem)])),
                            ("build_tensor(TsGroup)", lambda: nap.build_tensor(g, epo, b / f, align=al, padding_value=pad, time_unit=units), np.array([EC[k] for k in sorted(mem)]))):
            try:
                TC = call()
            except Exception as ex:
                res.violations.append({"key": {"op": fn, "part": "exception", "align": al, "units": units, "no_bin_fits": wc == 0},
                                       "what": "%s raised %s: %s" % (fn, type(ex).__name__, str(ex)[:100]), "input": dict(inp, units=units)})
                continue
            if not _eqnan(TC, E):
                res.violations.append({"key": {"op": fn, "part": "rows", "align": al, "units": units, "no_bin_fits": wc == 0},
                                       "what": "trial_count row is not that trial's (member's) binned count, aligned and padded", "input": dict(inp, units=units),
                                       "impl": np.asarray(TC).tolist(), "expected": E.tolist()})
        # warp_tensor on timestamps: num_bins EQUAL bins per trial, whether or not num_bins divides the durations
        if n % 2 == 0:
            nb = (1, 2, 3, 4, 5, 6, 7)[(n // 2) % 7]
            res.count("warp_cases dyadic")
            if not all((e - s) % nb == 0 for s, e in ep):
                res.count("warp_cases num_bins does not divide")
            res.violations.extend(warp_case(nap, ts, ts[::2], ep, nb, "dyadic"))
    # warp_tensor on a millisecond lattice: samples on the exact bin edges (when whole ns), at the trial ends, and anywhere
    for n in range(150 if tier == "quick" else 2000):
        nb = rng.choice([2, 3, 5, 6, 7, 10, 30])
        # a third of the cases start below 0 (trials before, and straddling, t = 0: seed C08-6 rounded negative times to ns by truncation)
        ep, s = [], (rng.randrange(0, 50) if n % 3 else rng.randrange(-400, 0)) * 10**6
        for _ in range(rng.randint(1, 3)):
            d = rng.randrange(1, 400) * (10**6 if rng.random() < 0.7 else 10**5) * (nb if rng.random() < 0.4 else 1)
            ep.append((s, s + d))
            s += d + rng.randrange(1, 50) * 10**6
        tt = set()
        for s_, e_ in ep:
            edges = [s_ + j * (e_ - s_) // nb for j in range(nb + 1) if (j * (e_ - s_)) % nb == 0]
            tt.update(rng.sample(edges, min(len(edges), 3)))
            tt.update(s_ + rng.randrange(0, (e_ - s_) // 10**5 + 1) * 10**5 for _ in range(3))
        ts = sorted(tt)
        res.evaluations += 1
        res.count("warp_cases ms" + (", trial below or across 0" if ep[0][0] < 0 else ""))
        if not all((e - s) % nb == 0 for s, e in ep):
            res.count("warp_cases num_bins does not divide")
        res.violations.extend(warp_case(nap, ts, ts[1::2] or ts, ep, nb, "ms"))


def search(res, seed):
    r2 = C.Result()
    run(r2, "thorough", seed)
    return r2.violations[0] if r2.violations else None


def replay(payload):
    nap = _nap()
    warnings.simplefilter("ignore")
    v = payload.get("violation") or (payload.get("disagreements") or [{}])[0]
    inp = v.get("input", {})
    ts = inp.get("ts", [0, 1])

    def fresh(vs):
        vs = [w for w in vs if C.match_known("C08", w) is None]
        for w in vs[:5]:
            print("violation:", w["key"], w["what"], {k: w[k] for k in ("impl", "expected") if k in w})
        return 1 if vs else 0
    if "num_bins" in inp:
        return fresh(warp_case(nap, ts, inp.get("ts2", ts), [tuple(x) for x in inp["ep"]], inp["num_bins"], (v.get("key") or {}).get("lattice", "replay")))
    if "supkind" in inp:
        return fresh(class_case(nap, ts, inp["a"], inp["b"], inp["supkind"]) or [])
    x = nap.Tsd(G.arr(ts), np.arange(len(ts)) + 100)
    if "a" in inp:
        a, b = inp["a"], inp["b"]
        r = x.get(a / 1e9, b / 1e9)
        got = [int(q) - 100 for q in r.values]
        exp = [i for i, t in enumerate(ts) if a <= t <= b]
        print("ts", ts, "window", a, b, "impl", got, "expected", exp, "support before", _sup(x), "after", _sup(r))
        return 0 if got == exp and _sup(r) == _sup(x) else 1
    print("trial replay input:", inp)
    return 1

# --- Glue layer (DESIGN.md 10.11): the Python between the API and the kernels, tied by proof in Properties/C08c.v; this is the
# executable tie of its trusted parts (translator tools/py2glue.py + primitive semantics Glue/Interp.v): the TRANSLATED term run by the
# extracted evaluator (ocaml/gluedriver) against the REAL routine of pynapple on the same inputs (harness/gluecmp.py).
import gluecmp  # noqa: E402

DRIVERS = list(globals().get("DRIVERS", ["driver"])) + ["gluedriver"]
GLUE_ROUTINES = ['_Base.get_slice', '_Base._get_slice']
_run_without_glue = run


def run(res, tier, seed):
    _run_without_glue(res, tier, seed)
    gluecmp.check(res, GLUE_ROUTINES, tier, seed)
    res.rule += (" | glue: for each of %s the translated Glue.Lang term (coq/Gen/Glue.v) is evaluated by the extracted Glue/Interp.v and compared with the "
                 "real pynapple routine on canonical sets of a dyadic lattice (incl. negative times, empty, touching, duplicates, unsorted/improper "
                 "constructor input, thresholds equal to a length or gap); exceptions must match the model's error kind" % ", ".join(GLUE_ROUTINES))
