"""C14 NumPy functions on time series compute what NumPy computes, time axis intact (partial: NumPy's own numerics)."""
import itertools
import random
import warnings

import numpy as np

import common as C
import gen as G

LEVEL = "proof"
DRIVERS = ["driver_c14"]
TRUSTED = ["model: coq/Model/NpWrap.v (construct, init_out = _initialize_tsd_output, array_ufunc, array_function, mixed_ufunc, concat_tsd incl. _check_time_equals, "
           "split_tsd incl. np.split/np.array_split division points, split_tsd_axis = the literal `axis == 0` dispatch (not extracted: stated and refuted in Coq only), split_other) "
           "over Model/Restrict.v and Model/Iset.v; theorems: Proofs/NpWrapProofs.v",
           "follows /repo as repaired: 0-d results passed through, multi-output ufuncs wrapped per output (array_ufunc_multi), np.array_split divides the index with np.array_split",
           "PARTIAL: what a NumPy function computes is a parameter of every wrapper theorem (Section variable f with the single law 'an array result fills its shape'); "
           "the commuting diagram values(wrap f x) = f(values x) is proved of the model and tied to /repo by exact comparison with the same NumPy call on the raw array",
           "NumPy's contracts transcribed in the model: row-major concatenate along axis 0 (cat0), np.split/np.array_split division points, np.allclose broadcasting (1-d)"]
ASSUMPTIONS = ["operands are well-formed time series (sorted timestamps inside a canonical support; an empty series has the empty support) built with an explicit time_support",
               "concatenation, theorem side: 'all timestamps lie in the union of the supports' is a visible hypothesis of C14_concat_time (IntervalSet.union trims touching intervals by 1 us); "
               "proved for two operands whose timestamps are farther than 1 us from every support endpoint (C14_concat_support_two) and for any number of operands none of whose timestamps "
               "lies in the closed microsecond [p - 1 us, p] before a START p of an operand's support (C14_concat_support_all); the three-operand gap the pairwise fold leaves is "
               "C14_concat_fold_union_refuted, the 1 ns time-axis equality is C14_concat_time_equal_1ns_refuted",
               "concatenation, oracle side: NO tolerance - the result support must be the exact union of the operands' supports except for the open microsecond (p - 1 us, p) before a point p "
               "where two merged components touch (C01's statement), and every row must be present unless its timestamp lies in such a microsecond (recorded finding)",
               "np.allclose(atol=1e-9) of _check_time_equals is modelled as |a - b| <= 1 tick; for values exactly 1 ns apart the float comparison is decided by rounding: those cases are "
               "counted float_ambiguous in the model comparison (the statement-level oracle still judges them: a time series result must carry every operand's time axis exactly)",
               "split: the model's split_tsd is the `axis == 0` branch; the negative spelling of the time axis (axis=-ndim) and the keyword spelling (ary=) are judged by the oracle only "
               "(C14_split_negative_axis_refuted records what the code's literal test does)",
               "not modelled: in-place operators / out= holding a time series (the implementation recurses), kwargs holding time series, TsdFrame metadata (C13), negative split indices, jax backend"]

U = 1953125  # 2^-9 s in ticks


def _nap():
    import pynapple as nap
    return nap


# ------------------------------------------------------------------------------------------------
# objects
def mk(nap, shape, t0=0, sup=None, dtype=float, base=1, cols_base=10, ticks=None):
    """time series of the class given by the rank of `shape`; times t0 + 2U*i (or `ticks`); distinct small integer cells"""
    n = shape[0]
    ticks = [t0 + 2 * U * i for i in range(n)] if ticks is None else ticks
    if sup is None:
        sup = [(t0 - U, t0 + 4 * U + 1000), (t0 + 6 * U - 1000, t0 + 2 * U * max(n, 5) + U)]
    d = (np.arange(int(np.prod(shape))) + base).reshape(shape).astype(dtype)
    ep = nap.IntervalSet(G.arr([s for s, _ in sup]), G.arr([e for _, e in sup]))
    if len(shape) == 1:
        return nap.Tsd(G.arr(ticks), d, time_support=ep)
    if len(shape) == 2:
        return nap.TsdFrame(G.arr(ticks), d, time_support=ep, columns=[cols_base + j for j in range(shape[1])])
    return nap.TsdTensor(G.arr(ticks), d, time_support=ep)


def is_nap(nap, r):
    return isinstance(r, (nap.Tsd, nap.TsdFrame, nap.TsdTensor))


def klass(nap, r):
    return 0 if isinstance(r, nap.Tsd) else 1 if isinstance(r, nap.TsdFrame) else 2


def ticks_of(r):
    return [C.to_ns(v) for v in r.t]


def sup_of(r):
    return [(C.to_ns(s), C.to_ns(e)) for s, e in r.time_support.values]


def cols_of(nap, r):
    return [int(c) for c in r.columns] if isinstance(r, nap.TsdFrame) else []


def ts6(nap, x):
    """the 6 driver args of an operand"""
    if is_nap(nap, x):
        v = np.asarray(x.values)
        return "\t".join([str(klass(nap, x)), C.fmt_ints(ticks_of(x)), C.fmt_iset(sup_of(x)), C.fmt_ints(v.shape),
                          C.fmt_ints(v.ravel()), C.fmt_ints(cols_of(nap, x))])
    v = np.asarray(x)
    return "\t".join(["9", "", "", C.fmt_ints(v.shape), C.fmt_ints(v.ravel()), ""])


def npres_arg(exp):
    if isinstance(exp, np.ndarray):
        return "1 " + C.fmt_ints(exp.shape) if exp.ndim else "1"
    return "0"


def same_values(a, b):
    """exact equality of what NumPy computed: same structure, shape, dtype and bits (NaN == NaN)"""
    if isinstance(b, (tuple, list)):
        return isinstance(a, type(b)) and len(a) == len(b) and all(same_values(p, q) for p, q in zip(a, b))
    a = np.asarray(a)
    b = np.asarray(b)
    if a.shape != b.shape or a.dtype != b.dtype:
        return False
    if a.dtype.kind in "fc":
        return bool(np.array_equal(a, b, equal_nan=True))
    return bool(np.array_equal(a, b))


def raw(nap, r):
    if is_nap(nap, r):
        return np.asarray(r.values)
    if isinstance(r, (tuple, list)):
        return type(r)(raw(nap, q) for q in r)
    return r


def call(f, *a):
    try:
        with np.errstate(all="ignore"):
            return ("ok", f(*a))
    except RecursionError:
        return ("exc", "RecursionError")
    except Exception as ex:  # noqa: BLE001
        return ("exc", type(ex).__name__)


ERRMAP = {"AssertLen": "AssertionError", "AssertDim": "AssertionError", "RuntimeDim": "RuntimeError",
          "RuntimeOrder": "RuntimeError", "ValueSplit": "ValueError", "ValueBroadcast": "ValueError"}


def parse_out(s):
    """model verdict -> dict"""
    s = s.strip()
    if s.startswith("TS "):
        k, t, sup, shape, cells, cols = s[3:].split("|")
        sp = [int(v) for v in sup.split()]
        return {"kind": "TS", "k": int(k), "t": [int(v) for v in t.split()], "sup": list(zip(sp[0::2], sp[1::2])),
                "shape": tuple(int(v) for v in shape.split()), "cells": [int(v) for v in cells.split()], "cols": [int(v) for v in cols.split()]}
    if s.startswith("ARR "):
        shape, cells = s[4:].split("|")
        return {"kind": "ARR", "shape": tuple(int(v) for v in shape.split()), "cells": [int(v) for v in cells.split()]}
    if s.startswith("ERR "):
        return {"kind": "ERR", "err": s[4:]}
    return {"kind": s}


def agree(nap, m, got, cells_expected=None):
    """does the implementation's outcome `got` = ("ok", r) | ("exc", name) match the model verdict m? returns None or a reason"""
    if m["kind"] == "REFUSED":
        return None if got == ("exc", "TypeError") else "model: refused (TypeError)"
    if m["kind"] == "ERR":
        return None if got == ("exc", ERRMAP.get(m["err"], "?")) else "model: raises " + ERRMAP.get(m["err"], m["err"])
    if got[0] != "ok":
        return "implementation raised %s, model returns %s" % (got[1], m["kind"])
    r = got[1]
    if m["kind"] == "OTHER":
        return None if (not is_nap(nap, r) and not isinstance(r, np.ndarray)) else "model: not array-like result passed through"
    if m["kind"] == "ARR":
        if is_nap(nap, r) or not isinstance(r, np.ndarray):
            return "model: raw ndarray"
        if r.shape != m["shape"]:
            return "model: raw ndarray of shape %s" % (m["shape"],)
        return None
    if m["kind"] == "TS":
        if not is_nap(nap, r):
            return "model: time series"
        if klass(nap, r) != m["k"] or ticks_of(r) != m["t"] or sup_of(r) != m["sup"] or tuple(r.values.shape) != m["shape"]:
            return "model: class %d t %s sup %s shape %s" % (m["k"], m["t"], m["sup"], m["shape"])
        if m["k"] == 1 and cols_of(nap, r) != m["cols"]:
            return "model: columns %s" % m["cols"]
        if cells_expected is not None and m["cells"] != cells_expected:
            return "model cells differ from NumPy's"
        return None
    return "unparsed model verdict"


# ------------------------------------------------------------------------------------------------
# function table: (name, tag, f(X, o), other-operand builder or None)
def M(nap, X, name, *a, **k):
    """method form on a time series, function form on the raw array"""
    return getattr(X, name)(*a, **k) if is_nap(nap, X) else getattr(np, name)(X, *a, **k)


def others(shape, dtype):
    """operand kinds for binary functions, built from x's shape"""
    size = int(np.prod(shape))
    out = {"scalar": dtype(2), "array": (np.arange(size).reshape(shape) % 3 + 1).astype(dtype),
           # a plain Python number (NumPy 2 treats it as a weak scalar: the result keeps x's dtype, and wraps for small integer dtypes)
           "pyscalar": 100 if np.dtype(dtype).kind in "iu" else 1.5}
    if len(shape) >= 2:
        out["row"] = (np.arange(int(np.prod(shape[1:]))).reshape(shape[1:]) + 1).astype(dtype)       # broadcast along time
        out["col"] = (np.arange(shape[0]).reshape((shape[0],) + (1,) * (len(shape) - 1)) + 1).astype(dtype)
    out["higher"] = (np.arange(2 * size).reshape((2,) + tuple(shape)) + 1).astype(dtype)             # rank + 1, leading axis 2
    return out


def table(nap):
    T = []

    def add(name, tag, f, operand=None, dtype=float):
        T.append((name, tag, f, operand, dtype))
    # unary ufuncs (element-wise)
    for u in ["negative", "positive", "absolute", "fabs", "exp", "exp2", "log", "log1p", "sqrt", "cbrt", "square", "reciprocal", "sin", "tanh",
              "sign", "floor", "ceil", "rint", "isnan", "isfinite", "signbit", "logical_not"]:
        add(u, "ew", (lambda X, o, u=u: getattr(np, u)(X)))
    add("invert", "ew", lambda X, o: np.invert(X), dtype=np.int64)
    for u in ["modf", "frexp"]:
        add(u, "ew_multi", (lambda X, o, u=u: getattr(np, u)(X)))
    # binary ufuncs, every operand kind, both operand orders
    for u in ["add", "subtract", "multiply", "true_divide", "floor_divide", "power", "maximum", "minimum", "fmod", "mod", "hypot", "arctan2",
              "copysign", "greater", "less_equal", "equal", "not_equal", "logical_and"]:
        for kind in ["scalar", "array", "row", "col", "higher"]:
            add(u, "ew", (lambda X, o, u=u: getattr(np, u)(X, o)), kind)
        add(u + ":r", "ew", (lambda X, o, u=u: getattr(np, u)(o, X)), "array")
    for u in ["bitwise_and", "left_shift", "gcd"]:
        for kind in ["scalar", "array"]:
            add(u, "ew", (lambda X, o, u=u: getattr(np, u)(X, o)), kind, np.int64)
    for kind in ["scalar", "array", "row"]:
        add("divmod", "ew_multi", lambda X, o: np.divmod(X, o), kind)
    add("opdivmod", "ew_multi", lambda X, o: divmod(X, o), "scalar")
    add("divmod:r", "ew_multi", lambda X, o: np.divmod(o, X), "array")
    # operators
    ops = {"neg": lambda X, o: -X, "abs": lambda X, o: abs(X), "+": lambda X, o: X + o, "r+": lambda X, o: o + X, "-": lambda X, o: X - o, "r-": lambda X, o: o - X,
           "*": lambda X, o: X * o, "/": lambda X, o: X / o, "r/": lambda X, o: o / X, "//": lambda X, o: X // o, "**": lambda X, o: X ** o, "%": lambda X, o: X % o,
           "<": lambda X, o: X < o, "<=": lambda X, o: X <= o, ">": lambda X, o: X > o, ">=": lambda X, o: X >= o, "==": lambda X, o: X == o, "!=": lambda X, o: X != o}
    for name, f in ops.items():
        if name in ("neg", "abs"):
            add("op" + name, "ew", f)
        else:
            for kind in ["scalar", "array"]:
                add("op" + name, "ew", f, kind)
    # non-default dtypes with a plain Python scalar operand (seed C14-6: operands passed through np.asarray lose their weak-scalar status)
    for dt in (np.uint8, np.int16, np.float32, np.int64, float):
        for name in ("+", "r-", "*", "<"):
            add("op" + name + "@" + np.dtype(dt).name, "ew", ops[name], "pyscalar", dt)
        for u in ("add", "multiply", "maximum"):
            add(u + "@" + np.dtype(dt).name, "ew", (lambda X, o, u=u: getattr(np, u)(X, o)), "pyscalar", dt)
        add("subtract:r@" + np.dtype(dt).name, "ew", lambda X, o: np.subtract(o, X), "pyscalar", dt)
    add("left_shift@uint8", "ew", lambda X, o: np.left_shift(X, 1), None, np.uint8)
    add("op&", "ew", lambda X, o: X & o, "array", np.int64)
    add("op~", "ew", lambda X, o: ~X, None, np.int64)
    add("op@", "plain", lambda X, o: X @ o, "matvec")
    add("matmul", "plain", lambda X, o: np.matmul(X, o), "matvec")
    add("dot", "plain", lambda X, o: np.dot(X, o), "matvec")
    # reductions over every axis, function and method forms
    for r in ["sum", "mean", "std", "var", "min", "max", "prod", "median", "nansum", "nanmean", "argmax", "argmin", "any", "all", "ptp", "count_nonzero"]:
        for ax in [None, 0, 1, 2, -1]:
            add("%s(axis=%s)" % (r, ax), "plain", (lambda X, o, r=r, ax=ax: getattr(np, r)(X, axis=ax)))
    for r in ["sum", "mean", "max", "std", "argmax", "any"]:
        for ax in [None, 0, 1]:
            add("x.%s(axis=%s)" % (r, ax), "plain", (lambda X, o, r=r, ax=ax: M(nap, X, r, axis=ax)))
    for ax in [0, 1]:
        add("sum(axis=%d,keepdims)" % ax, "plain", (lambda X, o, ax=ax: np.sum(X, axis=ax, keepdims=True)))
    add("percentile(50,axis=0)", "plain", lambda X, o: np.percentile(X, 50, axis=0))
    add("quantile([.25,.75],axis=0)", "plain", lambda X, o: np.quantile(X, [0.25, 0.75], axis=0))
    add("average(axis=0)", "plain", lambda X, o: np.average(X, axis=0))
    # cumulative
    for c in ["cumsum", "cumprod", "nancumsum"]:
        for ax in [None, 0, 1]:
            add("%s(axis=%s)" % (c, ax), "plain", (lambda X, o, c=c, ax=ax: getattr(np, c)(X, axis=ax)))
    add("x.cumsum(axis=0)", "plain", lambda X, o: M(nap, X, "cumsum", axis=0))
    for ax in [0, -1]:
        add("diff(axis=%d)" % ax, "plain", (lambda X, o, ax=ax: np.diff(X, axis=ax)))
    add("gradient(axis=0)", "plain", lambda X, o: np.gradient(X, axis=0))
    # reshaping / indexing
    add("reshape(-1)", "plain", lambda X, o: np.reshape(X, (-1,)))
    add("reshape(n,-1)", "plain", lambda X, o: np.reshape(X, (X.shape[0], -1)) if X.shape[0] else np.reshape(X, (0, 1)))
    add("reshape(-1,1)", "plain", lambda X, o: np.reshape(X, (-1, 1)))
    add("x.reshape(same)", "plain", lambda X, o: M(nap, X, "reshape", X.shape))
    add("ravel", "plain", lambda X, o: np.ravel(X))
    add("transpose", "plain", lambda X, o: np.transpose(X))
    add("x.transpose()", "plain", lambda X, o: M(nap, X, "transpose"))
    add("swapaxes(0,-1)", "plain", lambda X, o: np.swapaxes(X, 0, -1))
    add("moveaxis(0,-1)", "plain", lambda X, o: np.moveaxis(X, 0, -1))
    add("squeeze", "plain", lambda X, o: np.squeeze(X))
    add("x.squeeze()", "plain", lambda X, o: M(nap, X, "squeeze"))
    for ax in [0, 1, -1]:
        add("expand_dims(%d)" % ax, "plain", (lambda X, o, ax=ax: np.expand_dims(X, ax)))
    add("atleast_2d", "plain", lambda X, o: np.atleast_2d(X))
    add("atleast_3d", "plain", lambda X, o: np.atleast_3d(X))
    for ax in [None, 0, -1]:
        add("flip(%s)" % ax, "plain", (lambda X, o, ax=ax: np.flip(X, ax)))
    add("roll(1,axis=0)", "plain", lambda X, o: np.roll(X, 1, axis=0))
    # permutations of the columns (axis 1): same shape, so labels are kept - the DATA columns move
    add("roll(1,axis=1)", "plain", lambda X, o: np.roll(X, 1, axis=1))
    add("flip(1)", "plain", lambda X, o: np.flip(X, 1))
    add("fliplr", "plain", lambda X, o: np.fliplr(X))
    add("take(reversed,axis=1)", "plain", lambda X, o: np.take(X, list(range(X.shape[1]))[::-1], axis=1))
    add("flipud", "plain", lambda X, o: np.flipud(X))
    for ax in [None, 0, -1]:
        add("repeat(2,%s)" % ax, "plain", (lambda X, o, ax=ax: np.repeat(X, 2, axis=ax)))
    add("tile(2)", "plain", lambda X, o: np.tile(X, 2))
    add("tile((2,1..))", "plain", lambda X, o: np.tile(X, (2,) + (1,) * (X.ndim - 1)))
    add("take([0],axis=0)", "plain", lambda X, o: np.take(X, [0], axis=0))
    add("take(all,axis=0)", "plain", lambda X, o: np.take(X, list(range(X.shape[0]))[::-1], axis=0))
    add("take([0],axis=-1)", "plain", lambda X, o: np.take(X, [0], axis=-1))
    add("take(0)", "plain", lambda X, o: np.take(X, 0))
    add("delete(0,axis=0)", "plain", lambda X, o: np.delete(X, 0, axis=0))
    add("insert(0,7,axis=0)", "plain", lambda X, o: np.insert(X, 0, 7, axis=0))
    add("append(axis=None)", "plain", lambda X, o: np.append(X, 7))
    add("pad(1)", "plain", lambda X, o: np.pad(X, 1))
    add("clip", "ew", lambda X, o: np.clip(X, 2, 4))
    add("x.clip", "ew", lambda X, o: M(nap, X, "clip", 2, 4))
    add("round", "ew", lambda X, o: np.round(X))
    add("x.round()", "ew", lambda X, o: M(nap, X, "round"))
    add("around", "ew", lambda X, o: np.around(X, 1))
    add("nan_to_num", "ew", lambda X, o: np.nan_to_num(X))
    add("copy", "ew", lambda X, o: np.copy(X))
    add("x.copy()", "ew", lambda X, o: M(nap, X, "copy"))
    add("x.astype(int)", "ew", lambda X, o: X.astype(np.int64) if not is_nap(nap, X) else X.astype(np.int64))
    add("zeros_like", "ew", lambda X, o: np.zeros_like(X))
    add("ones_like", "ew", lambda X, o: np.ones_like(X))
    add("full_like", "ew", lambda X, o: np.full_like(X, 3))
    add("where(c,x,0)", "ew", lambda X, o: np.where(np.asarray(X) > 2, X, 0))
    add("isin", "ew", lambda X, o: np.isin(X, [1, 2, 3]))
    add("real", "ew", lambda X, o: np.real(X))
    add("angle", "ew", lambda X, o: np.angle(X))
    add("argsort(axis=0)", "plain", lambda X, o: np.argsort(X, axis=0))
    add("unique", "plain", lambda X, o: np.unique(X))
    add("stack([x,x])", "plain", lambda X, o: np.stack([X, X]))
    add("stack([x,x],-1)", "plain", lambda X, o: np.stack([X, X], axis=-1))
    add("column_stack", "plain", lambda X, o: np.column_stack([X, X]))
    add("outer", "plain", lambda X, o: np.outer(X, [1.0, 2.0]))
    add("broadcast_to", "plain", lambda X, o: np.broadcast_to(X, (2,) + X.shape))
    add("tril", "plain", lambda X, o: np.tril(X))
    add("trace", "plain", lambda X, o: np.trace(X))
    add("diagonal", "plain", lambda X, o: np.diagonal(X))
    add("convolve", "plain", lambda X, o: np.convolve(X, [1.0, 1.0], "same"))
    add("interp", "plain", lambda X, o: np.interp([1.5, 2.5], np.arange(X.shape[0]), X))
    add("searchsorted", "plain", lambda X, o: np.searchsorted(X, [2.5]))
    add("digitize", "plain", lambda X, o: np.digitize(X, [2.0, 4.0]))
    add("bincount", "plain", lambda X, o: np.bincount(X), None, np.int64)
    # results that are not arrays
    add("shape", "plain", lambda X, o: np.shape(X))
    add("ndim", "plain", lambda X, o: np.ndim(X))
    add("size", "plain", lambda X, o: np.size(X))
    add("nonzero", "plain", lambda X, o: np.nonzero(X))
    add("where(c)", "plain", lambda X, o: np.where(np.asarray(X) > 2))
    add("histogram", "plain", lambda X, o: np.histogram(X, bins=3, range=(0, 30)))
    add("array_equal", "plain", lambda X, o: np.array_equal(X, X))
    add("allclose", "plain", lambda X, o: np.allclose(X, 1.0))
    add("unique(counts)", "plain", lambda X, o: np.unique(X, return_counts=True))
    add("meshgrid", "plain", lambda X, o: np.meshgrid(X, [1.0, 2.0]))
    # refused: the exclusion list and np.fft.*
    add("sort", "excluded", lambda X, o: np.sort(X))
    add("x.sort()", "excluded", lambda X, o: M(nap, X, "sort"))
    add("sort_complex", "excluded", lambda X, o: np.sort_complex(X))
    add("partition", "excluded", lambda X, o: np.partition(X, 0, axis=0))
    add("argpartition", "excluded", lambda X, o: np.argpartition(X, 0, axis=0))
    add("lexsort", "excluded", lambda X, o: np.lexsort(X))
    add("fft.fft", "fft", lambda X, o: np.fft.fft(X, axis=0))
    add("fft.rfft", "fft", lambda X, o: np.fft.rfft(X, axis=0))
    add("fft.fftshift", "fft", lambda X, o: np.fft.fftshift(X))
    return T


SHAPES = list(dict.fromkeys([(n,) for n in (0, 1, 2, 5)] + [(n, 3) for n in (0, 1, 2, 5)] + [(n, n) for n in (0, 1, 2, 5)] + [(n, 1) for n in (1, 2)]
                           + [(n, 3, 2) for n in (0, 1, 2, 5)] + [(n, n, 2) for n in (1, 2)] + [(2, 3, 2, 2), (2, 2, 2)]))

KINDNUM = {"plain": 0, "ew": 0, "ew_multi": 0, "excluded": 1, "fft": 2}


def viol(res, key, what, inp, impl=None, expected=None):
    res.violations.append({"key": key, "what": what, "input": inp, "impl": impl, "expected": expected})


def run_wrap(nap, res, tier):
    """one time series operand: ufuncs, operators, array functions, methods"""
    T = table(nap)
    cases, lines = [], []
    for shape in SHAPES:
        for (name, tag, f, operand, dtype) in T:
            x = mk(nap, shape, dtype=dtype)
            o = None
            if operand == "matvec":
                o = np.arange(shape[-1] * 2).reshape(shape[-1], 2).astype(dtype) + 1 if len(shape) >= 2 else np.arange(shape[0]).astype(dtype) + 1
            elif operand is not None:
                o = others(shape, dtype).get(operand)
                if o is None:
                    continue
            xv = np.array(x.values, copy=True)
            exp = call(f, xv, o)
            got = call(f, x, o)
            inp = {"function": name, "operand": operand, "shape": list(shape), "dtype": np.dtype(dtype).name}
            res.count("wrap:" + tag)
            if exp[0] == "exc":
                # NumPy itself rejects the call on the raw array (axis out of range, ...): the wrapper must not invent a result
                res.case(("wrap", name, operand, shape), nontrivial=False)
                res.count("numpy_rejects")
                if got[0] == "ok":
                    viol(res, {"op": "array_function", "part": "numpy_rejects_but_wrapper_returns"}, "NumPy raises on the raw array but the call on the time series returns", inp,
                         impl=type(got[1]).__name__, expected=exp[1])
                continue
            e = exp[1]
            nontriv = isinstance(e, np.ndarray) and e.ndim >= 1 and shape[0] >= 1
            res.case(("wrap", name, operand, shape), nontrivial=nontriv)
            cases.append((inp, tag, x, e, got))
            if tag == "ew_multi":
                lines.append("ufunc_multi\t1\t1\t%s\t%d\t%s" % (ts6(nap, x), len(e), "\t".join(npres_arg(q) for q in e)))
            else:
                lines.append("func\t%d\t%s\t%s" % (KINDNUM[tag], ts6(nap, x), npres_arg(e)))
    out = C.run_model(lines, driver="driver_c14")
    for (inp, tag, x, e, got), mo in zip(cases, out):
        m = parse_out(mo.split(" ; ")[0]) if tag == "ew_multi" else parse_out(mo)
        res.count("verdict:" + m["kind"])
        n = x.shape[0]
        # ---- correspondence: extracted model vs implementation
        size = int(np.prod(e.shape)) if isinstance(e, np.ndarray) else 0
        if tag == "ew_multi":
            ms = [parse_out(q) for q in mo.split(" ; ")]
            if got[0] != "ok" or not isinstance(got[1], tuple) or len(got[1]) != len(ms):
                why = "model: tuple of %d wrapped outputs" % len(ms)
            else:
                why = next((w for w in (agree(nap, mq, ("ok", rq), cells_expected=list(range(eq.size))) for mq, rq, eq in zip(ms, got[1], e)) if w is not None), None)
        else:
            why = agree(nap, m, got, cells_expected=list(range(size)))
        if why is not None:
            res.disagreements.append({"op": "wrap", "input": inp, "model": mo[:200], "impl": got[1] if got[0] == "exc" else type(got[1]).__name__, "why": why})
        # ---- statement-level oracle on the implementation (independent of the model)
        if tag in ("excluded", "fft"):
            if got != ("exc", "TypeError"):
                viol(res, {"op": "array_function", "part": "exclusion_list"}, "a function pynapple declares unsupported (sort family / np.fft) did not raise TypeError", inp, impl=str(got[1])[:80])
            continue
        if got[0] == "exc":
            part = "zero_dim_result" if (isinstance(e, np.ndarray) and e.ndim == 0) else "raises"
            viol(res, {"op": "array_function", "part": part}, "NumPy computes a result on the raw array but the call on the time series raises " + got[1], inp, impl=got[1],
                 expected="ndarray%s" % (e.shape,) if isinstance(e, np.ndarray) else type(e).__name__)
            continue
        r = got[1]
        if not same_values(raw(nap, r), e):
            viol(res, {"op": "array_function", "part": "values"}, "result differs from the same NumPy call on the raw array", inp, impl=str(raw(nap, r))[:120], expected=str(e)[:120])
            continue
        if is_nap(nap, r):
            if ticks_of(r) != ticks_of(x) or sup_of(r) != sup_of(x):
                viol(res, {"op": "array_function", "part": "time_axis"}, "result is a time series but does not carry x's timestamps / time support", inp, impl=[ticks_of(r), sup_of(r)],
                     expected=[ticks_of(x), sup_of(x)])
            if klass(nap, r) != min(r.values.ndim, 3) - 1:
                viol(res, {"op": "array_function", "part": "class"}, "class of the result does not match its rank", inp, impl=type(r).__name__)
            if isinstance(r, nap.TsdFrame) and isinstance(x, nap.TsdFrame) and r.shape[1] == x.shape[1] and cols_of(nap, r) != cols_of(nap, x):
                viol(res, {"op": "array_function", "part": "columns"}, "column count unchanged but the column labels are lost", inp, impl=cols_of(nap, r), expected=cols_of(nap, x))
        if tag == "ew" and isinstance(e, np.ndarray) and e.shape == x.shape and not (is_nap(nap, r) and type(r) is type(x)):
            viol(res, {"op": "ufunc", "part": "elementwise_not_wrapped"}, "element-wise operation did not return a time series of x's class", inp, impl=type(r).__name__)
        if tag == "ew_multi":
            res.count("multi_output_ufunc")
            if not (isinstance(r, tuple) and all(is_nap(nap, q) and type(q) is type(x) for q, eq in zip(r, e) if eq.shape == x.shape)):
                viol(res, {"op": "ufunc", "part": "multi_output"}, "element-wise ufunc with two outputs returns raw arrays (time axis dropped)", inp, impl=[type(q).__name__ for q in r])
            else:
                for q in r:
                    if is_nap(nap, q) and (ticks_of(q) != ticks_of(x) or sup_of(q) != sup_of(x)
                                           or (isinstance(x, nap.TsdFrame) and isinstance(q, nap.TsdFrame) and q.shape[1] == x.shape[1] and cols_of(nap, q) != cols_of(nap, x))):
                        viol(res, {"op": "ufunc", "part": "multi_output_time_axis"}, "an output of a multi-output ufunc does not carry x's timestamps / support / labels", inp)
        # observation (NOT a violation: the statement keeps labels whenever the column count is unchanged): frame -> frame, same
        # labels in the same order, but the data columns are a non-trivial permutation of x's
        if isinstance(x, nap.TsdFrame) and isinstance(r, nap.TsdFrame) and r.shape == x.shape and 2 <= x.shape[1] <= 5 and n >= 1 \
                and cols_of(nap, r) == cols_of(nap, x) and not np.array_equal(r.values, x.values):
            xv = np.asarray(x.values)
            if any(np.array_equal(np.asarray(r.values), xv[:, list(pm)]) for pm in itertools.permutations(range(x.shape[1]))):
                res.count("observed:frame_data_columns_permuted_labels_unchanged")
                res.extra.setdefault("observed_column_permutations", [])
                if inp["function"] not in [o_["function"] for o_ in res.extra["observed_column_permutations"]]:
                    res.extra["observed_column_permutations"].append({"function": inp["function"], "shape": inp["shape"], "labels": cols_of(nap, r),
                                                                      "x_row0": xv[0].tolist(), "result_row0": np.asarray(r.values)[0].tolist()})
        if len(res.samples) < 3 and isinstance(e, np.ndarray) and e.ndim >= 1 and n == 2 and e.shape[0] == 2 and e.shape != x.shape \
                and inp["function"] in ("add", "sum(axis=0)", "transpose"):
            res.sample({"function": inp["function"], "operand": inp["operand"], "x.shape": list(x.shape), "result.shape": list(e.shape), "returned": type(r).__name__})


def run_same_class(nap, res):
    """two operands of the same class are refused; methods other than __call__ are refused"""
    lines, cases = [], []
    for shape in [(2,), (5,), (2, 3), (2, 2), (2, 3, 2)]:
        x = mk(nap, shape)
        y = mk(nap, shape, base=100)
        e = x.values + y.values
        for name, f in [("add(x,y)", lambda: np.add(x, y)), ("x+y", lambda: x + y), ("x<y", lambda: x < y), ("x==y", lambda: x == y), ("x@y", lambda: x @ y)]:
            got = call(f)
            res.case(("same_class", name, shape))
            cases.append(({"function": name, "shape": list(shape)}, got))
            lines.append("ufunc\t1\t2\t%s\t%s" % (ts6(nap, x), npres_arg(e)))
        for name, f in [("add.reduce", lambda: np.add.reduce(x)), ("add.accumulate", lambda: np.add.accumulate(x)), ("add.outer", lambda: np.add.outer(x, np.ones(2)))]:
            got = call(f)
            res.case(("ufunc_method", name, shape))
            cases.append(({"function": name, "shape": list(shape)}, got))
            lines.append("ufunc\t0\t1\t%s\t%s" % (ts6(nap, x), npres_arg(e)))
    out = C.run_model(lines, driver="driver_c14")
    for (inp, got), mo in zip(cases, out):
        res.count("refusals")
        why = agree(nap, parse_out(mo), got)
        if why is not None:
            res.disagreements.append({"op": "ufunc_refusal", "input": inp, "model": mo, "impl": str(got[1])[:80], "why": why})
        if got != ("exc", "TypeError"):
            viol(res, {"op": "ufunc", "part": "same_class_not_refused"}, "ufunc on two time series of the same class / ufunc method other than __call__ was not refused with TypeError", inp,
                 impl=str(got[1])[:80])


def run_mixed(nap, res):
    """operands of two different classes with the same time axis (shapes that broadcast: square or length 1)"""
    pairs = [((1,), (1, 3)), ((2,), (2, 2)), ((5,), (5, 5)), ((1, 2), (1, 3, 2)), ((2, 2), (2, 2, 2)), ((1,), (1, 3, 2)), ((2,), (2, 3, 2))]
    lines, cases = [], []
    for sa, sb in pairs:
        for order in (0, 1):
            for uname, u in [("add", np.add), ("multiply", np.multiply), ("greater", np.greater), ("+", None)]:
                a = mk(nap, sa)
                b = mk(nap, sb, base=50)
                outer, inner = (a, b) if order == 0 else (b, a)
                f = (lambda p, q: p + q) if u is None else u
                exp = call(f, np.array(outer.values), np.array(inner.values))
                got = call(f, outer, inner)
                inp = {"function": uname, "outer": list(outer.shape), "inner": list(inner.shape)}
                res.count("mixed_class")
                if exp[0] == "exc":
                    res.case(("mixed", uname, outer.shape, inner.shape), nontrivial=False)
                    if got[0] == "ok":
                        viol(res, {"op": "ufunc", "operand": "other_class", "part": "numpy_rejects_but_wrapper_returns"}, "NumPy rejects the raw operands but the wrapper returns", inp)
                    continue
                res.case(("mixed", uname, outer.shape, inner.shape))
                cases.append((inp, outer, inner, exp[1], got))
                lines.append("mixed\t%s\t%s\t%s" % (ts6(nap, outer), ts6(nap, inner), npres_arg(exp[1])))
    out = C.run_model(lines, driver="driver_c14")
    for (inp, outer, inner, e, got), mo in zip(cases, out):
        why = agree(nap, parse_out(mo), got, cells_expected=list(range(e.size)))
        if why is not None:
            res.disagreements.append({"op": "mixed", "input": inp, "model": mo[:200], "impl": str(got[1])[:80], "why": why})
        if got[0] == "exc":
            viol(res, {"op": "ufunc", "operand": "other_class", "part": "raises"}, "ufunc on two time series of different classes raises " + got[1], inp)
            continue
        r = got[1]
        if not same_values(raw(nap, r), e):
            viol(res, {"op": "ufunc", "operand": "other_class", "part": "values"}, "result differs from NumPy's on the raw arrays", inp)
        if e.shape in (outer.shape, inner.shape) and not is_nap(nap, r):
            viol(res, {"op": "ufunc", "operand": "other_class", "part": "elementwise_not_wrapped"}, "element-wise result is not a time series", inp, impl=type(r).__name__)
        if is_nap(nap, r):
            if ticks_of(r) != ticks_of(outer) or sup_of(r) != sup_of(outer):
                viol(res, {"op": "ufunc", "operand": "other_class", "part": "time_axis"}, "timestamps / support not carried", inp)
            for role, x in (("outer", outer), ("inner", inner)):
                if isinstance(x, nap.TsdFrame) and isinstance(r, nap.TsdFrame) and r.shape[1] == x.shape[1] and cols_of(nap, r) != cols_of(nap, x):
                    # recorded finding: the frame is the INNER operand (its own wrapper kept the labels, the outer class's wrapper re-wrapped last and dropped them);
                    # a frame that is the outer operand and loses its labels is a different defect and gets its own part
                    other = inner if role == "outer" else outer
                    viol(res, {"op": "ufunc", "operand": "other_class", "part": "columns" if role == "inner" else "columns_of_outer_frame", "frame_is": role,
                               "other_class": type(other).__name__, "result_has_default_labels": cols_of(nap, r) == list(range(r.shape[1]))},
                         "TsdFrame operand, TsdFrame result with the same number of columns, but its column labels are lost (the other class's wrapper re-wrapped last)", inp,
                         impl=cols_of(nap, r), expected=cols_of(nap, x))


def run_inplace(nap, res):
    """in-place operators and out= holding the time series itself (not modelled)"""
    for shape in [(2,), (5, 3), (2, 3, 2)]:
        for name, f in [("+=", lambda x: x.__iadd__(1.0)), ("*=", lambda x: x.__imul__(2.0)), ("-=", lambda x: x.__isub__(1.0)), ("out=x", lambda x: np.add(x, 1.0, out=x))]:
            x = mk(nap, shape)
            xv = np.array(x.values)
            exp = {"+=": xv + 1.0, "*=": xv * 2.0, "-=": xv - 1.0, "out=x": xv + 1.0}[name]
            got = call(f, x)
            res.case(("inplace", name, shape))
            res.count("inplace")
            inp = {"function": name, "shape": list(shape)}
            if got[0] == "exc":
                viol(res, {"op": "inplace_operator", "part": "raises"}, "in-place operator / out= on a time series raises " + got[1] + " (__array_ufunc__ forwards out=(self,) and re-enters itself)", inp,
                     impl=got[1], expected="time series with the updated values")
            elif not (is_nap(nap, got[1]) and same_values(raw(nap, got[1]), exp) and ticks_of(got[1]) == ticks_of(x)):
                viol(res, {"op": "inplace_operator", "part": "values"}, "in-place operator result is not the time series with NumPy's values", inp)
        x = mk(nap, shape)
        buf = np.zeros(shape)
        got = call(lambda: np.add(x, 1.0, out=buf))
        res.case(("out=ndarray", shape))
        if got[0] == "exc" or not same_values(raw(nap, got[1]), x.values + 1.0):
            viol(res, {"op": "ufunc", "part": "out_ndarray"}, "np.add(x, 1, out=ndarray) does not give NumPy's values", {"shape": list(shape)})


# ------------------------------------------------------------------------------------------------
# concatenate family
def union_mem(p, sups):
    return any(G.mem(p, s) for s in sups)


def strictly_inc(l):
    return all(a < b for a, b in zip(l, l[1:]))


def merged_union(sups):
    """the union the statement names, on integer ns: the intervals of all operand supports, merged when their interiors overlap;
    touch = the points p where one merged component ends and the next one starts (C01: those two are kept apart by trimming 1 us)"""
    comps, touch = [], []
    for s_, e_ in sorted(iv for s in sups for iv in s if iv[0] < iv[1]):
        if comps and s_ < comps[-1][1]:
            comps[-1][1] = max(comps[-1][1], e_)
        else:
            if comps and s_ == comps[-1][1]:
                touch.append(s_)
            comps.append([s_, e_])
    return comps, touch


def in_trimmed_us(t, touch):
    """t lies in the one microsecond C01 lets the constructor trim: the open interval (p - 1 us, p) before a touching point p"""
    return any(p - 1000 < t < p for p in touch)


def fold_touch(sups):
    """the touching points met while the supports are united PAIRWISE from the left (time_support.union(..).union(..), what _concatenate_tsd does):
    each step trims 1 us before such a point, and a later operand that covers this microsecond no longer closes it all"""
    acc, pts = [], []
    for s in sups:
        comps, touch = merged_union([acc, s])
        pts += touch
        acc = [(a, b - 1000 if b in touch else b) for a, b in comps]
        acc = [(a, b) for a, b in acc if a < b]
    return pts


def support_vs_union(rs, sups, touch_override=None):
    """None when the result support is EXACTLY the union of the operands' supports, where the only allowance is the one of C01's statement
    (exactly-touching components kept apart: the open microsecond before the touching point may be missing); otherwise the reason.
    Exact: every set involved is a finite union of closed intervals with endpoints in E, so membership is constant between consecutive
    points of E; E and one point inside every gap are probed (coordinates doubled so that the inner points are integers)."""
    if not G.canonical(rs):
        return "not_canonical"
    comps, touch = merged_union(sups)
    if touch_override is not None:
        touch = touch_override
    E = sorted(set(2 * v for iv in rs for v in iv) | set(2 * v for c in comps for v in c) | set(2 * (p - 1000) for p in touch))
    if not E:
        return None
    probes = [E[0] - 2] + E + [a + 1 for a, b in zip(E, E[1:]) if b - a >= 2] + [E[-1] + 2]
    for q in probes:
        inr = any(2 * a <= q <= 2 * b for a, b in rs)
        inu = any(2 * a <= q <= 2 * b for a, b in comps)
        if inr and not inu:
            return "covers_a_point_outside_the_union"
        if inu and not inr and not any(2 * (p - 1000) < q < 2 * p for p in touch):
            return "misses_a_point_of_the_union_outside_the_trimmed_microsecond"
    return None


def ns_boundary(xs):
    """some pair of operands has two timestamps or two support endpoints at the same position exactly 1 ns apart"""
    for a, b in itertools.combinations(xs, 2):
        ta, tb = ticks_of(a), ticks_of(b)
        sa, sb = [v for iv in sup_of(a) for v in iv], [v for iv in sup_of(b) for v in iv]
        for p, q in ((ta, tb), (sa, sb)):
            if len(p) == 1:
                p = p * len(q)
            if len(q) == 1:
                q = q * len(p)
            if any(abs(u - v) == 1 for u, v in zip(p, q)):
                return True
    return False


def rows_key(nap, r, e, tcat, sups):
    """key of a concatenation along time whose rows / timestamps are not the operands' appended.  The recorded way to lose rows: supports that touch at p are
    united as [.., p - 1 us], [p, ..] (C01) and the result is restricted to that union.  trimmed = EXACTLY the rows whose timestamp lies in such an open microsecond
    (p - 1 us, p) are missing, every other row is there, in order, with NumPy's values.  by_fold = the same, but p is a touching point of an intermediate pairwise
    union that is not one of the whole union (a later operand covers it)"""
    def exactly_missing(touch):
        keep = [i for i, t in enumerate(tcat) if not in_trimmed_us(t, touch)]
        return len(keep) < len(tcat) and ticks_of(r) == [tcat[i] for i in keep] and same_values(raw(nap, r), e[keep])
    trimmed = exactly_missing(merged_union(sups)[1])
    by_fold = not trimmed and exactly_missing(fold_touch(sups))
    return {"part": "rows_or_time" + ("_within_1us_of_support_end" if trimmed else ""), "only_rows_in_the_trimmed_microsecond_before_a_touching_support_are_missing": trimmed,
            "only_rows_in_a_microsecond_trimmed_by_an_intermediate_pairwise_union_are_missing": by_fold}


def support_key(rs, sups):
    why = support_vs_union(rs, sups)
    if why is None:
        return None
    by_fold = why.startswith("misses") and support_vs_union(rs, sups, touch_override=fold_touch(sups)) is None
    return {"part": "support", "how": why, "only_a_microsecond_trimmed_by_an_intermediate_pairwise_union_is_missing": by_fold}


def concat_operands(nap, tier):
    """complete small space of operand lists: class x row shape x lengths x time layout x support layout"""
    out = []
    # time axes "equal up to precision": identical except that the last operand's first stamp (or every stamp) is 1 ns / 2 ns later
    NS_T = {"last_first_stamp_1ns": (1, False), "last_first_stamp_2ns": (2, False), "last_all_stamps_1ns": (1, True)}
    NS_S = {"shared_last_end_1ns": 1, "shared_last_end_2ns": 2, "shared_last_start_1ns": -1}
    layouts = ["sequential", "touching", "overlap", "reversed", "interleaved", "same", "last_off", "first_off"] + list(NS_T)
    sup_layouts = ["own", "shared", "touching"] + list(NS_S)
    same_axis = ("same", "last_off", "first_off") + tuple(NS_T)
    for tail in [(), (2,), (1,), (2, 2)]:
        for lens in [(2,), (0,), (2, 3), (1, 1), (0, 2), (2, 0), (1, 0), (0, 0), (3, 1, 2), (2, 0, 1), (1, 2, 0), (2, 2, 2), (2, 2), (1, 1, 1)]:
            for lay in layouts:
                # equal-length operands with (partly) identical time axes: the non-time-axis forms may return a time series
                # only when EVERY operand shares the time axis
                if (lay in same_axis) != (lens in [(2, 2, 2), (2, 2), (1, 1, 1)]):
                    continue
                for sl in sup_layouts:
                    if len(lens) == 1 and (lay != "sequential" or sl != "own"):
                        continue
                    if (lay in NS_T and sl != "shared") or (sl in NS_S and lay != "same"):
                        continue
                    starts = []
                    pos = 0
                    for i, n in enumerate(lens):
                        if lay == "sequential":
                            starts.append(pos)
                            pos += 2 * U * (n + 1)
                        elif lay == "touching":          # first stamp of an operand = last stamp of the previous non-empty one
                            starts.append(pos)
                            pos += 2 * U * max(n - 1, 0)
                        elif lay == "overlap":
                            starts.append(pos)
                            pos += 2 * U * max(n - 2, 0) if n else 0
                        elif lay == "reversed":
                            starts.append(-i * 2 * U * 6)
                        elif lay == "same" or lay in NS_T:
                            starts.append(0)
                        elif lay == "last_off":
                            starts.append(U if i == len(lens) - 1 else 0)
                        elif lay == "first_off":
                            starts.append(U if i == 0 else 0)
                        else:                            # interleaved: shifted by one half step
                            starts.append(i * U)
                    ops = []
                    for i, n in enumerate(lens):
                        t0 = starts[i]
                        islast = i == len(lens) - 1
                        if sl == "own":
                            sup = [(t0 - U // 2, t0 + 2 * U * max(n, 1) - U)]
                        elif sl == "shared":
                            sup = [(-100 * U, 100 * U)]
                        elif sl in NS_S:
                            d = NS_S[sl] if islast else 0
                            sup = [(-100 * U + (1 if d < 0 else 0), 100 * U + max(d, 0))]
                        else:                            # supports that touch / overlap the neighbour's
                            sup = [(t0 - 2 * U, t0 + 2 * U * max(n, 1))]
                        tk = None
                        if lay in NS_T and islast:
                            d, every = NS_T[lay]
                            tk = [t0 + 2 * U * j + (d if (every or j == 0) else 0) for j in range(n)]
                        ops.append(mk(nap, (n,) + tail, t0=t0, sup=sup, base=1 + 20 * i, cols_base=10 + 10 * i, ticks=tk))
                    out.append(({"tail": list(tail), "lens": list(lens), "times": lay, "supports": sl}, ops))
    return out


def concat_family():
    return [("concatenate", lambda L: np.concatenate(L)), ("concatenate(axis=0)", lambda L: np.concatenate(L, axis=0)), ("concatenate(L,0)", lambda L: np.concatenate(L, 0)),
           ("vstack", lambda L: np.vstack(L)), ("hstack", lambda L: np.hstack(L)), ("dstack", lambda L: np.dstack(L)),
           ("concatenate(axis=1)", lambda L: np.concatenate(L, axis=1)), ("concatenate(L,1)", lambda L: np.concatenate(L, 1)),
           ("concatenate(axis=-1)", lambda L: np.concatenate(L, axis=-1)), ("concatenate(axis=None)", lambda L: np.concatenate(L, axis=None)),
           ("concatenate(axis=-ndim)", lambda L: np.concatenate(L, axis=-_nd(L[0])))]


def run_concat(nap, res, tier, operand_lists=None, tag="concat"):
    fam = concat_family()
    lines, cases = [], []
    for desc, ops in (concat_operands(nap, tier) if operand_lists is None else operand_lists):
        for fname, f in fam:
            for rawmix in (None, 0, 1):
                if rawmix is not None and (fname not in ("concatenate", "hstack", "concatenate(axis=-1)") or len(ops) != 2):
                    continue
                if operand_lists is not None and fname in ("concatenate(L,0)", "concatenate(L,1)", "concatenate(axis=-1)", "concatenate(axis=-ndim)"):
                    continue
                L = [np.array(o.values) if rawmix == i else o for i, o in enumerate(ops)]
                V = [np.array(o.values) for o in ops]
                exp = call(f, V)
                got = call(f, L)
                inp = dict(desc, function=fname, raw_operand=rawmix, t=[ticks_of(o) for o in ops], sup=[sup_of(o) for o in ops])
                res.count(tag + ":" + fname.split("(")[0])
                if exp[0] == "exc":
                    res.case((tag, fname, str(desc), rawmix), nontrivial=False)
                    res.count("numpy_rejects")
                    if got[0] == "ok":
                        viol(res, {"op": "concatenate_family", "part": "numpy_rejects_but_wrapper_returns"}, "NumPy rejects the raw operands but the wrapper returns", inp)
                    continue
                e = exp[1]
                ndim = ops[0].values.ndim
                along_time = e.ndim == ndim and all(e.shape[1:] == o.values.shape[1:] for o in ops) and e.shape[0] == sum(o.shape[0] for o in ops)
                res.case((tag, fname, str(desc), rawmix), nontrivial=along_time and len(ops) > 1)
                cases.append((inp, ops, L, e, got, along_time, rawmix))
                lines.append("concat\t%d\t%s\t%s\t%s" % (len(L), "\t".join(ts6(nap, o) for o in L), C.fmt_ints(e.shape), C.fmt_ints(e.ravel())))
    out = C.run_model(lines, driver="driver_c14")
    for (inp, ops, L, e, got, along_time, rawmix), mo in zip(cases, out):
        m = parse_out(mo)
        res.count("concat_verdict:" + m["kind"] + (":" + m.get("err", "") if m["kind"] == "ERR" else ""))
        why = agree(nap, m, got, cells_expected=[int(v) for v in e.ravel()])
        if why is not None and not along_time and ns_boundary([o for o in L if is_nap(nap, o)]):
            # _check_time_equals is np.allclose(.., rtol=0, atol=1e-9) on float seconds; the model's `close` is |a - b| <= 1 tick. For two values exactly
            # 1 ns apart the float comparison |a - b| <= 1e-9 is decided by rounding (1e-9 - 0.0 passes, 1.000000001 - 1.0 does not): not a disagreement
            res.float_ambiguous += 1
            why = None
        if why is not None:
            res.disagreements.append({"op": "concat", "input": inp, "model": mo[:200], "impl": got[1] if got[0] == "exc" else type(got[1]).__name__, "why": why})
        # ---- statement-level oracle
        # two structural situations in which _concatenate_tsd's heuristics go wrong are keyed separately (candidate findings):
        #   no_row: no operand after the first adds a row (empty later operands / a single operand): "output.shape[0] > arrays[0].shape[0]" fails
        #   rank  : the NumPy result has another rank than the operands (vstack of Tsd, dstack, axis=None): it is built with the operands' class
        no_row = sum(o.shape[0] for o in ops[1:]) == 0
        rank = e.ndim != ops[0].values.ndim
        fam_key = {"op": "concatenate_family"}
        if rawmix is not None:
            # a raw operand has no timestamps: only the numbers are specified
            if got[0] == "exc":
                viol(res, dict(fam_key, part="operand_adds_no_row" if no_row else "raw_operand", how="raises", exception=got[1]),
                     "concatenation with a raw array operand: NumPy computes a result, the call raises " + got[1], inp, impl=got[1])
            elif not same_values(raw(nap, got[1]), e):
                viol(res, dict(fam_key, part="raw_operand", how="values", no_later_operand_adds_a_row=no_row), "concatenation with a raw array operand does not give NumPy's values", inp)
            continue
        tcat = [t for o in ops for t in ticks_of(o)]
        sups = [sup_of(o) for o in ops]
        if along_time:
            if strictly_inc(tcat):
                if got[0] == "exc":
                    viol(res, dict(fam_key, part="operand_adds_no_row" if no_row else "raises", how="raises", exception=got[1]),
                         "timestamps strictly increasing across operands but concatenation along time raises " + got[1], inp, impl=got[1], expected="time series")
                    continue
                r = got[1]
                if not is_nap(nap, r) or type(r) is not type(ops[0]):
                    viol(res, dict(fam_key, part="not_wrapped"), "concatenation along time of time series did not return a time series of their class", inp, impl=type(r).__name__)
                    continue
                if not same_values(raw(nap, r), e) or ticks_of(r) != tcat:
                    # the one recorded way to lose rows: supports that touch at p are united as [.., p - 1 us], [p, ..] (C01), and the result is restricted to that union.
                    # trimmed = exactly the rows whose timestamp lies in such an open microsecond (p - 1 us, p) are missing, every other row is there, in order, with NumPy's values
                    viol(res, dict(fam_key, **rows_key(nap, r, e, tcat, sups)), "result rows / timestamps are not the operands' appended in order", inp, impl=[ticks_of(r)], expected=[tcat])
                    continue
                sk = support_key(sup_of(r), sups)
                if sk is not None:
                    viol(res, dict(fam_key, **sk), "support of the result is not the union of the operands' supports (allowing only C01's trimmed microsecond before a touching point)",
                         inp, impl=sup_of(r), expected=sups)
                if isinstance(r, nap.TsdFrame) and cols_of(nap, r) != cols_of(nap, ops[0]):
                    viol(res, dict(fam_key, part="operand_adds_no_row" if no_row else "columns", how="column_labels_lost"),
                         "column count unchanged but the column labels are lost", inp, impl=cols_of(nap, r), expected=cols_of(nap, ops[0]))
            else:
                if got[0] == "ok" and is_nap(nap, got[1]):
                    viol(res, dict(fam_key, part="order_not_checked"), "timestamps not strictly increasing / overlapping across operands but a time series was returned", inp,
                         impl=ticks_of(got[1]))
                elif got[0] == "ok":
                    viol(res, dict(fam_key, part="order_not_checked_raw"), "overlapping operands: expected an error, got a raw array", inp)
        else:
            # not along time (other axis, or the rank changes): numbers must be NumPy's; a time series result carries the time axis of EVERY time-series operand.
            # part "result_rank_changes" is reserved for the two recorded outcomes of building a result of another rank with the operands' class:
            # an exception, or the same cells in the same order under another shape; anything else keeps its own part
            if got[0] == "exc":
                viol(res, dict(fam_key, part="result_rank_changes" if rank else "other_axis_raises", how="raises", exception=got[1], no_later_operand_adds_a_row=no_row),
                     "NumPy computes a result on the raw arrays but the call on time series raises " + got[1], inp, impl=got[1], expected="ndarray%s" % (e.shape,))
                continue
            r = got[1]
            rv = np.asarray(raw(nap, r))
            if not same_values(rv, e):
                reshaped = rank and rv.dtype == e.dtype and rv.size == e.size and same_values(rv.ravel(), e.ravel())
                viol(res, dict(fam_key, part="result_rank_changes" if reshaped else "values_other_axis", how="same_cells_other_shape" if reshaped else "values", rank_changes=rank),
                     "result differs from NumPy's on the raw arrays (shape %s instead of %s)" % (rv.shape, e.shape), inp)
            elif is_nap(nap, r) and any(is_nap(nap, o) and (ticks_of(r) != ticks_of(o) or sup_of(r) != sup_of(o)) for o in ops):
                dt = max([abs(a - b) for o in ops if len(ticks_of(o)) == len(ticks_of(r)) for a, b in zip(ticks_of(o), ticks_of(r))] + [0])
                ds = max([abs(a - b) for o in ops if len(sup_of(o)) == len(sup_of(r)) for iv, jv in zip(sup_of(o), sup_of(r)) for a, b in zip(iv, jv)] + [0])
                lens = any(len(ticks_of(o)) != len(ticks_of(r)) or len(sup_of(o)) != len(sup_of(r)) for o in ops)
                if not lens and max(dt, ds) <= 1:
                    # operands one tick (1 ns = the library's time_index_precision) apart are, by the library's documented design, "equal up to
                    # pynapple precision": the result carries the FIRST operand's time axis.  The statement fixes "x's timestamps" for one operand x and says
                    # nothing about how equal several operands' axes must be, so this is counted, not judged (an earlier version of this oracle demanded
                    # exact equality: a false alarm, corrected)
                    res.count("concat_other_axis_operands_one_tick_apart")
                    continue
                viol(res, dict(fam_key, part="time_axis_other_axis", rank_changes=rank),
                     "time series result does not carry the timestamps / support of every time-series operand", inp, impl=[ticks_of(r), sup_of(r)])
        if len(res.samples) < 5 and along_time and len(ops) == 2 and got[0] == "ok" and is_nap(nap, got[1]) and ops[0].shape[0] and ops[1].shape[0]:
            res.sample({"concat": inp["function"], "t": inp["t"], "sup": inp["sup"], "result_t": ticks_of(got[1]), "result_sup": sup_of(got[1])})


def judge_1us(nap, res, inp, got, ops):
    tcat = [t for o in ops for t in ticks_of(o)]
    sups = [sup_of(o) for o in ops]
    e = np.concatenate([np.asarray(o.values) for o in ops])
    if got[0] == "exc":
        viol(res, {"op": "concatenate_family", "part": "raises", "how": "raises", "exception": got[1]}, "strictly increasing timestamps, touching supports: concatenation raises", inp, impl=got[1])
    elif not is_nap(nap, got[1]):
        viol(res, {"op": "concatenate_family", "part": "not_wrapped"}, "concatenation along time did not return a time series", inp)
    elif ticks_of(got[1]) != tcat or not same_values(raw(nap, got[1]), e):
        viol(res, dict({"op": "concatenate_family"}, **rows_key(nap, got[1], e, tcat, sups)),
             "supports [a,b] and [b,c] touch: the union is trimmed to [a,b-1us],[b,c] and a sample in (b-1us,b) is dropped from the concatenation",
             inp, impl=ticks_of(got[1]), expected=tcat)
    else:
        sk = support_key(sup_of(got[1]), sups)
        if sk is not None:
            viol(res, dict({"op": "concatenate_family"}, **sk), "support of the result is not the union of the operands' supports", inp, impl=sup_of(got[1]), expected=sups)


def run_stack_keyword(nap, res):
    """np.vstack / np.hstack / np.dstack name their operand list `tup`: the keyword spelling must behave as the positional one"""
    for tail in [(), (2,), (2, 2)]:
        a = mk(nap, (2,) + tail, t0=0, sup=[(-U, 20 * U)])
        b = mk(nap, (2,) + tail, t0=6 * U, sup=[(-U, 20 * U)], base=30)
        for fname, func in [("vstack", np.vstack), ("hstack", np.hstack), ("dstack", np.dstack)]:
            exp = call(lambda: func(tup=[np.array(a.values), np.array(b.values)]))
            pos = call(lambda: func([a, b]))
            got = call(lambda: func(tup=[a, b]))
            res.case(("stack_keyword", fname, tail))
            res.count("concat:" + fname + "[tup=]")
            inp = {"function": fname + "(tup=[a, b])", "tail": list(tail), "t": [ticks_of(a), ticks_of(b)]}
            if exp[0] == "exc" or pos[0] == "exc":
                continue                                 # rejected by NumPy, or the positional form already fails (judged in run_concat)
            same = got[0] == "ok" and same_values(raw(nap, got[1]), exp[1]) and type(got[1]) is type(pos[1]) \
                and (not is_nap(nap, pos[1]) or (ticks_of(got[1]) == ticks_of(pos[1]) and sup_of(got[1]) == sup_of(pos[1])))
            if not same:
                viol(res, {"op": "concatenate_family", "part": "raises" if got[0] == "exc" else "values_other_axis", "how": "raises" if got[0] == "exc" else "differs_from_positional_call",
                           "array_by_keyword": True, "exception": got[1] if got[0] == "exc" else None},
                     "the positional call np.%s([a, b]) works, the keyword spelling np.%s(tup=[a, b]) does not give the same" % (fname, fname), inp,
                     impl=got[1] if got[0] == "exc" else type(got[1]).__name__, expected=type(pos[1]).__name__)


def run_concat_1us(nap, res):
    """supports that touch: IntervalSet.union trims the earlier one by 1 us; a sample inside that last microsecond"""
    lines, cases = [], []
    for d in (1, 400, 999, 1000, 1001, 2000):
        x = nap.Tsd(G.arr([0, 8 * U - d]), np.array([1.0, 2.0]), time_support=nap.IntervalSet(G.arr([-U]), G.arr([8 * U])))
        y = nap.Tsd(G.arr([8 * U + U, 10 * U]), np.array([3.0, 4.0]), time_support=nap.IntervalSet(G.arr([8 * U]), G.arr([12 * U])))
        got = call(lambda: np.concatenate([x, y]))
        res.case(("concat_touching_support", d))
        res.count("concat_touching_support")
        inp = {"function": "concatenate", "t": [ticks_of(x), ticks_of(y)], "sup": [sup_of(x), sup_of(y)]}
        cases.append((inp, got))
        lines.append("concat\t2\t%s\t%s\t4\t1 2 3 4" % (ts6(nap, x), ts6(nap, y)))
        judge_1us(nap, res, inp, got, [x, y])
    # three operands whose supports unite to ONE interval: the first two touch at p = 8U, the third covers [p - 0.5 us, ..]; the pairwise fold trims
    # [.., p - 1 us] first and the third operand then starts after that end: a gap (p - 1 us, p - 0.5 us) the union does not have
    for d in (700, 300):
        x = nap.Tsd(G.arr([0, 8 * U - d]), np.array([1.0, 2.0]), time_support=nap.IntervalSet(G.arr([-U]), G.arr([8 * U])))
        y = nap.Tsd(G.arr([8 * U + U, 10 * U]), np.array([3.0, 4.0]), time_support=nap.IntervalSet(G.arr([8 * U]), G.arr([12 * U])))
        z = nap.Tsd(G.arr([13 * U, 14 * U]), np.array([5.0, 6.0]), time_support=nap.IntervalSet(G.arr([8 * U - 500]), G.arr([16 * U])))
        got = call(lambda: np.concatenate([x, y, z]))
        res.case(("concat_touching_support_bridged", d))
        res.count("concat_touching_support")
        inp = {"function": "concatenate", "t": [ticks_of(o) for o in (x, y, z)], "sup": [sup_of(o) for o in (x, y, z)]}
        cases.append((inp, got))
        lines.append("concat\t3\t%s\t%s\t%s\t6\t1 2 3 4 5 6" % (ts6(nap, x), ts6(nap, y), ts6(nap, z)))
        judge_1us(nap, res, inp, got, [x, y, z])
    for (inp, got), mo in zip(cases, C.run_model(lines, driver="driver_c14")):
        why = agree(nap, parse_out(mo), got)
        if why is not None:
            res.disagreements.append({"op": "concat(touching supports)", "input": inp, "model": mo[:200], "impl": str(got[1])[:80], "why": why})


# ------------------------------------------------------------------------------------------------
# split family
def _nd(a):
    return len(a.shape)


# every spelling of "split along the time axis": (name, call, array_split?, how the axis is spelled)
SPLIT_TIME_FORMS = [
    ("split", np.split, 0, "default"), ("array_split", np.array_split, 1, "default"), ("vsplit", np.vsplit, 0, "default"),
    ("split(axis=0)", lambda a, s: np.split(a, s, axis=0), 0, "0"), ("split(a,s,0)", lambda a, s: np.split(a, s, 0), 0, "0"),
    ("array_split(axis=0)", lambda a, s: np.array_split(a, s, axis=0), 1, "0"),
    ("split(axis=-ndim)", lambda a, s: np.split(a, s, axis=-_nd(a)), 0, "-ndim"), ("split(a,s,-ndim)", lambda a, s: np.split(a, s, -_nd(a)), 0, "-ndim"),
    ("array_split(axis=-ndim)", lambda a, s: np.array_split(a, s, axis=-_nd(a)), 1, "-ndim"),
    ("split(ary=,indices_or_sections=)", lambda a, s: np.split(ary=a, indices_or_sections=s), 0, "default", True),
    ("array_split(ary=,indices_or_sections=)", lambda a, s: np.array_split(ary=a, indices_or_sections=s), 1, "default", True),
    ("vsplit(ary=,indices_or_sections=)", lambda a, s: np.vsplit(ary=a, indices_or_sections=s), 0, "default", True),
]


def run_split(nap, res, tier, plan=None, tag="split"):
    lines, cases = [], []
    olines, ocases = [], []
    if plan is None:
        plan = []
        for shape in [(0,), (1,), (2,), (5,), (6,), (5, 3), (6, 2), (4, 4), (1, 1), (0, 3), (4, 3, 2), (6, 2, 2)]:
            n = shape[0]
            ioss = [("sections", N) for N in range(0, n + 3)] + [("indices", list(ix)) for k in (1, 2) for ix in itertools.combinations_with_replacement(range(0, n + 2), k)]
            ioss += [("indices", [3, 1]), ("indices", [])]
            plan.append((shape, ioss, [1, 2, 3, [1], [1, 2], [0]]))
    for shape, ioss, oioss in plan:
        n = shape[0]
        for fname, func, asplit, axis_form, *kw in SPLIT_TIME_FORMS:
            for kind, ios in ioss:
                x = mk(nap, shape)
                xv = np.array(x.values)
                exp = call(func, xv, ios)
                got = call(func, x, ios)
                inp = {"function": fname, "shape": list(shape), kind: ios, "axis_form": axis_form, "array_by_keyword": bool(kw)}
                res.count(tag + ":" + fname.split("(")[0] + ("" if axis_form == "default" else "[axis " + axis_form + "]") + ("[ary=]" if kw else ""))
                if exp[0] == "exc":
                    res.case((tag, fname, shape, str(ios)), nontrivial=False)
                    res.count("numpy_rejects")
                    if got[0] == "ok":
                        viol(res, {"op": fname.split("(")[0], "part": "numpy_rejects_but_wrapper_returns"}, "NumPy rejects the split of the raw array but the wrapper returns", inp)
                    continue
                e = exp[1]
                res.case((tag, fname, shape, str(ios)), nontrivial=len(e) > 1 and n > 0)
                cases.append((inp, x, e, got))
                # the model's split_tsd is the `axis == 0` branch of _split_tsd: the default and the explicit 0 reach it; the negative spelling of
                # the time axis and the keyword spelling of the array are judged by the statement-level oracle only
                lines.append("split\t%d\t%d\t%s\t%s" % (asplit, 0 if kind == "sections" else 1, str(ios) if kind == "sections" else C.fmt_ints(ios), ts6(nap, x))
                             if axis_form in ("default", "0") and not kw else None)
        # not along axis 0 of the model: hsplit / dsplit / split(axis=1)
        for fname, func in [("hsplit", lambda a, s: np.hsplit(a, s)), ("dsplit", lambda a, s: np.dsplit(a, s)), ("split(axis=1)", lambda a, s: np.split(a, s, axis=1)),
                            ("array_split(axis=1)", lambda a, s: np.array_split(a, s, axis=1)),
                            ("split(a,s,1)", lambda a, s: np.split(a, s, 1)), ("array_split(a,s,1)", lambda a, s: np.array_split(a, s, 1)),
                            ("split(axis=-1)", lambda a, s: np.split(a, s, axis=-1)), ("hsplit(ary=,indices_or_sections=)", lambda a, s: np.hsplit(ary=a, indices_or_sections=s))]:
            if fname == "split(axis=-1)" and len(shape) == 1:
                continue                                 # -1 IS the time axis of a Tsd: covered by the "-ndim" forms above
            for ios in oioss:
                x = mk(nap, shape)
                xv = np.array(x.values)
                exp = call(func, xv, ios)
                got = call(func, x, ios)
                inp = {"function": fname, "shape": list(shape), "indices_or_sections": ios}
                res.count(tag + ":" + fname.split("(")[0] + "_other_axis")
                if exp[0] == "exc":
                    res.case((tag + "_other", fname, shape, str(ios)), nontrivial=False)
                    res.count("numpy_rejects")
                    if got[0] == "ok":
                        viol(res, {"op": fname, "part": "numpy_rejects_but_wrapper_returns"}, "NumPy rejects the split of the raw array but the wrapper returns", inp)
                    continue
                e = exp[1]
                res.case((tag + "_other", fname, shape, str(ios)), nontrivial=n > 0)
                ocases.append((inp, x, e, got, fname))
                if fname in ("hsplit", "dsplit"):
                    olines.append("split_other\t%s\t%d\t%s" % (ts6(nap, x), len(e), "\t".join(C.fmt_ints(p.shape) + "\t" + C.fmt_ints(p.ravel()) for p in e)))
                else:
                    olines.append(None)
    mit = iter(C.run_model([l for l in lines if l is not None], driver="driver_c14"))
    for (inp, x, e, got), l in zip(cases, lines):
        mo = next(mit) if l is not None else None
        # ---- correspondence
        if mo is None:
            res.count("split_oracle_only(no model line)")
        elif mo.startswith("ERR "):
            ok = got == ("exc", ERRMAP.get(mo[4:], "?"))
            if not ok:
                res.disagreements.append({"op": "split", "input": inp, "model": mo, "impl": str(got[1])[:80]})
        else:
            ms = [parse_out(p) for p in mo.split(" ; ")] if mo.strip() else []
            if got[0] != "ok" or len(got[1]) != len(ms):
                res.disagreements.append({"op": "split", "input": inp, "model": mo[:200], "impl": str(got[1])[:80], "why": "number of pieces / exception"})
            else:
                for m, piece, ep in zip(ms, got[1], e):
                    why = agree(nap, m, ("ok", piece), cells_expected=[int(v) for v in ep.ravel()])
                    if why is not None:
                        res.disagreements.append({"op": "split", "input": inp, "model": mo[:200], "impl": type(piece).__name__, "why": why})
                        break
        # ---- statement-level oracle: the pieces partition timestamps together with the data
        fname = inp["function"].split("(")[0]
        axf = inp["axis_form"]
        if got[0] == "exc":
            uneven = fname == "array_split" and "sections" in inp and inp["sections"] > 0 and x.shape[0] % inp["sections"] != 0 and got[1] == "ValueError"
            viol(res, {"op": fname, "part": "uneven_sections" if uneven else "raises", "axis": axf, "array_by_keyword": inp["array_by_keyword"], "exception": got[1]},
                 "NumPy splits the raw array but the split of the time series raises " + got[1] + (" (the index is always divided with np.split)" if uneven else ""), inp,
                 impl=got[1], expected=[list(p.shape) for p in e])
            continue
        pcs = got[1]
        tt = ticks_of(x)
        pos = 0
        bad = None
        if len(pcs) != len(e):
            bad = "number of pieces"
        else:
            lens = [p.shape[0] for p in e]
            monotone = sum(lens) == x.shape[0]
            for p, ep in zip(pcs, e):
                if not is_nap(nap, p) or type(p) is not type(x):
                    bad = "piece is not a time series of x's class"
                    break
                if not same_values(raw(nap, p), ep):
                    bad = "piece values differ from NumPy's"
                    break
                if monotone:
                    if ticks_of(p) != tt[pos:pos + ep.shape[0]]:
                        bad = "piece timestamps are not those of its rows"
                        break
                    pos += ep.shape[0]
                if ep.shape[0] and sup_of(p) != sup_of(x):
                    bad = "piece support differs from x's"
                    break
                if isinstance(x, nap.TsdFrame) and cols_of(nap, p) != cols_of(nap, x):
                    bad = "piece column labels differ from x's"
                    break
            if bad is None and monotone and [t for p in pcs for t in ticks_of(p)] != tt:
                bad = "pieces do not partition the timestamps"
        if bad:
            # all_pieces_raw_with_numpy_values: the numbers are NumPy's, but every piece came back as a bare ndarray (the time axis is not split with the data)
            allraw = len(pcs) == len(e) and len(pcs) > 0 and all(isinstance(p, np.ndarray) and same_values(p, ep) for p, ep in zip(pcs, e))
            viol(res, {"op": fname, "part": "partition", "axis": axf, "array_by_keyword": inp["array_by_keyword"], "all_pieces_raw_with_numpy_values": allraw}, "split along time: " + bad, inp,
                 impl=[type(p).__name__ for p in pcs][:4])
        if len(res.samples) < 7 and len(e) == 2 and x.shape[0] == 5 and inp["function"] == "split" and all(is_nap(nap, p) for p in pcs):
            res.sample({"split": inp, "pieces_t": [ticks_of(p) for p in pcs]})
    oout = C.run_model([l for l in olines if l is not None], driver="driver_c14")
    it = iter(oout)
    for (inp, x, e, got, fname), ol in zip(ocases, olines):
        mo = next(it) if ol is not None else None
        if mo is not None:
            ms = [parse_out(p) for p in mo.split(" ; ")] if mo.strip() else []
            if got[0] != "ok" or len(got[1]) != len(ms):
                res.disagreements.append({"op": "split_other", "input": inp, "model": mo[:200], "impl": str(got[1])[:80]})
            else:
                for m, piece, ep in zip(ms, got[1], e):
                    why = agree(nap, m, ("ok", piece), cells_expected=[int(v) for v in ep.ravel()])
                    if why is not None:
                        res.disagreements.append({"op": "split_other", "input": inp, "model": mo[:200], "impl": type(piece).__name__, "why": why})
                        break
        if got[0] == "exc":
            viol(res, {"op": fname.split("(")[0], "part": "raises", "axis": "other", "array_by_keyword": "ary=" in fname, "exception": got[1]},
                 "NumPy splits the raw array but the call on the time series raises " + got[1], inp)
            continue
        pcs = got[1]
        if len(pcs) != len(e) or not all(same_values(raw(nap, p), ep) for p, ep in zip(pcs, e)):
            viol(res, {"op": fname, "part": "values"}, "pieces differ from NumPy's", inp)
            continue
        for p in pcs:
            if is_nap(nap, p) and (ticks_of(p) != ticks_of(x) or sup_of(p) != sup_of(x)):
                viol(res, {"op": fname, "part": "time_axis"}, "a piece that is a time series does not carry x's timestamps / support", inp)
        if fname.startswith("hsplit") and x.values.ndim == 1 and x.shape[0] and not all(is_nap(nap, p) for p in pcs):
            viol(res, {"op": "hsplit", "part": "1d_along_time_loses_timestamps"},
                 "np.hsplit of a Tsd splits ALONG TIME (1-d) but returns raw arrays: the timestamps are not partitioned with the data", inp, impl=[type(p).__name__ for p in pcs])


def run(res, tier, seed):
    nap = _nap()
    warnings.simplefilter("ignore")
    res.rule = ("wrap: EVERY entry of a table of 378 call forms (~150 NumPy functions/operators) (unary/binary ufuncs x operand kinds scalar/array/row/col/rank+1 x both operand orders, operators, reductions over every axis, cumulative, "
                "reshaping/indexing, non-array results, the exclusion list, np.fft; function and method forms) x EVERY shape (n,),(n,3),(n,n),(n,1),(n,3,2),(n,n,2),4-d with n in {0,1,2,5} [complete]; "
                "the implementation must equal the same NumPy call on the raw array bit for bit and the time axis/support/class/columns must match both the statement and the extracted model's verdict. "
                "same-class pairs and ufunc methods (refused); mixed-class pairs on square / length-1 shapes, both orders; in-place operators. "
                "concatenate family (11 call forms incl. axis=-ndim, + vstack/hstack/dstack(tup=..)): ALL operand lists over lengths {0,1,2,3} (1-3 operands) x row shapes x 5 time layouts (sequential, touching, overlapping, reversed, interleaved) "
                "x 3 support layouts, equal-length operands with the same time axis / one operand shifted by 2^-9 s / by 1 ns or 2 ns (first stamp, every stamp, support start, support end: 'equal up to precision'), "
                "with a raw operand mixed in; touching supports with a sample 1, 400, 999, 1000, 1001, 2000 ns before the touching point, and three operands where the third bridges the touching point; "
                "the result support is compared EXACTLY with the union (only C01's trimmed microsecond before a touching point may be missing). "
                "split family: ALL sections 0..n+2 and all index lists of length <= 2 over 0..n+1 (+ unsorted, empty) for split/array_split/vsplit in every spelling of the time axis "
                "(default, axis=0, positional 0, axis=-ndim, positional -ndim, ary=/indices_or_sections= keywords), hsplit/dsplit/axis=1/axis=-1. thorough adds seeded random shapes/functions, random concatenations of 2-5 operands and random splits. non-trivial = the NumPy result is an array of rank >= 1 on a non-empty series (a wrapping decision is made) / >= 2 operands or pieces")
    res.exhaustive = True
    run_wrap(nap, res, tier)
    run_same_class(nap, res)
    run_mixed(nap, res)
    run_inplace(nap, res)
    run_concat(nap, res, tier)
    run_concat_1us(nap, res)
    run_stack_keyword(nap, res)
    run_split(nap, res, tier)
    if tier != "quick":
        run_random(nap, res, seed)


def run_random(nap, res, seed):
    """seeded larger cases: random shapes / lengths, a random table entry; random concatenations of up to 5 operands"""
    rng = random.Random(seed * 14 + 3)
    T = [t for t in table(nap) if t[3] is None and t[1] in ("plain", "ew")]
    lines, cases = [], []
    for _ in range(3000):
        nd = rng.choice([1, 2, 2, 3, 4])
        n = rng.choice([0, 1, 2, 3, 4, 7, 12])
        shape = (n,) + tuple(rng.choice([1, 2, 3, n if 0 < n < 8 else 2]) for _ in range(nd - 1))
        name, tag, f, operand, dtype = rng.choice(T)
        x = mk(nap, shape, dtype=dtype)
        exp = call(f, np.array(x.values), None)
        got = call(f, x, None)
        if exp[0] == "exc":
            continue
        res.case(("rand", name, shape), nontrivial=isinstance(exp[1], np.ndarray) and exp[1].ndim >= 1 and n >= 1)
        res.count("random_wrap")
        cases.append(({"function": name, "shape": list(shape)}, x, exp[1], got))
        lines.append("func\t0\t%s\t%s" % (ts6(nap, x), npres_arg(exp[1])))
    out = C.run_model(lines, driver="driver_c14")
    for (inp, x, e, got), mo in zip(cases, out):
        size = int(np.prod(e.shape)) if isinstance(e, np.ndarray) else 0
        why = agree(nap, parse_out(mo), got, cells_expected=list(range(size)))
        if why is not None:
            res.disagreements.append({"op": "wrap(random)", "input": inp, "model": mo[:200], "why": why})
        if got[0] == "exc":
            viol(res, {"op": "array_function", "part": "zero_dim_result" if isinstance(e, np.ndarray) and e.ndim == 0 else "raises"}, "call on the time series raises " + got[1], inp)
        elif not same_values(raw(nap, got[1]), e):
            viol(res, {"op": "array_function", "part": "values"}, "result differs from the same NumPy call on the raw array", inp)
        elif is_nap(nap, got[1]) and (ticks_of(got[1]) != ticks_of(x) or sup_of(got[1]) != sup_of(x)):
            viol(res, {"op": "array_function", "part": "time_axis"}, "timestamps / support not carried", inp)
    # random concatenations: 2-5 operands, lengths 0-6, random offsets with forced coincidences, 1-2 interval supports
    lists = []
    for c in range(400):
        tail = rng.choice([(), (2,), (3,), (2, 2), (1,)])
        k = rng.randint(2, 5)
        ops, pos = [], 0
        for i in range(k):
            n = rng.choice([0, 1, 2, 3, 6])
            r = rng.random()
            if r < 0.6:
                t0 = pos                                   # after the previous operand
            elif r < 0.8:
                t0 = pos - 2 * U                           # first stamp = previous operand's last
            else:
                t0 = rng.randrange(-6, 6) * 2 * U          # anywhere (overlap / out of order)
            last = t0 + 2 * U * max(n - 1, 0)
            if n >= 2 and rng.random() < 0.5:
                cut = t0 + 2 * U * rng.randrange(0, n - 1) + U
                sup = [(t0 - U * rng.choice([1, 3]), cut - U // 2), (cut + U // 2, last + U * rng.choice([1, 3]))]
            else:
                sup = [(t0 - U * rng.choice([1, 3]), last + U * rng.choice([1, 3]))]
            ops.append(mk(nap, (n,) + tail, t0=t0, sup=sup, base=1 + 50 * i, cols_base=10 + 10 * i))
            pos = max(pos, last + 2 * U) if n else pos
        lists.append(({"tail": list(tail), "lens": [o.shape[0] for o in ops], "times": "random", "supports": "random", "case": c}, ops))
    run_concat(nap, res, "thorough", operand_lists=lists, tag="concat_random")
    # random splits
    plan = []
    for c in range(150):
        n = rng.choice([3, 4, 7, 8, 12])
        shape = (n,) + rng.choice([(), (2,), (n,), (2, 3)])
        ioss = [("sections", rng.randint(1, n + 1)) for _ in range(3)] + [("indices", sorted(rng.randrange(0, n + 2) for _ in range(rng.randint(1, 4)))) for _ in range(3)]
        plan.append((shape, ioss, [rng.randint(1, 3), sorted(rng.randrange(0, 4) for _ in range(2))]))
    run_split(nap, res, "thorough", plan=plan, tag="split_random")


def search(res, seed):
    r2 = C.Result()
    run(r2, "thorough", seed)
    new = [v for v in r2.violations if C.match_known("C14", v) is None]
    return new[0] if new else (r2.violations[0] if r2.violations else None)


def replay(payload):
    nap = _nap()
    warnings.simplefilter("ignore")
    v = payload.get("violation") or (payload.get("disagreements") or [{}])[0]
    inp = v.get("input", {})
    print("replay input:", inp)
    if "function" in inp and "shape" in inp and "t" not in inp:
        for (name, tag, f, operand, dtype) in table(nap):
            if name == inp["function"] and operand == inp.get("operand"):
                shape = tuple(inp["shape"])
                x = mk(nap, shape, dtype=dtype)
                o = others(shape, dtype).get(operand) if operand not in (None, "matvec") else None
                exp = call(f, np.array(x.values), o)
                got = call(f, x, o)
                print("numpy on raw array:", exp[0], (exp[1].shape if isinstance(exp[1], np.ndarray) else exp[1]))
                print("on time series    :", got[0], (type(got[1]).__name__ if got[0] == "ok" else got[1]))
                ok = got[0] == "ok" and exp[0] == "ok" and same_values(raw(nap, got[1]), exp[1])
                return 0 if ok else 1
    r = C.Result()
    run(r, "quick", 0)
    hits = [w for w in r.violations if w["key"] == v.get("key")]
    print("violations with the same key on the current tree:", len(hits))
    for w in hits[:3]:
        print(w)
    return 1 if hits else 0
